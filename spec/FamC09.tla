------------------------------- MODULE FamC09 -------------------------------
(* Direction-A family for C09: acyclic import graphs (single, pair, chain, diamond, the same file under two aliases,  *)
(* std + local) over files whose contents come from a catalog (public function; public + private with an internal    *)
(* call; global + top-level statement; function using its file's global; call into its own import), each in two     *)
(* variants whose content hash starts with a digit resp. a letter; negative cases for private/undefined names.       *)
(* Expected verdicts and outputs come from TshModules (linking) + TshStatic + TshDyn.                                 *)
EXTENDS TshAst
GS == INSTANCE GoStrings
CONSTANT Tier
I(n) == NatLit(n)
Kinds == {"pub", "priv", "top", "glob"}
\* every file offers Pub and Same; the kind adds private helpers, globals, top-level code
FileBody(tag, kind, k) ==
  <<Func("Pub", <<Param("n", "int")>>, <<"int">>, <<RetS(<<Bin("+", Var("n"), I(k))>>)>>),
    Func("Same", <<>>, <<"string">>, <<RetS(<<StrL("same of " \o tag)>>)>>),
    Func("unusedHelper", <<>>, <<"int">>, <<RetS(<<I(0)>>)>>)>>
  \o CASE kind = "pub" -> <<>>
       [] kind = "priv" -> <<Func("hidden", <<Param("n", "int")>>, <<"int">>, <<RetS(<<Bin("*", Var("n"), I(2))>>)>>),
                             Func("Use", <<Param("n", "int")>>, <<"int">>, <<RetS(<<Bin("+", CallE("hidden", <<Var("n")>>), CallE("Pub", <<I(0)>>))>>)>>)>>
       [] kind = "top" -> <<Def1("G", I(10 * k)), Func("Get", <<>>, <<"int">>, <<RetS(<<I(5)>>)>>), PrintS(<<StrL("load " \o tag), Var("G"), CallE("Get", <<>>)>>)>>
       [] kind = "glob" -> <<Def1("Cnt", I(100)), Func("Bump", <<>>, <<"int">>, <<Asg1("Cnt", Bin("+", Var("Cnt"), I(1))), RetS(<<Var("Cnt")>>)>>)>>
ViaBody(tag, al) == <<Func("Pub", <<Param("n", "int")>>, <<"int">>, <<RetS(<<Bin("*", ACall(al, "Pub", <<Var("n")>>), I(10))>>)>>),
                      Func("Same", <<>>, <<"string">>, <<RetS(<<StrL("same of " \o tag)>>)>>)>>
Imp(al, p) == [alias |-> al, path |-> p]
F(path, imps, body, h) == [path |-> path, imports |-> imps, body |-> body, hash |-> h]
\* what main does with an alias whose file has the given kind
UseOf(al, kind) ==
  <<PrintS(<<StrL(al), ACall(al, "Pub", <<I(1)>>), ACall(al, "Same", <<>>)>>)>>
  \o CASE kind = "priv" -> <<Print1(ACall(al, "Use", <<I(3)>>))>>
       [] kind = "top" -> <<Print1(ACall(al, "Get", <<>>))>>
       [] kind = "glob" -> <<PrintS(<<ACall(al, "Bump", <<>>), ACall(al, "Bump", <<>>)>>)>>
       [] OTHER -> <<>>
MainTail == <<Func("Same", <<>>, <<"string">>, <<RetS(<<StrL("same of main")>>)>>), Func("Pub", <<Param("n", "int")>>, <<"int">>, <<RetS(<<I(0)>>)>>), PrintS(<<CallE("Same", <<>>), CallE("Pub", <<I(9)>>)>>)>>
Prog(files) == [main |-> "main.tsh", files |-> files]
Hashes == {"digit", "letter"}
Mk(id, h, files) == [id |-> id \o "/" \o h, prog |-> Prog(files)]
\* a case whose model program differs from the real one: calls into the bundled std library are replaced by the values GoStrings prescribes
MkM(id, h, files, mfiles) == [id |-> id \o "/" \o h, prog |-> Prog(files), mprog |-> Prog(mfiles)]

S1 == {Mk("C09/single/" \o k, h, <<F("main.tsh", <<Imp("a", "a.tsh")>>, UseOf("a", k) \o MainTail, h), F("a.tsh", <<>>, FileBody("a", k, 1), h)>>) : k \in Kinds, h \in Hashes}
S2 == {Mk("C09/pair/" \o ka \o "-" \o kb, h, <<F("main.tsh", <<Imp("a", "a.tsh"), Imp("b", "b.tsh")>>, UseOf("a", ka) \o UseOf("b", kb) \o UseOf("a", "pub") \o MainTail, h),
                                                F("a.tsh", <<>>, FileBody("a", ka, 1), h), F("b.tsh", <<>>, FileBody("b", kb, 2), h)>>) : ka \in Kinds, kb \in Kinds, h \in Hashes}
S3 == {Mk("C09/chain/" \o kb, h, <<F("main.tsh", <<Imp("a", "a.tsh")>>, UseOf("a", "pub") \o MainTail, h), F("a.tsh", <<Imp("x", "b.tsh")>>, ViaBody("a", "x"), h),
                                    F("b.tsh", <<>>, FileBody("b", kb, 2), h)>>) : kb \in Kinds, h \in Hashes}
S4 == {Mk("C09/diamond/" \o kc, h, <<F("main.tsh", <<Imp("a", "a.tsh"), Imp("b", "b.tsh")>>, UseOf("a", "pub") \o UseOf("b", "pub") \o MainTail, h),
                                      F("a.tsh", <<Imp("x", "c.tsh")>>, ViaBody("a", "x"), h), F("b.tsh", <<Imp("y", "c.tsh")>>, ViaBody("b", "y"), h),
                                      F("c.tsh", <<>>, FileBody("c", kc, 3), h)>>) : kc \in Kinds, h \in Hashes}
S4b == {Mk("C09/diamond-direct/" \o kc, h, <<F("main.tsh", <<Imp("a", "a.tsh"), Imp("c", "c.tsh")>>, UseOf("a", "pub") \o UseOf("c", kc) \o MainTail, h),
                                             F("a.tsh", <<Imp("x", "c.tsh")>>, ViaBody("a", "x"), h), F("c.tsh", <<>>, FileBody("c", kc, 3), h)>>) : kc \in Kinds, h \in Hashes}
S5 == {Mk("C09/twoaliases/" \o kc, h, <<F("main.tsh", <<Imp("c1", "c.tsh"), Imp("c2", "c.tsh")>>, UseOf("c1", kc) \o UseOf("c2", kc) \o MainTail, h), F("c.tsh", <<>>, FileBody("c", kc, 3), h)>>)
       : kc \in Kinds, h \in Hashes}
S6 == {MkM("C09/stdlocal/" \o ka, h,
           <<F("main.tsh", <<Imp("", "strings"), Imp("a", "a.tsh")>>,
               <<PrintS(<<ACall("strings", "Contains", <<StrL("hello"), StrL("ell")>>), ACall("strings", "Repeat", <<StrL("ab"), I(2)>>), ACall("strings", "Index", <<StrL("abc"), StrL("c")>>)>>)>> \o UseOf("a", ka) \o MainTail, h),
             F("a.tsh", <<>>, FileBody("a", ka, 1), h)>>,
           <<F("main.tsh", <<Imp("a", "a.tsh")>>,
               <<PrintS(<<BoolL(GS!Contains("hello", "ell")), StrL(GS!Repeat("ab", 2)), I(GS!Index("abc", "c"))>>)>> \o UseOf("a", ka) \o MainTail, h),
             F("a.tsh", <<>>, FileBody("a", ka, 1), h)>>) : ka \in Kinds, h \in Hashes}
\* top-level calls inside both imported files (the used-function graph of several imports must be merged)
TopCall(tag, k) == FileBody(tag, "priv", k) \o <<PrintS(<<StrL("init " \o tag), CallE("Use", <<I(k)>>)>>)>>
S7 == {Mk("C09/topcalls", h, <<F("main.tsh", <<Imp("a", "a.tsh"), Imp("b", "b.tsh")>>, <<Print1(StrL("main"))>> \o MainTail, h), F("a.tsh", <<>>, TopCall("a", 1), h), F("b.tsh", <<>>, TopCall("b", 2), h)>>) : h \in Hashes}
      \cup {Mk("C09/topcalls-chain", h, <<F("main.tsh", <<Imp("a", "a.tsh")>>, <<Print1(StrL("main"))>> \o MainTail, h), F("a.tsh", <<Imp("x", "b.tsh")>>, ViaBody("a", "x") \o <<Print1(CallE("Pub", <<I(1)>>))>>, h),
                                          F("b.tsh", <<>>, TopCall("b", 2), h)>>) : h \in Hashes}
\* repeated imports followed by modules that start (and end) with executable top-level code
ViaTop(tag, al) == <<PrintS(<<StrL("start " \o tag), ACall(al, "Pub", <<I(1)>>)>>)>> \o ViaBody(tag, al) \o <<PrintS(<<StrL("end " \o tag), CallE("Pub", <<I(2)>>)>>)>>
PlainTop(tag, k) == <<Print1(StrL("start " \o tag))>> \o FileBody(tag, "pub", k) \o <<PrintS(<<StrL("end " \o tag), CallE("Pub", <<I(1)>>)>>)>>
S8 == {Mk("C09/diamond-tops/" \o kc, h, <<F("main.tsh", <<Imp("a", "a.tsh"), Imp("b", "b.tsh")>>, UseOf("a", "pub") \o UseOf("b", "pub") \o MainTail, h),
                                          F("a.tsh", <<Imp("x", "c.tsh")>>, ViaTop("a", "x"), h), F("b.tsh", <<Imp("y", "c.tsh")>>, ViaTop("b", "y"), h),
                                          F("c.tsh", <<>>, FileBody("c", kc, 3), h)>>) : kc \in Kinds, h \in Hashes}
      \cup {Mk("C09/twoaliases-then-top/" \o kc, h, <<F("main.tsh", <<Imp("c1", "c.tsh"), Imp("c2", "c.tsh"), Imp("d", "d.tsh")>>, UseOf("c1", kc) \o UseOf("c2", "pub") \o UseOf("d", "pub") \o MainTail, h),
                                                      F("c.tsh", <<>>, FileBody("c", kc, 3), h), F("d.tsh", <<>>, PlainTop("d", 4), h)>>) : kc \in Kinds, h \in Hashes}
      \cup {Mk("C09/direct-and-transitive-top/" \o kc, h, <<F("main.tsh", <<Imp("c", "c.tsh"), Imp("a", "a.tsh"), Imp("d", "d.tsh")>>, UseOf("c", kc) \o UseOf("a", "pub") \o UseOf("d", "pub") \o MainTail, h),
                                                            F("a.tsh", <<Imp("x", "c.tsh")>>, ViaTop("a", "x"), h), F("c.tsh", <<>>, FileBody("c", kc, 3), h), F("d.tsh", <<>>, PlainTop("d", 4), h)>>) : kc \in Kinds, h \in Hashes}
\* every acyclic import graph over main and three files a, b, c (a may import b and c, b may import c), imports in every order, plus one file under
\* two aliases: each file has a global, top-level code, and a public function that adds up what its imports deliver.  A file is reached along
\* one, two, three or four paths.
GFiles == <<"a", "b", "c">>
GK(f) == CASE f = "a" -> 1 [] f = "b" -> 2 [] f = "c" -> 3 [] OTHER -> 0
RECURSIVE SumPub(_, _)
SumPub(imps, i) == IF i > Len(imps) THEN Var("n") ELSE Bin("+", SumPub(imps, i + 1), ACall(imps[i].alias, "Pub", <<Var("n")>>))
GBody(f, imps) == <<Def1("G", I(10 * GK(f))), Func("Pub", <<Param("n", "int")>>, <<"int">>, <<RetS(<<Bin("+", SumPub(imps, 1), Var("G"))>>)>>),
                    PrintS(<<StrL("load " \o f), CallE("Pub", <<I(0)>>)>>)>>
GImps(l) == [i \in 1..Len(l) |-> Imp("x" \o l[i] \o ToString(i), l[i] \o ".tsh")]
MainLists == {<<"a">>, <<"b">>, <<"c">>, <<"a", "b">>, <<"b", "a">>, <<"a", "c">>, <<"c", "a">>, <<"b", "c">>, <<"c", "b">>,
              <<"a", "b", "c">>, <<"c", "b", "a">>, <<"b", "c", "a">>, <<"c", "a", "b">>, <<"a", "a">>, <<"c", "a", "c">>, <<"c", "c", "c">>}
ALists == {<<>>, <<"b">>, <<"c">>, <<"b", "c">>, <<"c", "b">>}
BLists == {<<>>, <<"c">>}
GName(l) == IF l = <<>> THEN "0" ELSE JoinS(l, "")
AllGraphs == {Mk("C09/graph/m" \o GName(lm) \o "-a" \o GName(la) \o "-b" \o GName(lb), h,
                 <<F("main.tsh", GImps(lm), [i \in 1..Len(lm) |-> PrintS(<<StrL(lm[i]), ACall(GImps(lm)[i].alias, "Pub", <<I(1)>>)>>)] \o <<Print1(StrL("main"))>>, h),
                   F("a.tsh", GImps(la), GBody("a", GImps(la)), h), F("b.tsh", GImps(lb), GBody("b", GImps(lb)), h), F("c.tsh", <<>>, GBody("c", <<>>), h)>>)
              : lm \in MainLists, la \in ALists, lb \in BLists, h \in (IF Tier = "quick" THEN {"letter"} ELSE Hashes)}
\* rejected programs
NegH(h) == {Mk("C09/neg/private", h, <<F("main.tsh", <<Imp("a", "a.tsh")>>, <<Print1(ACall("a", "hidden", <<I(1)>>))>>, h), F("a.tsh", <<>>, FileBody("a", "priv", 1), h)>>),
        Mk("C09/neg/undefined", h, <<F("main.tsh", <<Imp("a", "a.tsh")>>, <<Print1(ACall("a", "Nope", <<I(1)>>))>>, h), F("a.tsh", <<>>, FileBody("a", "pub", 1), h)>>),
        Mk("C09/neg/unknownalias", h, <<F("main.tsh", <<Imp("a", "a.tsh")>>, <<Print1(ACall("zz", "Pub", <<I(1)>>))>>, h), F("a.tsh", <<>>, FileBody("a", "pub", 1), h)>>),
        Mk("C09/neg/unqualified", h, <<F("main.tsh", <<Imp("a", "a.tsh")>>, <<Print1(CallE("Use", <<I(1)>>))>>, h), F("a.tsh", <<>>, FileBody("a", "priv", 1), h)>>),
        Mk("C09/neg/otherfilesprivate", h, <<F("main.tsh", <<Imp("a", "a.tsh"), Imp("b", "b.tsh")>>, <<Print1(ACall("b", "Use", <<I(1)>>))>>, h), F("a.tsh", <<>>, FileBody("a", "priv", 1), h), F("b.tsh", <<>>, FileBody("b", "pub", 2), h)>>),
        Mk("C09/neg/importedglobal", h, <<F("main.tsh", <<Imp("a", "a.tsh")>>, <<Print1(Var("G"))>>, h), F("a.tsh", <<>>, FileBody("a", "top", 1), h)>>),
        Mk("C09/neg/transitivealias", h, <<F("main.tsh", <<Imp("a", "a.tsh")>>, <<Print1(ACall("x", "Pub", <<I(1)>>))>>, h), F("a.tsh", <<Imp("x", "b.tsh")>>, ViaBody("a", "x"), h), F("b.tsh", <<>>, FileBody("b", "pub", 2), h)>>),
        Mk("C09/neg/argtype", h, <<F("main.tsh", <<Imp("a", "a.tsh")>>, <<Print1(ACall("a", "Pub", <<StrL("s")>>))>>, h), F("a.tsh", <<>>, FileBody("a", "pub", 1), h)>>)}
Neg == NegH("digit")
ASSUME ndJsonSerialize("fam.ndjson", SetToSeq(S1 \cup S2 \cup S3 \cup S4 \cup S4b \cup S5 \cup S6 \cup S7 \cup S8 \cup AllGraphs \cup Neg))
=============================================================================
