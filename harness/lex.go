package main

// vh lex: the real lexer.Tokenize on every text of a case file; records (type name, value, row, column) and the error flag.

import (
	"fmt"
	"strings"

	"github.com/monstermichl/typeshell/lexer"
)

var tokNames = map[lexer.TokenType]string{
	lexer.UNKNOWN: "UNKNOWN", lexer.COMMENT: "COMMENT", lexer.SPACE: "SPACE",
	lexer.OPENING_ROUND_BRACKET: "OPENING_ROUND_BRACKET", lexer.CLOSING_ROUND_BRACKET: "CLOSING_ROUND_BRACKET",
	lexer.OPENING_SQUARE_BRACKET: "OPENING_SQUARE_BRACKET", lexer.CLOSING_SQUARE_BRACKET: "CLOSING_SQUARE_BRACKET",
	lexer.OPENING_CURLY_BRACKET: "OPENING_CURLY_BRACKET", lexer.CLOSING_CURLY_BRACKET: "CLOSING_CURLY_BRACKET",
	lexer.ASSIGN_OPERATOR: "ASSIGN_OPERATOR", lexer.COMPOUND_ASSIGN_OPERATOR: "COMPOUND_ASSIGN_OPERATOR",
	lexer.UNARY_OPERATOR: "UNARY_OPERATOR", lexer.BINARY_OPERATOR: "BINARY_OPERATOR", lexer.COMPARE_OPERATOR: "COMPARE_OPERATOR",
	lexer.LOGICAL_OPERATOR: "LOGICAL_OPERATOR", lexer.SHORT_INIT_OPERATOR: "SHORT_INIT_OPERATOR",
	lexer.INCREMENT_OPERATOR: "INCREMENT_OPERATOR", lexer.DECREMENT_OPERATOR: "DECREMENT_OPERATOR",
	lexer.BOOL_LITERAL: "BOOL_LITERAL", lexer.NUMBER_LITERAL: "NUMBER_LITERAL", lexer.STRING_LITERAL: "STRING_LITERAL",
	lexer.NIL_LITERAL: "NIL_LITERAL", lexer.DATA_TYPE: "DATA_TYPE", lexer.COMMA: "COMMA", lexer.COLON: "COLON",
	lexer.SEMICOLON: "SEMICOLON", lexer.DOT: "DOT", lexer.NEWLINE: "NEWLINE", lexer.IDENTIFIER: "IDENTIFIER",
	lexer.IMPORT: "IMPORT", lexer.VAR_DEFINITION: "VAR_DEFINITION", lexer.FUNCTION_DEFINITION: "FUNCTION_DEFINITION",
	lexer.RETURN: "RETURN", lexer.IF: "IF", lexer.ELSE: "ELSE", lexer.SWITCH: "SWITCH", lexer.CASE: "CASE", lexer.DEFAULT: "DEFAULT",
	lexer.FOR: "FOR", lexer.RANGE: "RANGE", lexer.BREAK: "BREAK", lexer.CONTINUE: "CONTINUE", lexer.LEN: "LEN", lexer.PRINT: "PRINT",
	lexer.INPUT: "INPUT", lexer.COPY: "COPY", lexer.ITOA: "ITOA", lexer.EXISTS: "EXISTS", lexer.READ: "READ", lexer.WRITE: "WRITE",
	lexer.PANIC: "PANIC", lexer.AT: "AT", lexer.PIPE: "PIPE", lexer.EOF: "EOF",
}

const placeholder = "~"
const letter = "é" // two bytes in UTF-8

// asciiSafe maps the two-byte letter back to its placeholder and spells every other non-ASCII byte as {XX}.
func asciiSafe(s string) string {
	s = strings.ReplaceAll(s, letter, placeholder)
	var b strings.Builder
	for i := 0; i < len(s); i++ {
		if s[i] >= 0x7f || (s[i] < 0x20 && s[i] != '\n' && s[i] != '\t' && s[i] != '\r') {
			fmt.Fprintf(&b, "{%02X}", s[i])
		} else {
			b.WriteByte(s[i])
		}
	}
	return b.String()
}

func tokenizeSafe(text string) (toks []lexer.Token, err error) {
	defer func() {
		if r := recover(); r != nil {
			err = fmt.Errorf("PANIC: %v", r)
			toks = nil
		}
	}()
	return lexer.Tokenize(text)
}

func cmdLex(args []string) {
	cases := readCases(args[0])
	for _, c := range cases {
		text := strings.ReplaceAll(c["text"].(string), placeholder, letter)
		real, err := tokenizeSafe(text)
		toks := []any{}
		if err == nil {
			for _, t := range real {
				toks = append(toks, N{"t": tokNames[t.Type()], "v": asciiSafe(t.Value()), "row": t.Row(), "col": t.Column()})
			}
		}
		o := N{"err": err != nil, "toks": toks}
		if err != nil {
			o["msg"] = asciiSafe(err.Error())
		}
		c["obs"] = o
	}
	writeCases(args[1], cases)
}
