"""C01 - Bash target preserves scalar expression and control-flow semantics."""
import corpus
import comprun
import progflow
from vlib import avoid_tags

RULE = ("direction A: TLC enumerates spec/FamC01.tla (all operator pairs/triples over boundary operands in flat, "
        "left- and right-grouped spelling, all truth assignments, every nesting of 24 control constructs to depth 2 "
        "(3 in thorough), all definition/assignment forms, panic at every nesting position); direction B: typed random "
        "scalar programs from `vh gen scalar` (VERIF_SEED). Each case is rendered, transpiled by the real Bash converter, "
        "run by /bin/bash; TLC validates stdout, exit status and empty stderr against TshDyn. A case is non-trivial and "
        "distinct when its source text is new and the specification gives it a defined, terminating meaning.")
ASSUME = ["spec/TshDyn.tla states the Go meaning of the scalar fragment (DESIGN.md section 6)",
          "harness/render.go spells the abstract syntax faithfully (exercised: the real parser accepts every case)",
          "/bin/bash 5.2 is the interpreter"]


def run(ctx):
    fam = ctx.tlc_family("FamC01", constants={"Tier": '"%s"' % ctx.tier})
    ctx.exhaustive["FamC01"] = True
    failures = progflow.judge(ctx, fam, "fam", require_defined=False)
    n = 400 if ctx.tier == "quick" else 3000
    gen = progflow.generate(ctx, "scalar", n)
    failures += progflow.judge(ctx, gen, "gen")
    failures += corpus.judge(ctx, "C01")
    failures += comprun.judge(ctx, False)
    # beyond the small scope: sizes that cross the one-digit / two-digit boundary of names, counters and indices (spec/FamScale.tla)
    failures += progflow.judge(ctx, progflow.scale_cases(ctx, "C01"), "scale")
    # every ordered pair of feature snippets x every composition mode (spec/FamPairs.tla): the pairs whose highest property is this one
    failures += progflow.judge(ctx, progflow.pair_cases(ctx, "C01"), "pairs")
    # legal spellings the renderer never produces (spec/FamSyn.tla): the TEXT is run, the program it must mean is validated
    failures += progflow.judge(ctx, progflow.syn_cases(ctx, "C01"), "syn")
    # run-time histories (spec/FamHist.tla): the same constructs visited again and again along different dynamic paths
    failures += progflow.judge(ctx, progflow.hist_cases(ctx, ("loops", "loopsfn", "loopsnest", "iter")), "hist")
    # every control skeleton up to a size (spec/FamSkel.tla): all nestings and sequencings of 8 constructs, one jump site at most
    sk = sorted(progflow.skel_cases(ctx), key=lambda c: c["id"])
    failures += progflow.judge(ctx, [c for i, c in enumerate(sk) if not c["id"].startswith("skel/3/") or "/top/" in c["id"] or i % 3 == 0], "skel")   # size 3 inside a function: every 3rd
    progflow.report(ctx, failures)
    return ctx.finish(rule=RULE, assumptions=ASSUME)
