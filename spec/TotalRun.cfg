SPECIFICATION Spec
CONSTANT TrackPieces = FALSE
INVARIANTS Verdict Positions
CHECK_DEADLOCK TRUE
