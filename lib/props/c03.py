"""C03 - Bash target preserves slice and string operation semantics."""
import corpus
import comprun
import progflow

RULE = ("direction A: TLC enumerates spec/FamC03.tla: strings of distinct characters of every length 0..7 (thorough 0..12) with ALL "
        "in-range (a,b) pairs in the five subscript spellings, single indices up to length 12 (thorough 40); slice growth for every "
        "(initial length in {0,1,2,3,9,10,11[,39,40]}, assigned index 0..13 [0..41], element type); all two-step (thorough: also "
        "restricted three-step) aliasing histories over three slice variables with alias/write/function-write/return/copy/new, state "
        "printed after each step; copy for all length pairs; direction B: random programs from `vh gen slices`. "
        "Distinct = new source text with a defined meaning under TshDyn (out-of-range reads are status undef and dropped).")
ASSUME = ["spec/TshDyn.tla: SliceNew/SetIdxApply/ApplyCopy/ApplyIndex/ApplySubstr state the reference and growth semantics",
          "RefsValid (no dangling or reused references) is checked by TLC in every state"]


def run(ctx):
    fam = ctx.tlc_family("FamC03", constants={"Tier": '"%s"' % ctx.tier})
    ctx.exhaustive["FamC03"] = True
    failures = progflow.judge(ctx, fam, "fam")
    n = 300 if ctx.tier == "quick" else 3000
    failures += progflow.judge(ctx, progflow.generate(ctx, "slices", n), "gen")
    failures += corpus.judge(ctx, "C03")
    failures += comprun.judge(ctx, True)
    # beyond the small scope: sizes that cross the one-digit / two-digit boundary of names, counters and indices (spec/FamScale.tla)
    failures += progflow.judge(ctx, progflow.scale_cases(ctx, "C03"), "scale")
    # every ordered pair of feature snippets x every composition mode (spec/FamPairs.tla): the pairs whose highest property is this one
    failures += progflow.judge(ctx, progflow.pair_cases(ctx, "C03"), "pairs")
    # legal spellings the renderer never produces (spec/FamSyn.tla): the TEXT is run, the program it must mean is validated
    failures += progflow.judge(ctx, progflow.syn_cases(ctx, "C03"), "syn")
    progflow.report(ctx, failures)
    return ctx.finish(rule=RULE, assumptions=ASSUME)
