------------------------------- MODULE FamC12 -------------------------------
(* Base programs for C12 (layout independence) and C13 (near-miss edits): one small program per statement form, *)
(* written as text because layout is the subject; accepted and rejected ones.  The driver adds programs of the   *)
(* C01-C04 families (rendered from abstract syntax).  "lib1.tsh"/"lib2.tsh" are provided next to the main file.  *)
EXTENDS TshAst
CONSTANT Tier

Lib1 == "func Hello(n string) string {\n\treturn \"hello \" + n\n}\nfunc hidden() int {\n\treturn 1\n}\n"
Lib2 == "G := 5\nfunc Twice(a int) int {\n\treturn a * 2\n}\n"
Files == <<[path |-> "lib1.tsh", content |-> Lib1], [path |-> "lib2.tsh", content |-> Lib2]>>
B(id, text) == [id |-> "base/" \o id, text |-> text, files |-> Files]

Accepted == <<
  B("define", "a := 1\nvar b int\nvar c, d string = \"x\", \"y\"\nvar e = true\nf, g := 2, \"z\"\nprint(a, b, c, d, e, f, g)\n"),
  B("assign", "a, b := 1, 2\na = 3\na, b = b, a\na += 4\nb -= 1\na *= 2\na /= 3\na %= 5\na++\nb--\nprint(a, b)\n"),
  B("arith", "x := 7\ny := (x + 3) * -2 - x / 2 % 3\nz := x-1\nw := x - -1\nprint(y, z, w, x*x+1)\n"),
  B("logic", "p := true\nq := !p || (1 < 2 && \"a\" != \"b\")\nr := 1 <= 2 == true\nprint(q, r, !q)\n"),
  B("ifchain", "a := 2\nif a == 1 {\n\tprint(\"one\")\n} else if a == 2 {\n\tprint(\"two\")\n} else {\n\tprint(\"many\")\n}\n"),
  B("ifempty", "a := 2\nif a == 1 {\n}\nif a == 2 {\n\tprint(a)\n} else {\n}\n"),
  B("switchtag", "a := 2\nswitch a {\ncase 1:\n\tprint(\"one\")\ncase 2:\n\tprint(\"two\")\n\tprint(\"!\")\ndefault:\n\tprint(\"many\")\n}\n"),
  B("switchless", "a := 2\nswitch {\ncase a < 2:\n\tprint(\"lt\")\ndefault:\n\tprint(\"ge\")\n}\nswitch true {\ncase a == 2:\n\tprint(\"eq\")\n}\n"),
  B("for3", "for i := 0; i < 3; i++ {\n\tif i == 1 {\n\t\tcontinue\n\t}\n\tprint(i)\n}\n"),
  B("for3parts", "i := 0\nfor ; i < 2; {\n\ti++\n}\nfor j := 0; ; j++ {\n\tif j > 1 {\n\t\tbreak\n\t}\n}\nprint(i)\n"),
  B("forcond", "i := 0\nfor i < 3 {\n\ti += 1\n}\nfor {\n\ti--\n\tif i == 0 {\n\t\tbreak\n\t}\n}\nprint(i)\n"),
  B("forrange", "s := []int{1, 2, 3}\nfor i, v := range s {\n\tprint(i, v)\n}\nfor i := range s {\n\tprint(i)\n}\nfor k, c := range \"ab\" {\n\tprint(k, c)\n}\n"),
  B("func", "func add(a int, b int) int {\n\treturn a + b\n}\nfunc two() (int, string) {\n\treturn 1, \"s\"\n}\nfunc none() {\n\tprint(\"n\")\n}\nx, y := two()\nnone()\nprint(add(1, 2), x, y)\n"),
  B("funcslice", "func f(s []string, n int) []string {\n\ts[n] = \"v\"\n\treturn s\n}\nt := f([]string{\"a\"}, 2)\nprint(len(t), t[2])\n"),
  B("slices", "s := []int{}\nvar t []bool\ns[0] = 5\ns[len(s)] = 6\nu := []string{\"a\", \"b c\"}\nn := copy(s, []int{9})\nprint(len(s), s[0], s[1], len(t), u[1], n)\n"),
  B("strings", "s := \"hello\"\nt := `raw \\n text`\nprint(s[1], s[1:3], s[:2], s[3:], s[:], len(s), s + t, itoa(len(t)))\n"),
  B("builtins", "write(\"f.txt\", \"data\")\nwrite(\"f.txt\", \"more\", true)\nif exists(\"f.txt\") {\n\tprint(read(\"f.txt\"))\n}\nx := input(\"prompt \")\ny := input()\nprint(x, y)\npanic(\"end\")\n"),
  B("appcall", "@echo(\"a\", \"b c\")\n@ls(\"-l\") | @grep(\"x\") | @sort()\nout, err, code := @`some/path`(\"arg\")\nprint(out, err, code)\no2, e2, c2 := @\"q\"() | @wc(\"-l\")\nprint(o2, e2, c2)\n"),
  B("import1", "import h \"lib1.tsh\"\n\nprint(h.Hello(\"w\"))\n"),
  B("importgroup", "import (\n\th \"lib1.tsh\"\n\tm \"lib2.tsh\"\n)\n\nprint(h.Hello(\"w\"), m.Twice(4))\n"),
  B("importstd", "import (\n\t\"strings\"\n\th \"lib1.tsh\"\n)\nprint(strings.Contains(h.Hello(\"x\"), \"x\"))\n"),
  B("comments", "// leading comment\na := 1 // trailing\n/* block */ b := 2 /* mid */ + a /* end */\n/* multi\nline */\nprint(a, b)\n// last"),
  B("nested", "func f(n int) int {\n\tr := 0\n\tfor i := 0; i < n; i++ {\n\t\tswitch i {\n\t\tcase 0:\n\t\t\tr += 1\n\t\tdefault:\n\t\t\tif i % 2 == 0 {\n\t\t\t\tr += i\n\t\t\t} else {\n\t\t\t\tr -= 1\n\t\t\t}\n\t\t}\n\t}\n\treturn r\n}\nprint(f(5))\n"),
  B("error", "var e error\nif e == nil {\n\te = \"failed\"\n}\nif e != nil {\n\tprint(e)\n}\n"),
  B("rawmultiline", "s := `first\n  second\n\nlast`\nprint(s, len(s))\nt := \"x\" + `\n`\nprint(t)\n"),
  \* every kind of statement as the LAST thing in the file (the final-newline variants end the file right after it)
  B("importonly", "import \"strings\"\n"), B("importaliasonly", "import h \"lib1.tsh\"\n"), B("importgrouponly", "import (\n\t\"strings\"\n\tm \"lib2.tsh\"\n)\n"),
  B("lastvardecl", "a := 1\nprint(a)\nvar b int\n"), B("lastvardecl2", "var a, b int\n"), B("lastvarslice", "print(1)\nvar s []string\n"), B("lastvarvalue", "var a int = 5\n"),
  B("lastincr", "a := 1\na++\n"), B("lastcompound", "a := 1\na += 2\n"), B("lastassign", "a, b := 1, 2\na, b = b, a\n"), B("lastsetidx", "s := []int{1}\ns[1] = 2\n"),
  B("lastcall", "func f() {\n\tprint(1)\n}\nf()\n"), B("lastfunc", "func f() int {\n\treturn 1\n}\n"), B("lastif", "if true {\n\tprint(1)\n}\n"), B("lastelse", "if false {\n} else {\n\tprint(2)\n}\n"),
  B("lastfor", "for i := 0; i < 1; i++ {\n}\n"), B("lastswitch", "switch 1 {\ncase 1:\n\tprint(1)\n}\n"), B("lastappcall", "@echo(\"x\")\n"), B("lastpipe", "o, e, c := @echo(\"x\") | @cat()\n"),
  B("lastwrite", "write(\"f.txt\", \"x\")\n"), B("lastpanic", "panic(\"x\")\n"), B("lastdefcall", "func two() (int, int) {\n\treturn 1, 2\n}\na, b := two()\n"), B("laststring", "s := `raw`\n"), B("lastblockcomment", "a := 1 /* c */\n"),
  B("noeol", "a := 1\nprint(a)"),
  B("onlycomment", "// nothing here\n")
>>
Rejected == <<
  B("r-type-assign", "a := 1\na = \"s\"\n"),
  B("r-type-binop", "a := 1 + true\n"),
  B("r-type-cond", "if 1 {\n\tprint(1)\n}\n"),
  B("r-type-arg", "func f(a int) {\n}\nf(\"s\")\n"),
  B("r-arity", "func f(a int) {\n}\nf(1, 2)\n"),
  B("r-undefined", "print(x)\n"),
  B("r-redefine", "a := 1\na := 2\n"),
  B("r-scope", "if true {\n\ta := 1\n}\nprint(a)\n"),
  B("r-break", "break\n"),
  B("r-return", "return 1\n"),
  B("r-noreturn", "func f() int {\n\tprint(1)\n}\n"),
  B("r-private", "import h \"lib1.tsh\"\nprint(h.hidden())\n"),
  B("r-syntax-paren", "print((1 + 2)\n"),
  B("r-syntax-brace", "if true {\n\tprint(1)\n"),
  B("r-syntax-else", "if true {\n}\nelse {\n}\n"),
  B("r-syntax-stmt", "a := \n"),
  B("r-lex", "a := 1 # 2\n"),
  B("r-unterminated", "s := \"abc\nprint(s)\n"),
  B("r-funcnested", "if true {\n\tfunc f() {\n\t}\n}\n"),
  B("r-case-type", "switch 1 {\ncase \"a\":\n\tprint(1)\n}\n")
>>
All == Accepted \o Rejected
ASSUME ndJsonSerialize("fam.ndjson", All)
=============================================================================
