------------------------------- MODULE FamC13 -------------------------------
(* Direction-A families for C13: all byte strings of bounded length over an alphabet of lexically interesting     *)
(* characters; all import graphs over three files (self loops, mutual imports, missing files).                     *)
EXTENDS TshAst, TshModules
CONSTANT Tier
Quick == Tier = "quick"
Alpha == <<"a", "1", " ", "\n", "\"", "`", "/", "*", "-", "=", "(", "{", "\\", "#", ":", "~">>
RECURSIVE Words(_)
Words(n) == IF n = 0 THEN {""} ELSE Words(n - 1) \cup {w \o Alpha[i] : w \in Words(n - 1), i \in 1..Len(Alpha)}
MaxLen == IF Quick THEN 3 ELSE 4
Bytes == {[id |-> "C13/bytes/" \o w, text |-> w, mode |-> "lex"] : w \in Words(MaxLen)}

\* import graphs over files m (main), p, q; a file may also import the missing file "x"
FilesG == {"m", "p", "q"}
Imp == {<<>>, <<"m">>, <<"p">>, <<"q">>, <<"x">>, <<"p", "q">>, <<"q", "p">>, <<"p", "x">>, <<"m", "p">>}
Graphs == [FilesG -> Imp]
GName(g) == "m" \o JoinS(g["m"], "") \o "-p" \o JoinS(g["p"], "") \o "-q" \o JoinS(g["q"], "")
FileText(g, f) == \* imports with unique aliases, a global, one public function reading it, top-level code in every file (import-time code in p and q)
  LET n == Len(g[f])
      imps == IF n = 0 THEN ""
              ELSE IF n = 1 THEN "import i1 \"" \o g[f][1] \o ".tsh\"\n"
              ELSE "import (\n\ti1 \"" \o g[f][1] \o ".tsh\"\n\ti2 \"" \o g[f][2] \o ".tsh\"\n)\n"
  IN imps \o "var g" \o f \o " = 1\n" \o "func F" \o f \o "() int {\n\treturn g" \o f \o "\n}\n" \o (IF f = "m" THEN "print(Fm())\n" ELSE "print(\"import " \o f \o "\")\n")
GraphCases == {[id |-> "C13/graph/" \o GName(g), mode |-> "proto", text |-> "",
                expect |-> (IF Links(g, "m") THEN "script" ELSE "error"),
                cyclic |-> HasCycle(g, "m"), missing |-> HasMissing(g, "m"),
                prog |-> [main |-> "m.tsh", files |-> <<[path |-> "m.tsh", text |-> FileText(g, "m")], [path |-> "p.tsh", text |-> FileText(g, "p")],
                                                         [path |-> "q.tsh", text |-> FileText(g, "q")]>>]]
               : g \in Graphs}

\* near-miss programs: constructs the parser accepts or nearly accepts but that are unusual for the back-ends
NearTexts == <<"x := 1\nswitch x {\ncase 1:\n\tbreak\n}\n", "switch {\ndefault:\n\tbreak\n}\n", "for {\n\tswitch {\n\tcase true:\n\t\tcontinue\n\t}\n}\n",
               "func f() {\n\tswitch {\n\tcase true:\n\t\tbreak\n\t}\n}\nf()\n", "func f() int {\n\tfor {\n\t\treturn 1\n\t}\n\treturn 2\n}\nprint(f())\n",
               "", "\n", "\n\n\n", "func", "func f", "func f(", "func f()", "func f() {", "func f() {\n", "func f() {\n}", "import", "import (", "import (\n", "import (\n)", "import \"\"", "import x \"\"\n",
               "import \"nosuchlib\"\n", "var", "var x", "var x []", "x :=", "x := []", "x := []int", "x := []int{", "x := []int{1,", "if", "if true", "if true {", "if true {\n} else", "if true {\n} else if",
               "for", "for ;", "for ;;", "for ;; {", "for i := 0; i < 1; i++", "for i, := range", "for i := range", "for i := range 5 {\n}\n", "switch", "switch {", "switch {\ncase", "switch {\ncase true", "switch {\ncase true:",
               "print", "print(", "print()", "print(,)", "len()", "len(1, 2)", "copy()", "copy(1)", "x := copy(1, 2)\n", "write()", "write(\"a\")\n", "read()", "x := read(1)\n", "exists()", "itoa()", "x := itoa(\"a\")\n", "panic()", "panic(1)\n", "input(1, 2)",
               "@", "@a", "@a(", "@a()", "@a() |", "@a() | @", "@\"\"()\n", "a, b, c := @x()\n", "a, b := @x()\n", "a := @x()\n", "x := 1\nx[0] = 1\n", "s := \"a\"\ns[0] = \"b\"\n", "s := []int{}\nprint(s[0:1])\n", "s := \"abc\"\nprint(s[1:2:3])\n",
               "x := 99999999999999999999\n", "x := 1.5\n", "x := 1.\n", "x := -\n", "x := !\n", "x := !1\n", "x := (\n", "x := ()\n", "x := ((((((((((1))))))))))\n", "f()\n", "a.b()\n", "a.b\n", "a.\n", "return\n", "func f() {\n\treturn\n}\n",
               "func f() {\n\treturn 1\n}\n", "func f() (int, ) {\n\treturn 1\n}\n", "func f(a) {\n}\n", "func f(a int,) {\n}\n", "func f(a int) (int {\n}\n", "func 1() {\n}\n", "func f() {\n\tfunc g() {\n\t}\n}\n", "x++\n", "x := 1\nx++ ++\n", "x := 1\nx +=\n", "x := \"a\"\nx -= \"b\"\n",
               "a, b := 1\n", "a := 1, 2\n", "a, a := 1, 2\n", "var a, b int = 1\n", "a, b = 1, 2\n", "x := nil\n", "var e error = nil\nprint(e)\n", "x := true + true\n", "x := \"a\" * 2\n", "x := 1 == \"1\"\n", "x := []int{} == []int{}\n",
               "x := 1\nif x {\n}\n", "for \"a\" {\n}\n", "switch []int{} {\n}\n", "x := []int{\"a\"}\n", "x := []int{}\nx[\"a\"] = 1\n", "x := []int{}\nx[0] = \"a\"\n", "func v() {\n}\nx := v()\n", "func v() {\n}\nprint(v())\n", "func v() {\n}\nx := 1 + v()\n", "func v() {\n}\nif v() {\n}\n",
               "func v() {\n}\nx := []int{v()}\n", "func v() {\n}\ns := []int{1}\nprint(s[v()])\n", "func m() (int, int) {\n\treturn 1, 2\n}\nx := m()\n", "func m() (int, int) {\n\treturn 1, 2\n}\nx := 1 + m()\n", "func m() (int, int) {\n\treturn 1, 2\n}\nprint(m())\n",
               "func m() (int, int) {\n\treturn 1, 2\n}\na, b, c := m()\n", "func m() (int, int) {\n\treturn 1, 2\n}\nfunc n() (int, int) {\n\treturn m()\n}\n">>
\* resource behaviour at moderate sizes: long operator chains, deep nesting, many branches / functions / statements must end with a script or an
\* error within the deadline (exponential or quadratic algorithms, recursion depth)
RECURSIVE RepX(_, _)
RepX(c, n) == IF n = 0 THEN "" ELSE c \o RepX(c, n - 1)
RECURSIVE FibFuncs(_, _)
FibFuncs(i, n) == IF i > n THEN "" ELSE "func f" \o ToString(i) \o "() int {\n\treturn " \o (IF i <= 2 THEN "1" ELSE "f" \o ToString(i - 1) \o "() + f" \o ToString(i - 2) \o "()") \o "\n}\n" \o FibFuncs(i + 1, n)
RECURSIVE ElifChain(_, _)
ElifChain(i, n) == IF i > n THEN "" ELSE " else if x == " \o ToString(i) \o " {\n\tprint(" \o ToString(i) \o ")\n}" \o ElifChain(i + 1, n)
RECURSIVE NestBlocks(_, _)
NestBlocks(d, n) == IF d > n THEN RepX("\t", n) \o "print(x)\n" ELSE RepX("\t", d - 1) \o "if x > 0 {\n" \o NestBlocks(d + 1, n) \o RepX("\t", d - 1) \o "}\n"
ScaleSizes == IF Quick THEN {24, 40} ELSE {24, 30, 40, 64, 100}
ScaleTexts == {<<"chain-str/" \o ToString(n), "s := \"a\"" \o RepX(" + \"b\"", n) \o "\nprint(s)\n">> : n \in ScaleSizes}
              \cup {<<"chain-int/" \o ToString(n), "func f(a int) int {\n\treturn a" \o RepX(" + a - 1", n \div 2) \o "\n}\nprint(f(2))\n">> : n \in ScaleSizes}
              \cup {<<"chain-logic/" \o ToString(n), "p := true\nq := p" \o RepX(" && p || !p", n \div 2) \o "\nprint(q)\n">> : n \in ScaleSizes}
              \cup {<<"chain-cmp/" \o ToString(n), "x := 1\nq := x < 2" \o RepX(" && x + 1 < 3", n \div 2) \o "\nprint(q)\n">> : n \in ScaleSizes}
              \cup {<<"groups/" \o ToString(n), "x := " \o RepX("(", n) \o "1" \o RepX(")", n) \o "\nprint(x)\n">> : n \in ScaleSizes \cup {200}}
              \cup {<<"nots/" \o ToString(n), "p := " \o RepX("!", n) \o "true\nprint(p)\n">> : n \in ScaleSizes \cup {200}}
              \cup {<<"elifs/" \o ToString(n), "x := 3\nif x == 0 {\n\tprint(0)\n}" \o ElifChain(1, n) \o "\n">> : n \in ScaleSizes}
              \cup {<<"blocks/" \o ToString(n), "x := 1\n" \o NestBlocks(1, n)>> : n \in {24, 40, 100}}
              \cup {<<"fibfuncs/" \o ToString(n), FibFuncs(1, n) \o "print(f" \o ToString(n) \o "())\n">> : n \in ScaleSizes}
              \cup {<<"statements/" \o ToString(n), "x := 0\n" \o RepX("x = x + 1\nprint(x)\n", n * 10)>> : n \in {40}}
              \cup {<<"callargs/" \o ToString(n), "func id(a int) int {\n\treturn a\n}\nprint(" \o RepX("id(", n) \o "1" \o RepX(")", n) \o ")\n">> : n \in ScaleSizes}
              \cup {<<"slicelit/" \o ToString(n), "s := []int{1" \o RepX(", 2", n * 5) \o "}\nprint(len(s))\n">> : n \in ScaleSizes}
Scale == {[id |-> "C13/scale/" \o t[1], text |-> t[2], mode |-> "proto", expect |-> "any"] : t \in ScaleTexts}
Near == {[id |-> "C13/near/" \o ToString(i), text |-> NearTexts[i], mode |-> "proto", expect |-> "any"] : i \in 1..Len(NearTexts)}
ASSUME ndJsonSerialize("fam.ndjson", SetToSeq(Bytes))
ASSUME ndJsonSerialize("famnear.ndjson", SetToSeq(Near \cup Scale))
ASSUME ndJsonSerialize("famgraph.ndjson", SetToSeq(GraphCases))
=============================================================================
