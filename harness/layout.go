package main

// C12 support.
// vh relayout <pieces.ndjson> <out.ndjson> <seed> <nrandom> : candidate re-layouts of base texts from their reference
//            segmentation (pieces of kind tok|ws|com|nl printed by spec/Layout.tla); whether a candidate is token-preserving
//            is decided afterwards by TLC, not here.
// vh outcome <cases.ndjson> <out.ndjson> <scratch> : verdict and script digest of the real transpiler, both targets.

import (
	"crypto/sha256"
	"fmt"
	"math/rand"
	"os"
	"path/filepath"
	"strings"
	"sync"
)

type gap struct {
	text  string
	hasNl bool
}

var inlineAlts = []string{"", " ", "\t", "   ", "/* c */", " /**/ "}
var lineAlts = []string{"\n", "\r\n", "\n\n", "  \n", "\n\t\t", " // c\n", "\n// c\n", "\n\n\t/* c */\n", "\n \n", "\t// x y\r\n"}
var tailAlts = []string{"", "\n", "\n\n", " ", "\r\n", "\n// end", "\n// end\n", "\t"}

func cmdRelayout(args []string) {
	bases := readCases(args[0])
	var seed int64
	nrand := 0
	fmt.Sscan(args[2], &seed)
	fmt.Sscan(args[3], &nrand)
	out := []N{}
	for bi, b := range bases {
		pieces := list(b["pieces"])
		// split into tokens and the gaps around them: gaps[0] tok[0] gaps[1] tok[1] ... gaps[n]
		toks := []string{}
		gaps := []gap{{}}
		for _, p := range pieces {
			pn := p.(N)
			s, k := pn["s"].(string), pn["k"].(string)
			if k == "tok" {
				toks = append(toks, s)
				gaps = append(gaps, gap{})
			} else {
				g := &gaps[len(gaps)-1]
				g.text += s
				if k == "nl" {
					g.hasNl = true
				}
			}
		}
		build := func(gs []gap) string {
			var sb strings.Builder
			for i, g := range gs {
				sb.WriteString(g.text)
				if i < len(toks) {
					sb.WriteString(toks[i])
				}
			}
			return sb.String()
		}
		baseID := b["id"].(string)
		emit := func(op string, gs []gap) {
			text := build(gs)
			out = append(out, N{"id": baseID + "/" + op, "base": baseID, "text": text, "files": b["files"], "mode": "variant"})
		}
		// window around gap gi: up to three tokens before it and one after it, with the gaps between them
		window := func(gs []gap, gi int) string {
			lo, hi := gi-3, gi // token indices lo..hi (token k follows gap k)
			if lo < 0 {
				lo = 0
			}
			if hi > len(toks)-1 {
				hi = len(toks) - 1
			}
			var sb strings.Builder
			if gi == 0 {
				sb.WriteString(gs[0].text)
			}
			for k := lo; k <= hi; k++ {
				if k > lo {
					sb.WriteString(gs[k].text)
				}
				sb.WriteString(toks[k])
			}
			if gi == len(gs)-1 {
				sb.WriteString(gs[gi].text)
			}
			return sb.String()
		}
		emitLocal := func(op string, gs []gap, gi int) {
			text := build(gs)
			out = append(out, N{"id": baseID + "/" + op, "base": baseID, "text": text, "files": b["files"], "mode": "variant",
				"wbase": window(gaps, gi), "wtext": window(gs, gi)})
		}
		last := len(gaps) - 1
		for gi := range gaps {
			var alts []string
			switch {
			case gi == 0:
				alts = []string{" ", "\t", "/* c */ "}
				if len(toks) == 0 {
					alts = nil
				}
			case gi == last:
				alts = tailAlts
			case gaps[gi].hasNl:
				alts = lineAlts
			default:
				alts = inlineAlts
			}
			for ai, a := range alts {
				if a == gaps[gi].text {
					continue
				}
				gs := append([]gap{}, gaps...)
				gs[gi] = gap{text: a}
				emitLocal(fmt.Sprintf("gap%d.%d", gi, ai), gs, gi)
			}
		}
		// global transforms
		glob := func(op string, f func(g gap, i int) string) {
			gs := make([]gap, len(gaps))
			for i, g := range gaps {
				gs[i] = gap{text: f(g, i)}
			}
			emit(op, gs)
		}
		// CRLF line ends everywhere, also inside multi-line raw strings and block comments
		out = append(out, N{"id": baseID + "/crlf", "base": baseID, "files": b["files"], "mode": "variant",
			"text": strings.ReplaceAll(strings.ReplaceAll(build(gaps), "\r\n", "\n"), "\n", "\r\n")})
		glob("indent", func(g gap, i int) string {
			if i == last {
				return g.text
			}
			return strings.ReplaceAll(g.text, "\n", "\n\t  ")
		})
		glob("trailing", func(g gap, i int) string { return strings.ReplaceAll(g.text, "\n", " \t\n") })
		glob("dedent", func(g gap, i int) string {
			if !g.hasNl {
				return g.text
			}
			lines := strings.Split(g.text, "\n")
			for j := 1; j < len(lines); j++ {
				lines[j] = strings.TrimLeft(lines[j], " \t")
			}
			return strings.Join(lines, "\n")
		})
		glob("blanklines", func(g gap, i int) string { return strings.ReplaceAll(g.text, "\n", "\n\n") })
		glob("commentlines", func(g gap, i int) string {
			if i == last {
				return g.text
			}
			return strings.ReplaceAll(g.text, "\n", " // c\n// d\n")
		})
		glob("tight", func(g gap, i int) string {
			if g.hasNl || i == 0 || i == last {
				return g.text
			}
			return ""
		})
		glob("wide", func(g gap, i int) string {
			if g.hasNl || i == 0 || i == last {
				return g.text
			}
			return " " + g.text + " "
		})
		// layout at scale: long runs of blanks, of blank lines, deep indentation, long comments (counters and windows of fixed size);
		// whole-file re-scans of long texts are expensive in the model, so only a few small bases get them
		scaleBase := map[string]bool{"base/define": true, "base/func": true, "base/comments": true}
		globAll := glob
		glob = func(op string, f func(g gap, i int) string) {
			if scaleBase[baseID] {
				globAll(op, f)
			}
		}
		glob("blank40", func(g gap, i int) string {
			if g.hasNl || i == 0 || i == last || g.text == "" {
				return g.text
			}
			return strings.Repeat(" ", 40) + strings.Repeat("\t", 3)
		})
		glob("blanklines12", func(g gap, i int) string { return strings.ReplaceAll(g.text, "\n", strings.Repeat("\n", 12)) })
		glob("blanklines300first", func(g gap, i int) string {
			if i == 0 {
				return strings.Repeat("\n", 300) + g.text
			}
			return g.text
		})
		glob("indent40", func(g gap, i int) string {
			if i == last {
				return g.text
			}
			return strings.ReplaceAll(g.text, "\n", "\n"+strings.Repeat("\t", 40))
		})
		firstNl := -1
		for i, g := range gaps {
			if g.hasNl && i != last && firstNl < 0 {
				firstNl = i
			}
		}
		glob("longcomments", func(g gap, i int) string { // one long line comment and one long block comment, at the first line break only
			if i != firstNl {
				return g.text
			}
			return strings.Replace(g.text, "\n", " // "+strings.Repeat("long comment ", 90)+"\n/* "+strings.Repeat("x ", 700)+"*/\n", 1)
		})
		glob = globAll
		r := rand.New(rand.NewSource(seed*7919 + int64(bi)))
		for k := 0; k < nrand; k++ {
			gs := append([]gap{}, gaps...)
			for gi := 1; gi < last; gi++ {
				if r.Intn(3) != 0 {
					continue
				}
				if gaps[gi].hasNl {
					gs[gi] = gap{text: lineAlts[r.Intn(len(lineAlts))]}
				} else {
					gs[gi] = gap{text: inlineAlts[1+r.Intn(len(inlineAlts)-1)]}
				}
			}
			gs[last] = gap{text: tailAlts[r.Intn(len(tailAlts))]}
			emit(fmt.Sprintf("rand%d.%d", seed, k), gs)
		}
	}
	writeCases(args[1], out)
}

func outcomeOf(c N, dir string) string {
	mainFile, src := materialise(c, dir)
	c["src"] = src
	parts := []string{}
	rec := N{}
	c["obsrec"] = rec
	for _, target := range []string{"bash", "batch"} {
		script, err, panicked := transpileSafe(mainFile, target)
		rec[target] = "A"
		if err != nil {
			rec[target] = "R"
			rec[target+"Err"] = firstLine(err.Error())
			if script != "" {
				rec[target] = "RS" // an error AND a script
			}
		}
		if panicked {
			rec[target] = "P"
		}
		switch {
		case panicked:
			parts = append(parts, "P")
		case err != nil:
			parts = append(parts, "R")
		default:
			sum := sha256.Sum256([]byte(script))
			parts = append(parts, fmt.Sprintf("A:%x", sum[:10]))
		}
	}
	os.RemoveAll(dir)
	return strings.Join(parts, "|")
}

func cmdOutcome(args []string) {
	cases := readCases(args[0])
	scratch := args[2]
	var wg sync.WaitGroup
	sem := make(chan struct{}, 16)
	for i := range cases {
		wg.Add(1)
		sem <- struct{}{}
		go func(i int) {
			defer wg.Done()
			defer func() { <-sem }()
			cases[i]["obs"] = outcomeOf(cases[i], filepath.Join(scratch, fmt.Sprintf("o%06d", i)))
		}(i)
	}
	wg.Wait()
	writeCases(args[1], cases)
}
