package main

// vh: the conformance harness of /verif. One binary, several subcommands; invoked under any other name
// (through a symlink) it is the command-call probe used by C18.

import (
	"strings"
	"fmt"
	"os"
	"path/filepath"
)

func fatal(f string, a ...any) {
	fmt.Fprintf(os.Stderr, "vh: "+f+"\n", a...)
	os.Exit(2)
}

var commands = map[string]func([]string){}

func main() {
	base := filepath.Base(os.Args[0])
	if base != "vh" {
		// a program called by a path (the string-literal form @"dir/prog"(...)) reports the path it was called by
		if strings.ContainsAny(os.Args[0], "/") && !filepath.IsAbs(os.Args[0]) {
			base = os.Args[0]
		}
		probeMain(base)
		return
	}
	if len(os.Args) < 2 {
		fatal("usage: vh <command> ...")
	}
	commands["run"] = cmdRun
	commands["render"] = cmdRender
	commands["gen"] = cmdGen
	commands["lex"] = cmdLex
	commands["batch"] = cmdBatch
	commands["emit"] = cmdEmit
	commands["cli"] = cmdCli
	commands["purity"] = cmdPurity
	commands["purityrun"] = cmdPurityRun
	commands["strcases"] = cmdStrCases
	commands["total"] = cmdTotal
	commands["worker"] = cmdWorker
	commands["edits"] = cmdEdits
	commands["relayout"] = cmdRelayout
	commands["outcome"] = cmdOutcome
	f, ok := commands[os.Args[1]]
	if !ok {
		fatal("unknown command %s", os.Args[1])
	}
	f(os.Args[2:])
}

// cmdRender: vh render <cases.ndjson> <out.ndjson> : adds "src" (no execution)
func cmdRender(args []string) {
	cases := readCases(args[0])
	for _, c := range cases {
		prog, _ := c["prog"].(N)
		if prog != nil && prog["files"] == nil {
			c["src"] = renderFile(list(prog["imports"]), respell(list(prog["body"]), str(c["spell"])))
		}
	}
	writeCases(args[1], cases)
}
