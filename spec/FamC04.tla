------------------------------- MODULE FamC04 -------------------------------
(* Direction-A family for C04: every operand position of every statement kind is filled with an      *)
(* effectful probe  e<T>(id, v)  that prints "E id n" (n = a global counter it bumps) and returns v,   *)
(* so standard output IS the evaluation log; TshDyn's eager left-to-right rules give the expectation.  *)
EXTENDS TshAst
CONSTANT Tier
Quick == Tier = "quick"
N(i) == NatLit(i)
PI(id, v) == CallE("eI", <<N(id), v>>)
PB(id, v) == CallE("eB", <<N(id), v>>)
PS(id, v) == CallE("eS", <<N(id), v>>)
T == BoolL(TRUE)
F == BoolL(FALSE)
L(s) == Print1(StrL(s))
Probe(name, ty) == Func(name, <<Param("id", "int"), Param("v", ty)>>, <<ty>>,
                        <<Inc("cnt"), PrintS(<<StrL("E"), Var("id"), Var("cnt")>>), RetS(<<Var("v")>>)>>)
Prelude == <<Def1("cnt", N(0)), Probe("eI", "int"), Probe("eB", "bool"), Probe("eS", "string")>>
C(id, body) == CaseOf("C04/" \o id, Prelude \o body \o <<PrintS(<<StrL("total"), Var("cnt")>>)>>)
CK(id, body, chk) == [id |-> "C04/" \o id, prog |-> ProgOf(Prelude \o body \o <<PrintS(<<StrL("total"), Var("cnt")>>)>>), check |-> chk]
BV(b) == IF b THEN T ELSE F
BS(b) == IF b THEN "T" ELSE "F"
Bools == {TRUE, FALSE}

ArithOps == {"+", "-", "*", "/", "%"}
Exprs ==
  {C("bin/" \o o1 \o o2, <<Print1(FlatN(<<PI(1, N(7)), PI(2, N(3)), PI(3, N(2))>>, <<o1, o2>>))>>) : o1 \in ArithOps, o2 \in ArithOps}
  \cup {C("bingroup/" \o o1 \o o2, <<Print1(Bin(o1, PI(1, N(7)), Grp(Bin(o2, PI(2, N(3)), PI(3, N(2))))))>>) : o1 \in {"+", "*", "-"}, o2 \in {"+", "*"}}
  \cup {C("cmp/" \o o, <<Print1(CmpE(o, PI(1, N(1)), PI(2, N(2))))>>) : o \in {"==", "!=", "<", "<=", ">", ">="}}
  \cup {C("cmparith", <<Print1(CmpE("<", Bin("+", PI(1, N(1)), PI(2, N(2))), Bin("*", PI(3, N(3)), PI(4, N(4)))))>>),
        C("strconcat", <<Print1(Bin("+", Bin("+", PS(1, StrL("a")), PS(2, StrL("b"))), PS(3, StrL("c"))))>>),
        C("strcmp", <<Print1(CmpE("==", PS(1, StrL("a")), PS(2, StrL("a"))))>>)}
  \cup {C("logic/" \o o \o "/" \o BS(p) \o BS(q), <<Print1(Lgc(o, PB(1, BV(p)), PB(2, BV(q))))>>) : o \in {"&&", "||"}, p \in Bools, q \in Bools}
  \cup {C("logic3/" \o o1 \o o2 \o "/" \o BS(p) \o BS(q) \o BS(r), <<Print1(FlatN(<<PB(1, BV(p)), PB(2, BV(q)), PB(3, BV(r))>>, <<o1, o2>>))>>)
        : o1 \in {"&&", "||"}, o2 \in {"&&", "||"}, p \in Bools, q \in Bools, r \in Bools}
  \cup {C("not/" \o BS(p), <<Print1(Lgc("||", Not(PB(1, BV(p))), Not(Grp(Lgc("&&", PB(2, T), PB(3, BV(p)))))))>>) : p \in Bools}
  \cup {C("logiccmp", <<Print1(Lgc("&&", CmpE("<", PI(1, N(1)), PI(2, N(2))), CmpE("==", PS(3, StrL("x")), PS(4, StrL("y")))))>>)}

Calls ==
  {C("call/args3", <<Func("f3", <<Param("a", "int"), Param("b", "string"), Param("c", "bool")>>, <<"int">>, <<PrintS(<<StrL("f3"), Var("a"), Var("b"), Var("c")>>), RetS(<<Var("a")>>)>>),
                     Print1(CallE("f3", <<PI(1, N(5)), PS(2, StrL("s")), PB(3, T)>>))>>),
   C("call/nested", <<Func("add", <<Param("a", "int"), Param("b", "int")>>, <<"int">>, <<PrintS(<<StrL("add"), Var("a"), Var("b")>>), RetS(<<Bin("+", Var("a"), Var("b"))>>)>>),
                      Print1(CallE("add", <<PI(1, N(1)), CallE("add", <<PI(2, N(2)), PI(3, N(3))>>)>>)),
                      Print1(CallE("add", <<CallE("add", <<PI(4, N(1)), PI(5, N(2))>>), PI(6, N(3))>>))>>),
   C("call/stmt", <<Func("v", <<Param("a", "int"), Param("b", "int")>>, <<>>, <<PrintS(<<StrL("v"), Var("a"), Var("b")>>)>>), ExprS(CallE("v", <<PI(1, N(1)), PI(2, N(2))>>))>>),
   C("call/probeinprobe", <<Print1(PI(1, PI(2, PI(3, N(9)))))>>),
   C("return/list", <<Func("r3", <<>>, <<"int", "string", "bool">>, <<RetS(<<PI(1, N(1)), PS(2, StrL("two")), PB(3, T)>>)>>), Def(<<"a", "b", "c">>, <<CallE("r3", <<>>)>>), PrintS(<<Var("a"), Var("b"), Var("c")>>)>>),
   C("return/expr", <<Func("r1", <<>>, <<"int">>, <<RetS(<<Bin("+", PI(1, N(1)), Bin("*", PI(2, N(2)), PI(3, N(3))))>>)>>), Print1(Bin("+", CallE("r1", <<>>), CallE("r1", <<>>)))>>),
   C("print/args", <<PrintS(<<PI(1, N(1)), PS(2, StrL("b")), PB(3, F), PI(4, N(4))>>)>>),
   C("panic/arg", <<PanicS(Bin("+", PS(1, StrL("a")), PS(2, StrL("b"))))>>)}

Stores ==
  {C("define/multi", <<Def(<<"a", "b", "c">>, <<PI(1, N(1)), PI(2, N(2)), PI(3, N(3))>>), PrintS(<<Var("a"), Var("b"), Var("c")>>)>>),
   C("define/var", <<VarDef(<<"a", "b">>, "int", <<PI(1, N(1)), PI(2, N(2))>>), PrintS(<<Var("a"), Var("b")>>)>>),
   C("assign/multi", <<Def(<<"a", "b">>, <<N(0), N(0)>>), Asg(<<"a", "b">>, <<PI(1, N(1)), PI(2, N(2))>>), PrintS(<<Var("a"), Var("b")>>)>>),
   C("assign/swapprobe", <<Def(<<"a", "b">>, <<N(1), N(2)>>), Asg(<<"a", "b">>, <<PI(1, Var("b")), PI(2, Var("a"))>>), PrintS(<<Var("a"), Var("b")>>)>>),
   C("compound", <<Def1("a", N(10)), Compound("a", "+", PI(1, N(2))), Compound("a", "*", Bin("+", PI(2, N(1)), PI(3, N(1)))), Print1(Var("a"))>>),
   C("compound/str", <<Def1("s", StrL("x")), Compound("s", "+", PS(1, StrL("y"))), Print1(Var("s"))>>),
   C("slicelit", <<Def1("s", SliceLit("int", <<PI(1, N(10)), PI(2, N(20)), PI(3, N(30))>>)), PrintS(<<LenE(Var("s")), IndexE(Var("s"), N(2))>>)>>),
   C("slicelit/str", <<Def1("s", SliceLit("string", <<PS(1, StrL("a")), PS(2, StrL("b"))>>)), PrintS(<<LenE(Var("s")), IndexE(Var("s"), N(1))>>)>>),
   C("setidx", <<Def1("s", SliceLit("int", <<N(1), N(2)>>)), SetIdx("s", PI(1, N(0)), PI(2, N(5))), SetIdx("s", Bin("+", PI(3, N(1)), PI(4, N(2))), PI(5, N(6))), PrintS(<<LenE(Var("s")), IndexE(Var("s"), N(0)), IndexE(Var("s"), N(3))>>)>>),
   C("index/slice", <<Def1("s", SliceLit("int", <<N(10), N(20), N(30)>>)), PrintS(<<IndexE(Var("s"), PI(1, N(2))), IndexE(Var("s"), Bin("-", PI(2, N(2)), PI(3, N(1))))>>)>>),
   C("index/string", <<Def1("s", StrL("hello")), PrintS(<<IndexE(Var("s"), PI(1, N(1)))>>)>>),
   C("index/stringexpr", <<Def1("s", StrL("hello")), PrintS(<<IndexE(Var("s"), Bin("+", PI(1, N(1)), PI(2, N(2))))>>)>>),
   C("substr/both", <<Def1("s", StrL("hello")), PrintS(<<Substr(Var("s"), PI(1, N(1)), PI(2, N(3)))>>)>>),
   C("substr/lo", <<Def1("s", StrL("hello")), PrintS(<<Substr(Var("s"), PI(1, N(2)), NoneN)>>)>>),
   C("substr/hi", <<Def1("s", StrL("hello")), PrintS(<<Substr(Var("s"), NoneN, PI(1, N(2)))>>)>>),
   C("builtins", <<PrintS(<<LenE(PS(1, StrL("abc"))), Itoa(PI(2, N(42))), ExistsE(PS(3, StrL("nofile")))>>)>>),
   C("copy/src", <<Func("mk", <<>>, <<"[]int">>, <<RetS(<<SliceLit("int", <<PI(1, N(1)), PI(2, N(2))>>)>>)>>), VarDef(<<"d">>, "[]int", <<>>), Def1("n", CopyE("d", CallE("mk", <<>>))), PrintS(<<Var("n"), LenE(Var("d"))>>)>>)}

World ==
  {CK("write/args", <<WriteA(PS(1, StrL("f.txt")), PS(2, StrL("data")), PB(3, F)), WriteA(PS(4, StrL("f.txt")), PS(5, StrL("more")), PB(6, T)), Print1(ReadE(PS(7, StrL("f.txt"))))>>, <<"fs">>),
   CK("app/args", <<ExprS(App(<<Stage("pa", <<PS(1, StrL("a")), PS(2, StrL("b"))>>), Stage("pb", <<PS(3, StrL("c"))>>)>>)),
                    Def(<<"o", "e", "c">>, <<App(<<Stage("pa", <<PS(4, StrL("x3"))>>)>>)>>), PrintS(<<Var("o"), Var("c")>>)>>, <<"alog">>)}

\* builtins that LOOK at the world (exists, read, len of a read) next to a later operand that CHANGES it: the value is the one at the point of evaluation
Mk(p) == CallE("mk", <<StrL(p)>>)           \* writes the file, returns true
Wr(p, d) == CallE("wr", <<StrL(p), StrL(d)>>) \* overwrites the file, returns its new content
WorldPrelude == <<Func("mk", <<Param("p", "string")>>, <<"bool">>, <<WriteS(Var("p"), StrL("made")), RetS(<<T>>)>>),
                  Func("wr", <<Param("p", "string"), Param("d", "string")>>, <<"string">>, <<WriteS(Var("p"), Var("d")), RetS(<<Var("d")>>)>>),
                  Func("two", <<Param("a", "bool"), Param("b", "bool")>>, <<>>, <<PrintS(<<StrL("two"), Var("a"), Var("b")>>)>>),
                  Func("twos", <<Param("a", "string"), Param("b", "string")>>, <<>>, <<PrintS(<<StrL("twos"), Var("a"), Var("b")>>)>>)>>
WorldOrder ==
  {CK("world/" \o nm[1], WorldPrelude \o <<WriteS(StrL("old.txt"), StrL("old"))>> \o nm[2], <<"fs">>)
   : nm \in {<<"print-exists-mk", <<PrintS(<<ExistsE(StrL("n.txt")), Mk("n.txt"), ExistsE(StrL("n.txt"))>>)>>>>,
              <<"args-exists-mk", <<ExprS(CallE("two", <<ExistsE(StrL("n.txt")), Mk("n.txt")>>)), ExprS(CallE("two", <<Mk("m.txt"), ExistsE(StrL("m.txt"))>>))>>>>,
              <<"or-exists-mk", <<Print1(Lgc("||", ExistsE(StrL("n.txt")), Mk("n.txt"))), Print1(Lgc("&&", Not(ExistsE(StrL("k.txt"))), Mk("k.txt")))>>>>,
              <<"cmp-exists-mk", <<Print1(CmpE("==", ExistsE(StrL("n.txt")), Mk("n.txt"))), Print1(CmpE("!=", Mk("k.txt"), ExistsE(StrL("k.txt"))))>>>>,
              <<"def-exists-mk", <<Def(<<"a", "b", "c">>, <<ExistsE(StrL("n.txt")), Mk("n.txt"), ExistsE(StrL("n.txt"))>>), PrintS(<<Var("a"), Var("b"), Var("c")>>)>>>>,
              <<"print-read-wr", <<PrintS(<<ReadE(StrL("old.txt")), Wr("old.txt", "new"), ReadE(StrL("old.txt"))>>)>>>>,
              <<"args-read-wr", <<ExprS(CallE("twos", <<ReadE(StrL("old.txt")), Wr("old.txt", "new")>>)), ExprS(CallE("twos", <<Wr("old.txt", "newer"), ReadE(StrL("old.txt"))>>))>>>>,
              <<"concat-read-wr", <<Print1(Bin("+", Bin("+", ReadE(StrL("old.txt")), Wr("old.txt", "new")), ReadE(StrL("old.txt"))))>>>>,
              <<"cmp-read-wr", <<Print1(CmpE("==", ReadE(StrL("old.txt")), Wr("old.txt", "old"))), Print1(CmpE("==", ReadE(StrL("old.txt")), Wr("old.txt", "new")))>>>>,
              <<"len-read-wr", <<PrintS(<<LenE(ReadE(StrL("old.txt"))), Wr("old.txt", "longer text"), LenE(ReadE(StrL("old.txt")))>>)>>>>,
              <<"write-reads-itself", <<WriteS(StrL("old.txt"), Bin("+", ReadE(StrL("old.txt")), StrL("+x"))), WriteA(StrL("old.txt"), ReadE(StrL("old.txt")), T), Print1(ReadE(StrL("old.txt")))>>>>,
              <<"slice-elems", <<Def1("sl", SliceLit("bool", <<ExistsE(StrL("n.txt")), Mk("n.txt"), ExistsE(StrL("n.txt"))>>)), PrintS(<<IndexE(Var("sl"), N(0)), IndexE(Var("sl"), N(1)), IndexE(Var("sl"), N(2))>>)>>>>,
              <<"return-pair", <<Func("pair", <<>>, <<"bool", "bool">>, <<RetS(<<ExistsE(StrL("n.txt")), Mk("n.txt")>>)>>), Def(<<"a", "b">>, <<CallE("pair", <<>>)>>), PrintS(<<Var("a"), Var("b")>>)>>>>}}
\* if / else-if chains: every condition of the chain is evaluated before any body; a nested if inside a body only when reached
Chains ==
  {C("if1/" \o BS(p), <<If1(PB(1, BV(p)), <<L("then")>>)>>) : p \in Bools}
  \cup {C("ifelse/" \o BS(p), <<IfElse(PB(1, BV(p)), <<L("then")>>, <<L("else")>>)>>) : p \in Bools}
  \cup {C("elif/" \o BS(p) \o BS(q), <<If(<<Branch(PB(1, BV(p)), <<L("b1")>>), Branch(PB(2, BV(q)), <<L("b2")>>)>>, <<L("else")>>)>>) : p \in Bools, q \in Bools}
  \cup {C("elif3/" \o BS(p) \o BS(q) \o BS(r), <<If(<<Branch(PB(1, BV(p)), <<L("b1")>>), Branch(PB(2, BV(q)), <<L("b2")>>), Branch(PB(3, BV(r)), <<L("b3")>>)>>, <<>>)>>)
        : p \in Bools, q \in Bools, r \in Bools}
  \cup {C("elifcmp/" \o BS(p), <<If(<<Branch(Lgc("&&", PB(1, BV(p)), PB(2, T)), <<L("b1")>>), Branch(CmpE("<", PI(3, N(1)), PI(4, N(2))), <<L("b2")>>)>>, <<L("else")>>)>>) : p \in Bools}
  \cup {C("nested/else-if/" \o BS(p) \o BS(q), <<IfElse(PB(1, BV(p)), <<L("A")>>, <<IfElse(PB(2, BV(q)), <<L("B")>>, <<L("C")>>)>>)>>) : p \in Bools, q \in Bools}
  \cup {C("nested/else-ifelif/" \o BS(p) \o BS(q), <<IfElse(PB(1, BV(p)), <<L("A")>>, <<If(<<Branch(PB(2, BV(q)), <<L("B")>>), Branch(PB(3, T), <<L("C")>>)>>, <<L("D")>>)>>)>>) : p \in Bools, q \in Bools}
  \cup {C("nested/else-switch/" \o BS(p), <<IfElse(PB(1, BV(p)), <<L("A")>>, <<Switch(NoneN, <<CaseB(PB(2, F), <<L("B")>>), CaseB(PB(3, T), <<L("C")>>)>>, <<>>, FALSE)>>)>>) : p \in Bools}
  \cup {C("nested/then-if/" \o BS(p) \o BS(q), <<IfElse(PB(1, BV(p)), <<If1(PB(2, BV(q)), <<L("A")>>)>>, <<L("C")>>)>>) : p \in Bools, q \in Bools}
  \cup {C("nested/elif-else-if/" \o BS(p) \o BS(q), <<If(<<Branch(PB(1, BV(p)), <<L("A")>>), Branch(PB(2, BV(q)), <<L("B")>>)>>, <<If1(PB(3, T), <<L("C")>>)>>)>>) : p \in Bools, q \in Bools}
  \cup {C("nested/else-if-plus/" \o BS(p), <<IfElse(PB(1, BV(p)), <<L("A")>>, <<If1(PB(2, T), <<L("B")>>), L("after")>>)>>) : p \in Bools}
  \cup {C("nested/infunc/" \o BS(p), <<Func("g", <<Param("x", "bool")>>, <<>>, <<IfElse(PB(1, Var("x")), <<L("A")>>, <<IfElse(PB(2, T), <<L("B")>>, <<L("C")>>)>>)>>), ExprS(CallE("g", <<BV(p)>>))>>) : p \in Bools}
Switches ==
  {C("switch/tag/" \o ToString(t), <<Def1("x", N(t)), Switch(Var("x"), <<CaseB(PI(1, N(1)), <<L("one")>>), CaseB(PI(2, N(2)), <<L("two")>>), CaseB(Bin("+", PI(3, N(1)), PI(4, N(2))), <<L("three")>>)>>, <<L("def")>>, TRUE)>>) : t \in 1..4}
  \cup {C("switch/tagless/" \o BS(p), <<Switch(NoneN, <<CaseB(PB(1, BV(p)), <<L("one")>>), CaseB(PB(2, T), <<L("two")>>)>>, <<L("def")>>, TRUE)>>) : p \in Bools}
  \cup {C("switch/str", <<Def1("s", StrL("b")), Switch(Var("s"), <<CaseB(PS(1, StrL("a")), <<L("a")>>), CaseB(PS(2, StrL("b")), <<L("b")>>)>>, <<>>, FALSE)>>)}
Loops ==
  {C("for3/cond", <<For3(Def1("i", N(0)), PB(1, CmpE("<", Var("i"), N(2))), Inc("i"), <<PrintS(<<StrL("body"), Var("i")>>)>>)>>),
   C("for3/all", <<For3(Def1("i", PI(1, N(0))), PB(2, CmpE("<", Var("i"), N(2))), Compound("i", "+", PI(3, N(1))), <<PrintS(<<StrL("body"), Var("i")>>)>>)>>),
   C("for3/continue", <<For3(Def1("i", N(0)), PB(1, CmpE("<", Var("i"), N(3))), Compound("i", "+", PI(2, N(1))), <<If1(CmpE("==", Var("i"), N(1)), <<ContinueS>>), PrintS(<<StrL("body"), Var("i")>>)>>)>>),
   C("for3/break", <<For3(Def1("i", N(0)), PB(1, CmpE("<", Var("i"), N(3))), Compound("i", "+", PI(2, N(1))), <<If1(PB(3, CmpE("==", Var("i"), N(1))), <<BreakS>>), PrintS(<<StrL("body"), Var("i")>>)>>)>>),
   C("forcond", <<Def1("i", N(0)), ForCond(PB(1, CmpE("<", Var("i"), N(2))), <<Inc("i"), PrintS(<<StrL("body"), Var("i")>>)>>)>>),
   C("forcond/logic", <<Def1("i", N(0)), ForCond(Lgc("&&", PB(1, CmpE("<", Var("i"), N(2))), PB(2, T)), <<Inc("i"), PrintS(<<StrL("body"), Var("i")>>)>>)>>),
   C("for3/nested", <<For3(Def1("i", N(0)), PB(1, CmpE("<", Var("i"), N(2))), Inc("i"), <<For3(Def1("j", N(0)), PB(2, CmpE("<", Var("j"), N(2))), Inc("j"), <<PrintS(<<Var("i"), Var("j")>>)>>)>>)>>),
   C("for3/ifinside", <<For3(Def1("i", N(0)), PB(1, CmpE("<", Var("i"), N(2))), Inc("i"), <<If(<<Branch(PB(2, CmpE("==", Var("i"), N(0))), <<L("zero")>>), Branch(PB(3, T), <<L("other")>>)>>, <<>>)>>)>>)}

\* one operand is a literal or a variable, the other has an effect: no operand that is written down may be skipped, whatever the literal decides
\* (folding false && f(), true || f(), 0 * f(), f() * 0, f() - f() ...), in every place a condition or value can stand
MixCtx == {"print", "if", "elif", "for", "def", "arg"}
InCtx(c, e) == CASE c = "print" -> <<Print1(e)>> [] c = "if" -> <<IfElse(e, <<L("then")>>, <<L("else")>>)>>
                 [] c = "elif" -> <<If(<<Branch(F, <<L("first")>>), Branch(e, <<L("second")>>)>>, <<L("else")>>)>>
                 [] c = "for" -> <<Def1("n", N(0)), ForCond(Lgc("&&", CmpE("<", Var("n"), N(2)), e), <<Inc("n")>>), Print1(Var("n"))>>
                 [] c = "def" -> <<Def1("r", e), Print1(Var("r"))>> [] c = "arg" -> <<Print1(PB(9, e))>>
MixedLogic == {C("mixlogic/" \o o \o "/" \o side \o BS(p) \o BS(q) \o "/" \o form \o "/" \o c,
                 <<Def1("x", BV(p))>> \o InCtx(c, LET lit == IF form = "lit" THEN BV(p) ELSE IF form = "var" THEN Var("x") ELSE Grp(BV(p))
                                                IN IF side = "L" THEN Lgc(o, lit, PB(1, BV(q))) ELSE Lgc(o, PB(1, BV(q)), lit)))
               : o \in {"&&", "||"}, side \in {"L", "R"}, p \in Bools, q \in Bools, form \in {"lit", "var", "grp"}, c \in MixCtx}
MixedArith == {C("mixarith/" \o nm[1], <<Def1("z", N(0)), Def1("one", N(1)), Print1(nm[2])>>)
               : nm \in {<<"0*f", Bin("*", N(0), PI(1, N(5)))>>, <<"f*0", Bin("*", PI(1, N(5)), N(0))>>, <<"z*f", Bin("*", Var("z"), PI(1, N(5)))>>, <<"f*z", Bin("*", PI(1, N(5)), Var("z"))>>,
                          <<"f-f", Bin("-", PI(1, N(5)), PI(1, N(5)))>>, <<"f+0", Bin("+", PI(1, N(5)), N(0))>>, <<"0+f", Bin("+", N(0), PI(1, N(5)))>>, <<"1*f", Bin("*", N(1), PI(1, N(5)))>>,
                          <<"f/1", Bin("/", PI(1, N(5)), N(1))>>, <<"f%1", Bin("%", PI(1, N(5)), N(1))>>, <<"0/f", Bin("/", N(0), PI(1, N(5)))>>, <<"f==f", CmpE("==", PI(1, N(5)), PI(1, N(5)))>>,
                          <<"f<f", CmpE("<", PI(1, N(5)), PI(1, N(5)))>>, <<"1<f", CmpE("<", N(1), PI(1, N(5)))>>, <<"s+empty", Bin("+", PS(1, StrL("a")), StrL(""))>>, <<"empty+s", Bin("+", StrL(""), PS(1, StrL("a")))>>,
                          <<"s==s", CmpE("==", PS(1, StrL("a")), PS(1, StrL("a")))>>, <<"notnot", Not(Not(PB(1, T)))>>, <<"b==true", CmpE("==", PB(1, T), T)>>, <<"true!=b", CmpE("!=", T, PB(1, F))>>,
                          <<"grp", Grp(Grp(PI(1, N(5))))>>, <<"itoa", Itoa(Bin("*", N(0), PI(1, N(5))))>>, <<"len", LenE(Bin("+", PS(1, StrL("ab")), StrL("")))>>}}
\* the increment runs once before every re-test of the condition, also when the iteration ended with continue from any kind of branch body
LJSites == {"then", "elif", "else", "case", "default", "elseNested", "none"}
LJAt(site) == LET is1 == CmpE("==", Var("i"), N(1)) IN
  CASE site = "then" -> <<If1(is1, <<ContinueS>>)>>
    [] site = "elif" -> <<If(<<Branch(CmpE("==", Var("i"), N(9)), <<L("never")>>), Branch(is1, <<ContinueS>>)>>, <<>>)>>
    [] site = "else" -> <<IfElse(CmpE("!=", Var("i"), N(1)), <<L("keep")>>, <<ContinueS>>)>>
    [] site = "case" -> <<Switch(Var("i"), <<CaseB(N(1), <<ContinueS>>)>>, <<L("other")>>, TRUE)>>
    [] site = "default" -> <<Switch(Var("i"), <<CaseB(N(0), <<L("zero")>>), CaseB(N(2), <<L("two")>>)>>, <<ContinueS>>, TRUE)>>
    [] site = "elseNested" -> <<IfElse(CmpE("<", Var("i"), N(1)), <<L("low")>>, <<IfElse(CmpE(">", Var("i"), N(1)), <<L("high")>>, <<ContinueS>>)>>)>>
    [] site = "none" -> <<>>
LoopJumps == {C("loopjump/" \o st, <<For3(Def1("i", N(0)), PB(1, CmpE("<", Var("i"), N(3))), Asg1("i", PI(2, Bin("+", Var("i"), N(1)))), LJAt(st) \o <<PrintS(<<StrL("body"), Var("i")>>)>>)>>) : st \in LJSites}
             \cup {C("rangejump/" \o st, <<RangeS("i", "v", SliceLit("int", <<PI(1, N(10)), PI(2, N(20)), PI(3, N(30))>>), LJAt(st) \o <<PrintS(<<StrL("body"), Var("i"), Var("v")>>)>>)>>) : st \in LJSites}

\* a loop whose condition and increment are probed calls a function (from its body, its condition or its increment) that runs a loop of its own, of every
\* form, at the same depth or one deeper: the caller's increment still runs exactly once before every re-test, the callee's condition once per test
CalleeLoops == {"for3", "forcond", "forinf", "for3nopost", "range", "none"}
CalleeBody(ff) ==
  CASE ff = "for3" -> <<For3(Def1("j", N(0)), PB(7, CmpE("<", Var("j"), N(2))), Asg1("j", PI(8, Bin("+", Var("j"), N(1)))), <<Compound("t", "+", Var("j"))>>)>>
    [] ff = "forcond" -> <<Def1("j", N(0)), ForCond(PB(7, CmpE("<", Var("j"), N(2))), <<Inc("j"), Compound("t", "+", N(10))>>)>>
    [] ff = "forinf" -> <<Def1("j", N(0)), ForInf(<<Inc("j"), If1(PB(7, CmpE(">", Var("j"), N(2))), <<BreakS>>), Compound("t", "+", N(100))>>)>>
    [] ff = "for3nopost" -> <<For3(Def1("j", N(0)), PB(7, CmpE("<", Var("j"), N(2))), NoneN, <<Inc("j"), Compound("t", "+", N(1000))>>)>>
    [] ff = "range" -> <<RangeS("j", "e", SliceLit("int", <<PI(7, N(5)), PI(8, N(6))>>), <<Compound("t", "+", Var("e"))>>)>>
    [] ff = "none" -> <<Compound("t", "+", PI(7, N(1)))>>
CalleeOf(ff, deeper) == Func("work", <<Param("n", "int")>>, <<"int">>,
   <<Def1("t", Var("n"))>> \o (IF deeper THEN <<If1(PB(6, CmpE(">=", Var("n"), N(0))), CalleeBody(ff))>> ELSE CalleeBody(ff)) \o <<RetS(<<Var("t")>>)>>)
WK(e) == CallE("work", <<e>>)
CallerOf(cf, pl) ==
  LET body == IF pl = "body" THEN <<PrintS(<<StrL("body"), Var("i"), WK(Var("i"))>>)>> ELSE <<PrintS(<<StrL("body"), Var("i")>>)>>
      cond == IF pl = "cond" THEN PB(1, CmpE("<", Bin("+", Var("i"), Bin("-", WK(Var("i")), WK(Var("i")))), N(3))) ELSE PB(1, CmpE("<", Var("i"), N(3)))
      post == IF pl = "post" THEN Asg1("i", PI(2, Bin("+", Bin("+", Var("i"), N(1)), Bin("-", WK(Var("i")), WK(Var("i")))))) ELSE Asg1("i", PI(2, Bin("+", Var("i"), N(1))))
  IN CASE cf = "for3" -> <<For3(Def1("i", N(0)), cond, post, body)>>
       [] cf = "nested" -> <<For3(Def1("o", N(0)), PB(3, CmpE("<", Var("o"), N(2))), Asg1("o", PI(4, Bin("+", Var("o"), N(1)))), <<For3(Def1("i", N(0)), cond, post, body), PrintS(<<StrL("o"), Var("o")>>)>>)>>
       [] cf = "infunc" -> <<Func("run", <<>>, <<>>, <<For3(Def1("i", N(0)), cond, post, body)>>), ExprS(CallE("run", <<>>))>>
LoopCalls == {C("loopcall/" \o cf \o "-" \o pl \o "/" \o ff \o (IF dp THEN "-deeper" ELSE ""), <<CalleeOf(ff, dp)>> \o CallerOf(cf, pl) \o <<L("end")>>)
              : cf \in {"for3", "nested", "infunc"}, pl \in {"body", "cond", "post"}, ff \in CalleeLoops, dp \in BOOLEAN}
\* ---- calls whose callee does nothing with its arguments (empty body, constant result, a print only): the arguments are evaluated all the same,
\* exactly once, in order (round 9: a call of an empty function dropped together with the effects nested in its argument expressions)
InertCallees == <<Func("sinkI", <<Param("v", "int")>>, <<>>, <<>>), Func("sinkS", <<Param("v", "string")>>, <<>>, <<>>), Func("sink2", <<Param("a", "int"), Param("b", "string")>>, <<>>, <<>>),
                  Func("constI", <<Param("v", "int")>>, <<"int">>, <<RetS(<<N(7)>>)>>), Func("sayI", <<Param("v", "int")>>, <<>>, <<L("say")>>),
                  Func("mkS", <<Param("n", "int")>>, <<"[]int">>, <<PrintS(<<StrL("mk"), Var("n")>>), Compound("cnt", "+", N(1)), RetS(<<SliceLit("int", <<N(1), N(2), N(3)>>)>>)>>),
                  Def1("vals", SliceLit("int", <<N(10), N(20), N(30)>>)), Def1("word", StrL("hello"))>>
InertInt == <<<<"call", PI(1, N(5))>>, <<"plus", Bin("+", PI(1, N(5)), N(1))>>, <<"grp", Grp(PI(1, N(5)))>>, <<"index", IndexE(Var("vals"), PI(1, N(1)))>>, <<"len", LenE(CallE("mkS", <<N(2)>>))>>,
              <<"nested", PI(1, PI(2, N(3)))>>, <<"two", Bin("*", PI(1, N(2)), PI(2, N(3)))>>, <<"viaconst", CallE("constI", <<PI(1, N(4))>>)>>, <<"plain", N(3)>>, <<"var", Var("cnt")>>>>
InertStr == <<<<"itoa", Itoa(PI(1, N(5)))>>, <<"cat", Bin("+", StrL("n="), Itoa(PI(1, N(5))))>>, <<"call", PS(1, StrL("x y"))>>, <<"sub", Substr(Var("word"), PI(2, N(1)), PI(3, N(3)))>>, <<"plain", StrL("p")>>>>
InertWhere == {"stmt", "loop", "branch", "func"}
InertAt(w, st) == CASE w = "stmt" -> <<st, L("next"), st>> [] w = "loop" -> <<For3(Def1("i", N(0)), CmpE("<", Var("i"), N(2)), Inc("i"), <<st, PrintS(<<StrL("i"), Var("i")>>)>>)>>
                    [] w = "branch" -> <<IfElse(CmpE("==", Var("cnt"), N(0)), <<st>>, <<L("else")>>), Switch(Var("cnt"), <<CaseB(N(99), <<L("no")>>)>>, <<st>>, TRUE)>>
                    [] w = "func" -> <<Func("run", <<>>, <<>>, <<st, L("in run")>>), ExprS(CallE("run", <<>>)), ExprS(CallE("run", <<>>))>>
Inert == {C("inert/sinkI/" \o InertInt[i][1] \o "/" \o w, InertCallees \o InertAt(w, ExprS(CallE("sinkI", <<InertInt[i][2]>>)))) : i \in 1..Len(InertInt), w \in InertWhere}
         \cup {C("inert/sayI/" \o InertInt[i][1] \o "/" \o w, InertCallees \o InertAt(w, ExprS(CallE("sayI", <<InertInt[i][2]>>)))) : i \in 1..Len(InertInt), w \in {"stmt", "loop"}}
         \cup {C("inert/constI-stmt/" \o InertInt[i][1] \o "/" \o w, InertCallees \o InertAt(w, ExprS(CallE("constI", <<InertInt[i][2]>>)))) : i \in 1..Len(InertInt), w \in {"stmt", "func"}}
         \cup {C("inert/constI-print/" \o InertInt[i][1], InertCallees \o <<Print1(CallE("constI", <<InertInt[i][2]>>)), Def1("k", CallE("constI", <<InertInt[i][2]>>)), Print1(Var("k"))>>) : i \in 1..Len(InertInt)}
         \cup {C("inert/sinkS/" \o InertStr[i][1] \o "/" \o w, InertCallees \o InertAt(w, ExprS(CallE("sinkS", <<InertStr[i][2]>>)))) : i \in 1..Len(InertStr), w \in InertWhere}
         \cup {C("inert/sink2/" \o InertInt[i][1] \o "-" \o InertStr[j][1], InertCallees \o <<ExprS(CallE("sink2", <<InertInt[i][2], InertStr[j][2]>>)), L("after")>>) : i \in 1..Len(InertInt), j \in 1..Len(InertStr)}
\* builtins with an effect as STATEMENTS of their own, with operands that have effects (round 12: "an expression that is not a call is not a statement" refused them)
BStmt == {CK("bstmt/copy-call/" \o w, InertCallees \o <<Def1("dst", SliceLit("int", <<>>))>> \o InertAt(w, ExprS(CopyE("dst", CallE("mkS", <<N(2)>>)))) \o <<PrintS(<<LenE(Var("dst"))>>)>>, <<>>) : w \in {"stmt", "loop", "func"}}
         \cup {[id |-> "C04/bstmt/input-call/" \o w, prog |-> [body |-> Prelude \o InertAt(w, ExprS(Input(PS(1, StrL("q? "))))) \o <<PrintS(<<StrL("total"), Var("cnt")>>)>>, world |-> [fs |-> <<>>, stdin |-> <<"l1", "l2", "l3", "l4">>]], check |-> <<>>] : w \in {"stmt", "loop"}}
         \cup {[id |-> "C04/bstmt/read-call/" \o w, prog |-> [body |-> Prelude \o InertAt(w, ExprS(ReadE(PS(1, StrL("in.txt"))))) \o <<PrintS(<<StrL("total"), Var("cnt")>>)>>, world |-> [fs |-> <<[path |-> "in.txt", content |-> "data\n"]>>, stdin |-> <<>>]], check |-> <<>>] : w \in {"stmt", "loop"}}
All == BStmt \cup Inert \cup LoopCalls \cup LoopJumps \cup WorldOrder \cup MixedLogic \cup MixedArith \cup Exprs \cup Calls \cup Stores \cup World \cup Chains \cup Switches \cup Loops
ASSUME ndJsonSerialize("fam.ndjson", SetToSeq(All))
=============================================================================
