------------------------------- MODULE FamC09 -------------------------------
(* Direction-A family for C09: acyclic import graphs (single, pair, chain, diamond, the same file under two aliases,  *)
(* std + local) over files whose contents come from a catalog (public function; public + private with an internal    *)
(* call; global + top-level statement; function using its file's global; call into its own import), each in two     *)
(* variants whose content hash starts with a digit resp. a letter; negative cases for private/undefined names.       *)
(* Expected verdicts and outputs come from TshModules (linking) + TshStatic + TshDyn.                                 *)
EXTENDS TshAst
GS == INSTANCE GoStrings
CONSTANT Tier
I(n) == NatLit(n)
Kinds == {"pub", "priv", "top", "glob"}
\* every file offers Pub and Same; the kind adds private helpers, globals, top-level code
FileBody(tag, kind, k) ==
  <<Func("Pub", <<Param("n", "int")>>, <<"int">>, <<RetS(<<Bin("+", Var("n"), I(k))>>)>>),
    Func("Same", <<>>, <<"string">>, <<RetS(<<StrL("same of " \o tag)>>)>>),
    Func("unusedHelper", <<>>, <<"int">>, <<RetS(<<I(0)>>)>>)>>
  \o CASE kind = "pub" -> <<>>
       [] kind = "priv" -> <<Func("hidden", <<Param("n", "int")>>, <<"int">>, <<RetS(<<Bin("*", Var("n"), I(2))>>)>>),
                             Func("Use", <<Param("n", "int")>>, <<"int">>, <<RetS(<<Bin("+", CallE("hidden", <<Var("n")>>), CallE("Pub", <<I(0)>>))>>)>>)>>
       [] kind = "top" -> <<Def1("G", I(10 * k)), Func("Get", <<>>, <<"int">>, <<RetS(<<I(5)>>)>>), PrintS(<<StrL("load " \o tag), Var("G"), CallE("Get", <<>>)>>)>>
       [] kind = "glob" -> <<Def1("Cnt", I(100)), Func("Bump", <<>>, <<"int">>, <<Asg1("Cnt", Bin("+", Var("Cnt"), I(1))), RetS(<<Var("Cnt")>>)>>)>>
ViaBody(tag, al) == <<Func("Pub", <<Param("n", "int")>>, <<"int">>, <<RetS(<<Bin("*", ACall(al, "Pub", <<Var("n")>>), I(10))>>)>>),
                      Func("Same", <<>>, <<"string">>, <<RetS(<<StrL("same of " \o tag)>>)>>)>>
Imp(al, p) == [alias |-> al, path |-> p]
F(path, imps, body, h) == [path |-> path, imports |-> imps, body |-> body, hash |-> h]
\* what main does with an alias whose file has the given kind
UseOf(al, kind) ==
  <<PrintS(<<StrL(al), ACall(al, "Pub", <<I(1)>>), ACall(al, "Same", <<>>)>>)>>
  \o CASE kind = "priv" -> <<Print1(ACall(al, "Use", <<I(3)>>))>>
       [] kind = "top" -> <<Print1(ACall(al, "Get", <<>>))>>
       [] kind = "glob" -> <<PrintS(<<ACall(al, "Bump", <<>>), ACall(al, "Bump", <<>>)>>)>>
       [] OTHER -> <<>>
MainTail == <<Func("Same", <<>>, <<"string">>, <<RetS(<<StrL("same of main")>>)>>), Func("Pub", <<Param("n", "int")>>, <<"int">>, <<RetS(<<I(0)>>)>>), PrintS(<<CallE("Same", <<>>), CallE("Pub", <<I(9)>>)>>)>>
Prog(files) == [main |-> "main.tsh", files |-> files]
Hashes == {"digit", "letter"}
Mk(id, h, files) == [id |-> id \o "/" \o h, prog |-> Prog(files)]
\* a case whose model program differs from the real one: calls into the bundled std library are replaced by the values GoStrings prescribes
MkM(id, h, files, mfiles) == [id |-> id \o "/" \o h, prog |-> Prog(files), mprog |-> Prog(mfiles)]

S1 == {Mk("C09/single/" \o k, h, <<F("main.tsh", <<Imp("a", "a.tsh")>>, UseOf("a", k) \o MainTail, h), F("a.tsh", <<>>, FileBody("a", k, 1), h)>>) : k \in Kinds, h \in Hashes}
S2 == {Mk("C09/pair/" \o ka \o "-" \o kb, h, <<F("main.tsh", <<Imp("a", "a.tsh"), Imp("b", "b.tsh")>>, UseOf("a", ka) \o UseOf("b", kb) \o UseOf("a", "pub") \o MainTail, h),
                                                F("a.tsh", <<>>, FileBody("a", ka, 1), h), F("b.tsh", <<>>, FileBody("b", kb, 2), h)>>) : ka \in Kinds, kb \in Kinds, h \in Hashes}
S3 == {Mk("C09/chain/" \o kb, h, <<F("main.tsh", <<Imp("a", "a.tsh")>>, UseOf("a", "pub") \o MainTail, h), F("a.tsh", <<Imp("x", "b.tsh")>>, ViaBody("a", "x"), h),
                                    F("b.tsh", <<>>, FileBody("b", kb, 2), h)>>) : kb \in Kinds, h \in Hashes}
S4 == {Mk("C09/diamond/" \o kc, h, <<F("main.tsh", <<Imp("a", "a.tsh"), Imp("b", "b.tsh")>>, UseOf("a", "pub") \o UseOf("b", "pub") \o MainTail, h),
                                      F("a.tsh", <<Imp("x", "c.tsh")>>, ViaBody("a", "x"), h), F("b.tsh", <<Imp("y", "c.tsh")>>, ViaBody("b", "y"), h),
                                      F("c.tsh", <<>>, FileBody("c", kc, 3), h)>>) : kc \in Kinds, h \in Hashes}
S4b == {Mk("C09/diamond-direct/" \o kc, h, <<F("main.tsh", <<Imp("a", "a.tsh"), Imp("c", "c.tsh")>>, UseOf("a", "pub") \o UseOf("c", kc) \o MainTail, h),
                                             F("a.tsh", <<Imp("x", "c.tsh")>>, ViaBody("a", "x"), h), F("c.tsh", <<>>, FileBody("c", kc, 3), h)>>) : kc \in Kinds, h \in Hashes}
S5 == {Mk("C09/twoaliases/" \o kc, h, <<F("main.tsh", <<Imp("c1", "c.tsh"), Imp("c2", "c.tsh")>>, UseOf("c1", kc) \o UseOf("c2", kc) \o MainTail, h), F("c.tsh", <<>>, FileBody("c", kc, 3), h)>>)
       : kc \in Kinds, h \in Hashes}
S6 == {MkM("C09/stdlocal/" \o ka, h,
           <<F("main.tsh", <<Imp("", "strings"), Imp("a", "a.tsh")>>,
               <<PrintS(<<ACall("strings", "Contains", <<StrL("hello"), StrL("ell")>>), ACall("strings", "Repeat", <<StrL("ab"), I(2)>>), ACall("strings", "Index", <<StrL("abc"), StrL("c")>>)>>)>> \o UseOf("a", ka) \o MainTail, h),
             F("a.tsh", <<>>, FileBody("a", ka, 1), h)>>,
           <<F("main.tsh", <<Imp("a", "a.tsh")>>,
               <<PrintS(<<BoolL(GS!Contains("hello", "ell")), StrL(GS!Repeat("ab", 2)), I(GS!Index("abc", "c"))>>)>> \o UseOf("a", ka) \o MainTail, h),
             F("a.tsh", <<>>, FileBody("a", ka, 1), h)>>) : ka \in Kinds, h \in Hashes}
\* top-level calls inside both imported files (the used-function graph of several imports must be merged)
TopCall(tag, k) == FileBody(tag, "priv", k) \o <<PrintS(<<StrL("init " \o tag), CallE("Use", <<I(k)>>)>>)>>
S7 == {Mk("C09/topcalls", h, <<F("main.tsh", <<Imp("a", "a.tsh"), Imp("b", "b.tsh")>>, <<Print1(StrL("main"))>> \o MainTail, h), F("a.tsh", <<>>, TopCall("a", 1), h), F("b.tsh", <<>>, TopCall("b", 2), h)>>) : h \in Hashes}
      \cup {Mk("C09/topcalls-chain", h, <<F("main.tsh", <<Imp("a", "a.tsh")>>, <<Print1(StrL("main"))>> \o MainTail, h), F("a.tsh", <<Imp("x", "b.tsh")>>, ViaBody("a", "x") \o <<Print1(CallE("Pub", <<I(1)>>))>>, h),
                                          F("b.tsh", <<>>, TopCall("b", 2), h)>>) : h \in Hashes}
\* repeated imports followed by modules that start (and end) with executable top-level code
ViaTop(tag, al) == <<PrintS(<<StrL("start " \o tag), ACall(al, "Pub", <<I(1)>>)>>)>> \o ViaBody(tag, al) \o <<PrintS(<<StrL("end " \o tag), CallE("Pub", <<I(2)>>)>>)>>
PlainTop(tag, k) == <<Print1(StrL("start " \o tag))>> \o FileBody(tag, "pub", k) \o <<PrintS(<<StrL("end " \o tag), CallE("Pub", <<I(1)>>)>>)>>
S8 == {Mk("C09/diamond-tops/" \o kc, h, <<F("main.tsh", <<Imp("a", "a.tsh"), Imp("b", "b.tsh")>>, UseOf("a", "pub") \o UseOf("b", "pub") \o MainTail, h),
                                          F("a.tsh", <<Imp("x", "c.tsh")>>, ViaTop("a", "x"), h), F("b.tsh", <<Imp("y", "c.tsh")>>, ViaTop("b", "y"), h),
                                          F("c.tsh", <<>>, FileBody("c", kc, 3), h)>>) : kc \in Kinds, h \in Hashes}
      \cup {Mk("C09/twoaliases-then-top/" \o kc, h, <<F("main.tsh", <<Imp("c1", "c.tsh"), Imp("c2", "c.tsh"), Imp("d", "d.tsh")>>, UseOf("c1", kc) \o UseOf("c2", "pub") \o UseOf("d", "pub") \o MainTail, h),
                                                      F("c.tsh", <<>>, FileBody("c", kc, 3), h), F("d.tsh", <<>>, PlainTop("d", 4), h)>>) : kc \in Kinds, h \in Hashes}
      \cup {Mk("C09/direct-and-transitive-top/" \o kc, h, <<F("main.tsh", <<Imp("c", "c.tsh"), Imp("a", "a.tsh"), Imp("d", "d.tsh")>>, UseOf("c", kc) \o UseOf("a", "pub") \o UseOf("d", "pub") \o MainTail, h),
                                                            F("a.tsh", <<Imp("x", "c.tsh")>>, ViaTop("a", "x"), h), F("c.tsh", <<>>, FileBody("c", kc, 3), h), F("d.tsh", <<>>, PlainTop("d", 4), h)>>) : kc \in Kinds, h \in Hashes}
\* every acyclic import graph over main and three files a, b, c (a may import b and c, b may import c), imports in every order, plus one file under
\* two aliases: each file has a global, top-level code, and a public function that adds up what its imports deliver.  A file is reached along
\* one, two, three or four paths.
GFiles == <<"a", "b", "c">>
GK(f) == CASE f = "a" -> 1 [] f = "b" -> 2 [] f = "c" -> 3 [] OTHER -> 0
RECURSIVE SumPub(_, _)
SumPub(imps, i) == IF i > Len(imps) THEN Var("n") ELSE Bin("+", SumPub(imps, i + 1), ACall(imps[i].alias, "Pub", <<Var("n")>>))
\* a private (lower-case) counter that every importer bumps from its top-level code: module state must survive being reached again
GBody(f, imps) == <<Def1("G", I(10 * GK(f))), Def1("hits", I(0)), VarDef(<<"seen">>, "string", <<StrL("-")>>),
                    Func("Pub", <<Param("n", "int")>>, <<"int">>, <<RetS(<<Bin("+", SumPub(imps, 1), Var("G"))>>)>>),
                    Func("bump", <<Param("n", "int")>>, <<"int">>, <<RetS(<<Bin("+", Var("n"), I(1))>>)>>),          \* a private helper that import-time calls of Hit need
                    Func("Hit", <<Param("who", "string")>>, <<"int">>, <<Asg1("hits", CallE("bump", <<Var("hits")>>)), Compound("seen", "+", Var("who")), RetS(<<Var("hits")>>)>>),
                    Func("Seen", <<>>, <<"string">>, <<RetS(<<Var("seen")>>)>>),
                    PrintS(<<StrL("load " \o f), CallE("Pub", <<I(0)>>)>> \o [i \in 1..Len(imps) |-> ACall(imps[i].alias, "Hit", <<StrL(f)>>)])>>
GImps(l) == [i \in 1..Len(l) |-> Imp("x" \o l[i] \o ToString(i), l[i] \o ".tsh")]
MainLists == {<<"a">>, <<"b">>, <<"c">>, <<"a", "b">>, <<"b", "a">>, <<"a", "c">>, <<"c", "a">>, <<"b", "c">>, <<"c", "b">>,
              <<"a", "b", "c">>, <<"c", "b", "a">>, <<"b", "c", "a">>, <<"c", "a", "b">>, <<"a", "a">>, <<"c", "a", "c">>, <<"c", "c", "c">>}
ALists == {<<>>, <<"b">>, <<"c">>, <<"b", "c">>, <<"c", "b">>}
BLists == {<<>>, <<"c">>}
GName(l) == IF l = <<>> THEN "0" ELSE JoinS(l, "")
AllGraphs == {Mk("C09/graph/m" \o GName(lm) \o "-a" \o GName(la) \o "-b" \o GName(lb), h,
                 <<F("main.tsh", GImps(lm), [i \in 1..Len(lm) |-> PrintS(<<StrL(lm[i]), ACall(GImps(lm)[i].alias, "Pub", <<I(1)>>), ACall(GImps(lm)[i].alias, "Hit", <<StrL("m")>>), ACall(GImps(lm)[i].alias, "Seen", <<>>)>>)] \o <<Print1(StrL("main"))>>, h),
                   F("a.tsh", GImps(la), GBody("a", GImps(la)), h), F("b.tsh", GImps(lb), GBody("b", GImps(lb)), h), F("c.tsh", <<>>, GBody("c", <<>>), h)>>)
              : lm \in MainLists, la \in ALists, lb \in BLists, h \in (IF Tier = "quick" THEN {"letter"} ELSE Hashes)}
\* removal of unused functions: a function whose ONLY use sits at one particular site (every statement and expression position), in the main file or in
\* an imported file that is itself only reached through main; a removed function shows as "command not found"
Sites == {"print", "define", "assign", "ifcond", "ifbody", "elsebody", "forcond", "forbody", "forpost", "rangeopnd", "switchtag", "caseexpr", "casebody", "arg", "nestedarg", "return",
          "operand", "notoperand", "index", "element", "setidxval", "lenarg", "itoaarg", "writedata", "funcbody", "funcinloop", "globalinit", "multidef", "stmtcall", "groupcall",
          \* round 14: the argument of panic is evaluated although the statement ends the run; more positions that only exceptional or rarely written code reaches
          "panicarg", "panicargnested", "elseifcond", "forinit", "compound", "logicopnd", "substrlo", "substrhi", "setidxidx", "multiassign", "vardef", "ret2nd", "existsarg", "cmpopnd",
          "afterreturn", "panicinfunc", "breakguard"}
OnlyDef == <<Func("Only", <<Param("n", "int")>>, <<"int">>, <<PrintS(<<StrL("only"), Var("n")>>), RetS(<<Bin("+", Var("n"), I(7))>>)>>),
             Func("OnlyS", <<>>, <<"[]int">>, <<PrintS(<<StrL("onlys")>>), RetS(<<SliceLit("int", <<I(4), I(5)>>)>>)>>),
             Func("OnlyB", <<>>, <<"bool">>, <<PrintS(<<StrL("onlyb")>>), RetS(<<BoolL(TRUE)>>)>>),
             Func("Unused", <<>>, <<"int">>, <<RetS(<<I(0)>>)>>)>>
O(al, e) == ACall(al, "Only", <<e>>)
SiteUse(al, st) ==
  CASE st = "print" -> <<Print1(O(al, I(1)))>> [] st = "define" -> <<Def1("v", O(al, I(1))), Print1(Var("v"))>>
    [] st = "assign" -> <<Def1("v", I(0)), Asg1("v", O(al, I(1))), Print1(Var("v"))>>
    [] st = "ifcond" -> <<If1(CmpE(">", O(al, I(1)), I(0)), <<Print1(StrL("yes"))>>)>> [] st = "ifbody" -> <<If1(BoolL(TRUE), <<Print1(O(al, I(1)))>>)>>
    [] st = "elsebody" -> <<IfElse(BoolL(FALSE), <<Print1(StrL("no"))>>, <<Print1(O(al, I(1)))>>)>>
    [] st = "forcond" -> <<For3(Def1("i", I(0)), CmpE("<", Var("i"), Bin("-", O(al, I(1)), I(7))), Inc("i"), <<Print1(Var("i"))>>)>>
    [] st = "forbody" -> <<For3(Def1("i", I(0)), CmpE("<", Var("i"), I(2)), Inc("i"), <<Print1(O(al, Var("i")))>>)>>
    [] st = "forpost" -> <<For3(Def1("i", I(0)), CmpE("<", Var("i"), I(20)), Asg1("i", O(al, Var("i"))), <<Print1(Var("i"))>>)>>
    [] st = "rangeopnd" -> <<RangeS("i", "v", ACall(al, "OnlyS", <<>>), <<PrintS(<<Var("i"), Var("v")>>)>>)>>
    [] st = "switchtag" -> <<Switch(O(al, I(1)), <<CaseB(I(8), <<Print1(StrL("eight"))>>)>>, <<Print1(StrL("other"))>>, TRUE)>>
    [] st = "caseexpr" -> <<Switch(I(8), <<CaseB(O(al, I(1)), <<Print1(StrL("eight"))>>)>>, <<Print1(StrL("other"))>>, TRUE)>>
    [] st = "casebody" -> <<Switch(I(8), <<CaseB(I(8), <<Print1(O(al, I(1)))>>)>>, <<>>, FALSE)>>
    [] st = "arg" -> <<Func("id", <<Param("n", "int")>>, <<"int">>, <<RetS(<<Var("n")>>)>>), Print1(CallE("id", <<O(al, I(1))>>))>>
    [] st = "nestedarg" -> <<Print1(O(al, O(al, I(1))))>>
    [] st = "return" -> <<Func("wrap", <<>>, <<"int">>, <<RetS(<<O(al, I(1))>>)>>), Print1(CallE("wrap", <<>>))>>
    [] st = "operand" -> <<Print1(Bin("*", I(2), O(al, I(1))))>> [] st = "notoperand" -> <<Print1(Not(ACall(al, "OnlyB", <<>>)))>>
    [] st = "index" -> <<Def1("sl", SliceLit("int", [k \in 1..9 |-> I(k)])), Print1(IndexE(Var("sl"), O(al, I(1))))>>
    [] st = "element" -> <<Def1("sl", SliceLit("int", <<I(1), O(al, I(1))>>)), Print1(IndexE(Var("sl"), I(1)))>>
    [] st = "setidxval" -> <<Def1("sl", SliceLit("int", <<I(1)>>)), SetIdx("sl", I(0), O(al, I(1))), Print1(IndexE(Var("sl"), I(0)))>>
    [] st = "lenarg" -> <<Print1(LenE(ACall(al, "OnlyS", <<>>)))>> [] st = "itoaarg" -> <<Print1(Bin("+", StrL("n"), Itoa(O(al, I(1)))))>>
    [] st = "writedata" -> <<Print1(Bin("+", StrL("w"), Itoa(O(al, I(2)))))>>
    [] st = "funcbody" -> <<Func("wrap", <<>>, <<>>, <<Print1(O(al, I(1)))>>), ExprS(CallE("wrap", <<>>))>>
    [] st = "funcinloop" -> <<Func("wrap", <<>>, <<>>, <<For3(Def1("i", I(0)), CmpE("<", Var("i"), I(2)), Inc("i"), <<If1(CmpE("==", Var("i"), I(1)), <<Print1(O(al, Var("i")))>>)>>)>>), ExprS(CallE("wrap", <<>>))>>
    [] st = "globalinit" -> <<Def1("g", O(al, I(1))), Func("show", <<>>, <<>>, <<Print1(Var("g"))>>), ExprS(CallE("show", <<>>))>>
    [] st = "multidef" -> <<Def(<<"v", "w">>, <<I(1), O(al, I(1))>>), PrintS(<<Var("v"), Var("w")>>)>>
    [] st = "stmtcall" -> <<ExprS(O(al, I(1))), Print1(StrL("after"))>> [] st = "groupcall" -> <<Print1(Grp(O(al, I(1))))>>
    [] st = "panicarg" -> <<Print1(StrL("before")), PanicS(Bin("+", StrL("bad "), Itoa(O(al, I(3)))))>>
    [] st = "panicargnested" -> <<Def1("v", I(2)), For3(Def1("i", I(0)), CmpE("<", Var("i"), I(5)), Inc("i"), <<If1(CmpE("==", Var("i"), Var("v")), <<PanicS(Itoa(O(al, Var("i"))))>>), Print1(Var("i"))>>)>>
    [] st = "elseifcond" -> <<If(<<Branch(BoolL(FALSE), <<Print1(StrL("a"))>>), Branch(CmpE(">", O(al, I(1)), I(0)), <<Print1(StrL("b"))>>)>>, <<Print1(StrL("c"))>>)>>
    [] st = "forinit" -> <<For3(Def1("i", O(al, I(1))), CmpE("<", Var("i"), I(10)), Inc("i"), <<Print1(Var("i"))>>)>>
    [] st = "compound" -> <<Def1("v", I(1)), Compound("v", "*", O(al, I(1))), Print1(Var("v"))>>
    [] st = "logicopnd" -> <<Print1(Lgc("&&", BoolL(FALSE), ACall(al, "OnlyB", <<>>)))>>
    [] st = "substrlo" -> <<Def1("s", StrL("abcdefghijkl")), Print1(Substr(Var("s"), Bin("-", O(al, I(1)), I(6)), NoneN))>>
    [] st = "substrhi" -> <<Def1("s", StrL("abcdefghijkl")), Print1(Substr(Var("s"), I(1), O(al, I(1))))>>
    [] st = "setidxidx" -> <<Def1("sl", SliceLit("int", [k \in 1..9 |-> I(k)])), SetIdx("sl", O(al, I(1)), I(0)), Print1(IndexE(Var("sl"), I(8)))>>
    [] st = "multiassign" -> <<Def(<<"v", "w">>, <<I(1), I(2)>>), Asg(<<"v", "w">>, <<Var("w"), O(al, Var("v"))>>), PrintS(<<Var("v"), Var("w")>>)>>
    [] st = "vardef" -> <<VarDef(<<"v">>, "int", <<O(al, I(1))>>), Print1(Var("v"))>>
    [] st = "ret2nd" -> <<Func("wrap", <<>>, <<"int", "int">>, <<RetS(<<I(1), O(al, I(1))>>)>>), Def(<<"v", "w">>, <<CallE("wrap", <<>>)>>), PrintS(<<Var("v"), Var("w")>>)>>
    [] st = "existsarg" -> <<Print1(ExistsE(Bin("+", StrL("nofile"), Itoa(O(al, I(1))))))>>
    [] st = "cmpopnd" -> <<Print1(CmpE("==", I(8), O(al, I(1))))>>
    [] st = "afterreturn" -> <<Func("wrap", <<Param("n", "int")>>, <<"int">>, <<If1(CmpE(">", Var("n"), I(0)), <<RetS(<<I(0)>>)>>), RetS(<<O(al, Var("n"))>>)>>), PrintS(<<CallE("wrap", <<I(1)>>), CallE("wrap", <<I(0)>>)>>)>>
    [] st = "panicinfunc" -> <<Func("check", <<Param("n", "int")>>, <<"int">>, <<If1(CmpE(">", Var("n"), I(1)), <<PanicS(Bin("+", StrL("code "), Itoa(O(al, Var("n")))))>>), RetS(<<Var("n")>>)>>), PrintS(<<CallE("check", <<I(1)>>)>>), PrintS(<<CallE("check", <<I(2)>>)>>)>>
    [] st = "breakguard" -> <<For3(Def1("i", I(0)), CmpE("<", Var("i"), I(5)), Inc("i"), <<If1(CmpE(">", Var("i"), I(1)), <<BreakS>>), Print1(Var("i"))>>), Print1(O(al, I(1)))>>
\* in an imported file the alias is "x"; its public function runs the site
SiteCases == {Mk("C09/site/main/" \o st, h, <<F("main.tsh", <<Imp("a", "a.tsh")>>, SiteUse("a", st) \o <<Print1(StrL("end"))>>, h), F("a.tsh", <<>>, OnlyDef, h)>>) : st \in Sites, h \in {"letter"}}
             \cup {Mk("C09/site/imported/" \o st, h, <<F("main.tsh", <<Imp("b", "b.tsh")>>, <<ExprS(ACall("b", "Run", <<>>)), Print1(StrL("end"))>>, h),
                                                        F("b.tsh", <<Imp("x", "a.tsh")>>, <<Func("Run", <<>>, <<>>, SiteUse("x", st))>>, h), F("a.tsh", <<>>, OnlyDef, h)>>)
                    : st \in Sites \ {"arg", "return", "funcbody", "funcinloop", "globalinit", "ret2nd", "afterreturn", "panicinfunc"}, h \in {"digit"}}
             \cup {Mk("C09/site/importedtop/" \o st, h, <<F("main.tsh", <<Imp("b", "b.tsh")>>, <<Print1(StrL("end"))>>, h),
                                                           F("b.tsh", <<Imp("x", "a.tsh")>>, SiteUse("x", st), h), F("a.tsh", <<>>, OnlyDef, h)>>)
                    : st \in Sites, h \in {"letter"}}
\* call chains of 6 to 13 functions, within one imported file and across four files: a function at the far end of the chain is still used
ChainFn(i, n, nextCall) == Func(IF i = 1 THEN "Run" ELSE "step" \o ToString(i), <<Param("x", "int")>>, <<"int">>,
                                <<RetS(<<IF i = n THEN nextCall ELSE Bin("+", CallE("step" \o ToString(i + 1), <<Var("x")>>), I(1))>>)>>)
RECURSIVE ChainDefs(_, _, _)
ChainDefs(i, n, last) == IF i < 1 THEN <<>> ELSE ChainDefs(i - 1, n, last) \o <<>>
ChainFile(n, nextCall) == [k \in 1..n |-> ChainFn(n + 1 - k, n, nextCall)] \o <<Func("unused1", <<>>, <<"int">>, <<RetS(<<I(0)>>)>>), Func("unused2", <<>>, <<"int">>, <<RetS(<<CallE("unused1", <<>>)>>)>>)>>
ChainDepth == {Mk("C09/chaindepth/onefile/" \o ToString(n), "letter", <<F("main.tsh", <<Imp("a", "a.tsh")>>, <<Print1(ACall("a", "Run", <<I(1)>>))>>, "letter"), F("a.tsh", <<>>, ChainFile(n, Bin("*", Var("x"), I(100))), "letter")>>)
               : n \in {6, 8, 9, 10, 11, 13, 17}}
              \cup {Mk("C09/chaindepth/fourfiles/" \o ToString(n), "digit",
                       <<F("main.tsh", <<Imp("a", "a.tsh")>>, <<Print1(ACall("a", "Run", <<I(1)>>))>>, "digit"),
                         F("a.tsh", <<Imp("x", "b.tsh")>>, ChainFile(n, ACall("x", "Run", <<Var("x")>>)), "digit"), F("b.tsh", <<Imp("x", "c.tsh")>>, ChainFile(n, ACall("x", "Run", <<Var("x")>>)), "digit"),
                         F("c.tsh", <<Imp("x", "d.tsh")>>, ChainFile(n, ACall("x", "Run", <<Var("x")>>)), "digit"), F("d.tsh", <<>>, ChainFile(n, Bin("*", Var("x"), I(100))), "digit")>>)
                    : n \in {2, 3, 4}}
\* rejected programs
NegH(h) == {Mk("C09/neg/private", h, <<F("main.tsh", <<Imp("a", "a.tsh")>>, <<Print1(ACall("a", "hidden", <<I(1)>>))>>, h), F("a.tsh", <<>>, FileBody("a", "priv", 1), h)>>),
        Mk("C09/neg/undefined", h, <<F("main.tsh", <<Imp("a", "a.tsh")>>, <<Print1(ACall("a", "Nope", <<I(1)>>))>>, h), F("a.tsh", <<>>, FileBody("a", "pub", 1), h)>>),
        Mk("C09/neg/unknownalias", h, <<F("main.tsh", <<Imp("a", "a.tsh")>>, <<Print1(ACall("zz", "Pub", <<I(1)>>))>>, h), F("a.tsh", <<>>, FileBody("a", "pub", 1), h)>>),
        Mk("C09/neg/unqualified", h, <<F("main.tsh", <<Imp("a", "a.tsh")>>, <<Print1(CallE("Use", <<I(1)>>))>>, h), F("a.tsh", <<>>, FileBody("a", "priv", 1), h)>>),
        Mk("C09/neg/otherfilesprivate", h, <<F("main.tsh", <<Imp("a", "a.tsh"), Imp("b", "b.tsh")>>, <<Print1(ACall("b", "Use", <<I(1)>>))>>, h), F("a.tsh", <<>>, FileBody("a", "priv", 1), h), F("b.tsh", <<>>, FileBody("b", "pub", 2), h)>>),
        Mk("C09/neg/importedglobal", h, <<F("main.tsh", <<Imp("a", "a.tsh")>>, <<Print1(Var("G"))>>, h), F("a.tsh", <<>>, FileBody("a", "top", 1), h)>>),
        Mk("C09/neg/transitivealias", h, <<F("main.tsh", <<Imp("a", "a.tsh")>>, <<Print1(ACall("x", "Pub", <<I(1)>>))>>, h), F("a.tsh", <<Imp("x", "b.tsh")>>, ViaBody("a", "x"), h), F("b.tsh", <<>>, FileBody("b", "pub", 2), h)>>),
        Mk("C09/neg/argtype", h, <<F("main.tsh", <<Imp("a", "a.tsh")>>, <<Print1(ACall("a", "Pub", <<StrL("s")>>))>>, h), F("a.tsh", <<>>, FileBody("a", "pub", 1), h)>>)}
\* the scoping and typing rules hold inside imported files as in the main file (names there carry the file's prefix): one broken construct per library
PubN == Func("Pub", <<Param("n", "int")>>, <<"int">>, <<RetS(<<Bin("+", Var("n"), I(1))>>)>>)
LibBad == <<<<"dup-param", <<Func("Pub", <<Param("a", "int"), Param("a", "int")>>, <<"int">>, <<RetS(<<Var("a")>>)>>)>>>>,
            <<"dup-param-3", <<Func("Pub", <<Param("a", "int"), Param("b", "string"), Param("a", "string")>>, <<"int">>, <<RetS(<<I(1)>>)>>)>>>>,
            <<"param-like-global", <<Def1("g", I(1)), Func("Pub", <<Param("g", "int")>>, <<"int">>, <<RetS(<<Var("g")>>)>>)>>>>,
            <<"redefined-global", <<Def1("g", I(1)), Def1("g", I(2)), Func("Pub", <<Param("n", "int")>>, <<"int">>, <<RetS(<<Var("n")>>)>>)>>>>,
            <<"redefined-local", <<Func("Pub", <<Param("n", "int")>>, <<"int">>, <<Def1("t", I(1)), Def1("t", I(2)), RetS(<<Var("t")>>)>>)>>>>,
            <<"local-like-param", <<Func("Pub", <<Param("n", "int")>>, <<"int">>, <<Def1("n", I(2)), RetS(<<Var("n")>>)>>)>>>>,
            <<"undefined-name", <<Func("Pub", <<Param("n", "int")>>, <<"int">>, <<RetS(<<Bin("+", Var("n"), Var("missing"))>>)>>)>>>>,
            <<"use-after-block", <<Func("Pub", <<Param("n", "int")>>, <<"int">>, <<If1(BoolL(TRUE), <<Def1("t", I(1))>>), RetS(<<Var("t")>>)>>)>>>>,
            <<"later-global", <<Func("Pub", <<Param("n", "int")>>, <<"int">>, <<RetS(<<Var("late")>>)>>), Def1("late", I(1))>>>>,
            <<"func-twice", <<Func("Pub", <<Param("n", "int")>>, <<"int">>, <<RetS(<<Var("n")>>)>>), Func("Pub", <<Param("n", "int")>>, <<"int">>, <<RetS(<<I(0)>>)>>)>>>>,
            <<"call-before-def", <<Func("Pub", <<Param("n", "int")>>, <<"int">>, <<RetS(<<CallE("later", <<>>)>>)>>), Func("later", <<>>, <<"int">>, <<RetS(<<I(1)>>)>>)>>>>,
            <<"break-outside", <<Func("Pub", <<Param("n", "int")>>, <<"int">>, <<If1(BoolL(TRUE), <<BreakS>>), RetS(<<Var("n")>>)>>)>>>>,
            <<"top-return", <<Func("Pub", <<Param("n", "int")>>, <<"int">>, <<RetS(<<Var("n")>>)>>), RetS(<<>>)>>>>,
            <<"missing-return", <<Func("Pub", <<Param("n", "int")>>, <<"int">>, <<Print1(Var("n"))>>)>>>>,
            <<"return-type", <<Func("Pub", <<Param("n", "int")>>, <<"int">>, <<RetS(<<StrL("s")>>)>>)>>>>,
            <<"arg-type-inside", <<Func("h", <<Param("s", "string")>>, <<"int">>, <<RetS(<<LenE(Var("s"))>>)>>), Func("Pub", <<Param("n", "int")>>, <<"int">>, <<RetS(<<CallE("h", <<Var("n")>>)>>)>>)>>>>,
            <<"nested-func", <<Func("Pub", <<Param("n", "int")>>, <<"int">>, <<RetS(<<Var("n")>>)>>), If1(BoolL(TRUE), <<Func("inner", <<>>, <<>>, <<Print1(I(1))>>)>>)>>>>,
            \* top-level BLOCKS of an imported file (round 9: names defined there were stored under the file's prefix and then not found, or found twice)
            <<"topblock-if-ok", <<Def1("ready", BoolL(FALSE)), If1(Not(Var("ready")), <<Def1("msg", StrL("init")), Print1(Var("msg")), Asg1("ready", BoolL(TRUE))>>), PubN>>>>,
            <<"topblock-else-ok", <<Def1("ready", BoolL(TRUE)), IfElse(Not(Var("ready")), <<Def1("msg", StrL("a")), Print1(Var("msg"))>>, <<Def1("msg", StrL("b")), Def1("k", LenE(Var("msg"))), PrintS(<<Var("msg"), Var("k")>>)>>), PubN>>>>,
            <<"topblock-for-ok", <<For3(Def1("i", I(0)), CmpE("<", Var("i"), I(2)), Inc("i"), <<Def1("sq", Bin("*", Var("i"), Var("i"))), PrintS(<<Var("i"), Var("sq")>>)>>), PubN>>>>,
            <<"topblock-range-ok", <<RangeS("i", "w", SliceLit("string", <<StrL("x"), StrL("y")>>), <<Def1("both", Bin("+", Var("w"), Itoa(Var("i")))), Print1(Var("both"))>>), PubN>>>>,
            <<"topblock-switch-ok", <<Def1("sel", I(2)), Switch(Var("sel"), <<CaseB(I(2), <<Def1("hit", StrL("two")), Print1(Var("hit"))>>)>>, <<Def1("hit", StrL("other")), Print1(Var("hit"))>>, TRUE), PubN>>>>,
            <<"topblock-nested-ok", <<If1(BoolL(TRUE), <<Def1("outer", I(1)), For3(Def1("i", I(0)), CmpE("<", Var("i"), I(1)), Inc("i"), <<Def1("inner", Bin("+", Var("outer"), Var("i"))), Print1(Var("inner"))>>)>>), PubN>>>>,
            <<"topblock-redef", <<If1(BoolL(TRUE), <<Def1("x", I(1)), Def1("x", I(2)), Print1(Var("x"))>>), PubN>>>>,
            <<"topblock-for-redef", <<For3(Def1("i", I(0)), CmpE("<", Var("i"), I(1)), Inc("i"), <<Def1("x", I(1)), Def1("x", I(2))>>), PubN>>>>,
            <<"topblock-header-redef", <<For3(Def1("i", I(0)), CmpE("<", Var("i"), I(1)), Inc("i"), <<Def1("i", I(5))>>), PubN>>>>,
            <<"topblock-range-redef", <<RangeS("i", "w", SliceLit("string", <<StrL("x")>>), <<Def1("w", StrL("again"))>>), PubN>>>>,
            <<"topblock-use-after", <<If1(BoolL(TRUE), <<Def1("t", I(1))>>), Print1(Var("t")), PubN>>>>,
            <<"topblock-like-global", <<Def1("g", I(1)), If1(BoolL(TRUE), <<Def1("g", I(2))>>), PubN>>>>,
            <<"topblock-undefined", <<If1(BoolL(TRUE), <<Print1(Var("nowhere"))>>), PubN>>>>,
            <<"ok-control", <<Def1("g", I(1)), Func("Pub", <<Param("n", "int"), Param("m", "int")>>, <<"int">>, <<Def1("t", Bin("+", Var("n"), Var("g"))), RetS(<<Bin("+", Var("t"), Var("m"))>>)>>)>>>>>>
\* the call itself is always well-formed: the ONLY defect is the one inside the library
LibArgs(nm) == CASE nm \in {"dup-param", "ok-control"} -> <<I(1), I(2)>> [] nm = "dup-param-3" -> <<I(1), StrL("s"), StrL("t")>> [] OTHER -> <<I(1)>>
LibNeg == {Mk("C09/libneg/" \o LibBad[i][1] \o "/" \o via, "letter",
              IF via = "direct" THEN <<F("main.tsh", <<Imp("a", "a.tsh")>>, <<Print1(ACall("a", "Pub", LibArgs(LibBad[i][1])))>>, "letter"), F("a.tsh", <<>>, LibBad[i][2], "letter")>>
              ELSE <<F("main.tsh", <<Imp("b", "b.tsh")>>, <<Print1(ACall("b", "Go", <<>>))>>, "letter"),
                     F("b.tsh", <<Imp("x", "a.tsh")>>, <<Func("Go", <<>>, <<"int">>, <<RetS(<<ACall("x", "Pub", LibArgs(LibBad[i][1]))>>)>>)>>, "letter"),
                     F("a.tsh", <<>>, LibBad[i][2], "letter")>>)
           : i \in 1..Len(LibBad), via \in {"direct", "nested"}}
\* an alias that was never imported, while the main file defines a function of the called name (public or private), before or after the call
AliasNeg == {Mk("C09/neg/unknownalias-local/" \o nm, "letter", <<F("main.tsh", <<Imp("a", "a.tsh")>>, <<Func(nm, <<Param("n", "int")>>, <<"int">>, <<RetS(<<I(0)>>)>>), Print1(ACall("zz", nm, <<I(1)>>))>>, "letter"),
                                                                   F("a.tsh", <<>>, FileBody("a", "pub", 1), "letter")>>) : nm \in {"Pub", "helper", "Same2"}}
            \cup {Mk("C09/neg/alias-of-other-file/" \o nm, "letter", <<F("main.tsh", <<Imp("a", "a.tsh"), Imp("b", "b.tsh")>>, <<Print1(ACall("a", nm, <<I(1)>>))>>, "letter"),
                                                                        F("a.tsh", <<>>, FileBody("a", "pub", 1), "letter"), F("b.tsh", <<>>, FileBody("b", "priv", 2), "letter")>>) : nm \in {"Use", "hidden"}}
\* ---- a shared file whose importers use DIFFERENT functions of it (round 9: a re-imported file pruned with the call graph of its first importer only).
\* x.tsh offers F1 -> g1, F2 -> g2, F3 -> F1 + g2 (g1, g2 private); a.tsh and b.tsh each import x and use a subset, main imports a and b in either
\* order and may use x directly as well (imported first or last)
XFile == <<Func("g1", <<Param("n", "int")>>, <<"int">>, <<RetS(<<Bin("+", Var("n"), I(1))>>)>>), Func("g2", <<Param("n", "int")>>, <<"int">>, <<RetS(<<Bin("*", Var("n"), I(2))>>)>>),
           Func("F1", <<Param("n", "int")>>, <<"int">>, <<RetS(<<CallE("g1", <<Var("n")>>)>>)>>), Func("F2", <<Param("n", "int")>>, <<"int">>, <<RetS(<<Bin("+", CallE("g2", <<Var("n")>>), I(100))>>)>>),
           Func("F3", <<Param("n", "int")>>, <<"int">>, <<RetS(<<Bin("+", CallE("F1", <<Var("n")>>), CallE("g2", <<Var("n")>>))>>)>>), Func("Unused", <<>>, <<"int">>, <<RetS(<<CallE("g1", <<I(0)>>)>>)>>)>>
UseSets == <<<<>>, <<"F1">>, <<"F2">>, <<"F3">>, <<"F1", "F2">>>>
RECURSIVE SumUses(_, _, _)
SumUses(al, us, arg) == IF us = <<>> THEN arg ELSE Bin("+", ACall(al, us[1], <<arg>>), SumUses(al, Tail(us), arg))
UserFile(fn, us) == <<Func(fn, <<Param("n", "int")>>, <<"int">>, <<RetS(<<SumUses("x", us, Var("n"))>>)>>)>>
USName(us) == IF us = <<>> THEN "none" ELSE JoinS(us, "")
AsymCases == {Mk("C09/asym/" \o USName(UseSets[i]) \o "-" \o USName(UseSets[j]) \o "/" \o ord \o "/" \o dir, "letter",
                 LET fa == F("a.tsh", <<Imp("x", "x.tsh")>>, UserFile("A", UseSets[i]), "letter")
                     fb == F("b.tsh", <<Imp("x", "x.tsh")>>, UserFile("B", UseSets[j]), "letter")
                     fx == F("x.tsh", <<>>, XFile, "letter")
                     ab == IF ord = "ab" THEN <<Imp("a", "a.tsh"), Imp("b", "b.tsh")>> ELSE <<Imp("b", "b.tsh"), Imp("a", "a.tsh")>>
                     imps == CASE dir = "nodirect" -> ab [] dir = "xfirst" -> <<Imp("d", "x.tsh")>> \o ab [] dir = "xlast" -> ab \o <<Imp("d", "x.tsh")>>
                     body == <<PrintS(<<ACall("a", "A", <<I(1)>>), ACall("b", "B", <<I(2)>>)>>)>> \o (IF dir = "nodirect" THEN <<>> ELSE <<Print1(ACall("d", "F2", <<I(3)>>))>>)
                 IN <<F("main.tsh", imps, body, "letter"), fa, fb, fx>>)
              : i \in 1..Len(UseSets), j \in 1..Len(UseSets), ord \in {"ab", "ba"}, dir \in {"nodirect", "xfirst", "xlast"}}
\* a project's OWN file named like a file of the bundled library (strings.tsh, os.tsh), imported by its relative path under an alias: the file next to the importing
\* file wins, the library is only the fallback for a path that does not exist there (round 11: the library was looked up first) - alone, next to the real library
\* import, and from a file in the middle of a chain
OwnStr == <<Func("Twice", <<Param("s", "string")>>, <<"string">>, <<RetS(<<Bin("+", Var("s"), Var("s"))>>)>>), Func("Contains", <<Param("s", "string"), Param("t", "string")>>, <<"string">>, <<RetS(<<StrL("own Contains")>>)>>)>>
OwnOs == <<Func("Shell", <<>>, <<"string">>, <<RetS(<<StrL("local-shell")>>)>>), Func("Home", <<>>, <<"string">>, <<RetS(<<StrL("/home/own")>>)>>)>>
ShadowStd ==
  {Mk("C09/ownfile/strings-alone", "letter", <<F("main.tsh", <<Imp("m", "strings.tsh")>>, <<PrintS(<<ACall("m", "Twice", <<StrL("ab")>>), ACall("m", "Contains", <<StrL("a"), StrL("b")>>)>>)>>, "letter"), F("strings.tsh", <<>>, OwnStr, "letter")>>),
   Mk("C09/ownfile/os-alone", "letter", <<F("main.tsh", <<Imp("myos", "os.tsh")>>, <<PrintS(<<ACall("myos", "Shell", <<>>), ACall("myos", "Home", <<>>)>>)>>, "letter"), F("os.tsh", <<>>, OwnOs, "letter")>>),
   Mk("C09/ownfile/strings-in-chain", "letter", <<F("main.tsh", <<Imp("g", "greet.tsh")>>, <<Print1(ACall("g", "Hello", <<StrL("x")>>))>>, "letter"),
                                                    F("greet.tsh", <<Imp("mystr", "strings.tsh")>>, <<Func("Hello", <<Param("n", "string")>>, <<"string">>, <<RetS(<<Bin("+", StrL("hello "), ACall("mystr", "Twice", <<Var("n")>>))>>)>>)>>, "letter"),
                                                    F("strings.tsh", <<>>, OwnStr, "letter")>>),
   Mk("C09/ownfile/strings-in-subdir", "letter", <<F("main.tsh", <<Imp("m", "lib/strings.tsh")>>, <<Print1(ACall("m", "Twice", <<StrL("q")>>))>>, "letter"), F("lib/strings.tsh", <<>>, OwnStr, "letter")>>),
   MkM("C09/ownfile/strings-next-to-std", "letter",
       <<F("main.tsh", <<Imp("", "strings"), Imp("m", "strings.tsh")>>, <<PrintS(<<ACall("strings", "Repeat", <<StrL("ab"), I(2)>>), ACall("m", "Twice", <<StrL("cd")>>), ACall("strings", "Contains", <<StrL("abc"), StrL("b")>>), ACall("m", "Contains", <<StrL("a"), StrL("b")>>)>>)>>, "letter"),
         F("strings.tsh", <<>>, OwnStr, "letter")>>,
       <<F("main.tsh", <<Imp("m", "strings.tsh")>>, <<PrintS(<<StrL(GS!Repeat("ab", 2)), ACall("m", "Twice", <<StrL("cd")>>), BoolL(GS!Contains("abc", "b")), ACall("m", "Contains", <<StrL("a"), StrL("b")>>)>>)>>, "letter"),
         F("strings.tsh", <<>>, OwnStr, "letter")>>)}
\* which names of an imported file are public: exactly those whose first character is an upper-case letter (round 14: "the first character equals its
\* upper-case form" made every name that starts with an underscore public)
ShapeNames == <<"_helper", "_Helper", "__x", "_", "_9", "h", "hX", "x_Y", "aB", "z9", "H", "Hx", "H_", "Z9", "HELPER", "Xy_z">>
NameShape == {Mk("C09/nameshape/" \o ShapeNames[i] \o "/" \o w, "letter",
                 <<F("main.tsh", <<Imp("a", "a.tsh")>>, <<PrintS(<<StrL("got"), ACall("a", ShapeNames[i], <<>>)>>), Print1(ACall("a", "Pub", <<I(1)>>))>>, "letter"),
                   F("a.tsh", <<>>, <<Func(ShapeNames[i], <<>>, <<"int">>, <<RetS(<<I(41)>>)>>)>>
                                    \o (IF w = "used" THEN <<Func("Pub", <<Param("n", "int")>>, <<"int">>, <<RetS(<<Bin("+", Var("n"), CallE(ShapeNames[i], <<>>))>>)>>)>>
                                                     ELSE <<Func("Pub", <<Param("n", "int")>>, <<"int">>, <<RetS(<<Var("n")>>)>>)>>), "letter")>>)
              : i \in 1..Len(ShapeNames), w \in {"used", "unused"}}
Neg == NegH("digit") \cup LibNeg \cup AliasNeg \cup NameShape
ASSUME ndJsonSerialize("fam.ndjson", SetToSeq(S1 \cup S2 \cup S3 \cup S4 \cup S4b \cup S5 \cup S6 \cup S7 \cup S8 \cup AllGraphs \cup SiteCases \cup ChainDepth \cup AsymCases \cup ShadowStd \cup Neg))
=============================================================================
