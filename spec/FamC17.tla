------------------------------- MODULE FamC17 -------------------------------
(* Direction-A family for C17: all histories of write / append / read / exists operations over a small set of   *)
(* paths (one with a blank, one in a sub-directory) and contents, at top level and inside a function; the append *)
(* flag is a literal, a variable, a parameter or a comparison.  Every read/exists result is printed and the       *)
(* final directory is compared with the `fs` of TshDyn (WriteLocal and LineStore are checked by TLC).            *)
EXTENDS TshAst
CONSTANT Tier
Quick == Tier = "quick"
Paths == <<"a.txt", "b.txt", "my file.txt", "sub/c.txt">>
Conts == <<"one", "two words", "", "x=1;y", "tail ", "q\"q">>
NP == IF Quick THEN 4 ELSE 4
NC == IF Quick THEN 3 ELSE 6
\* op = <<kind, path index, content index, flag form>>
Ops == {<<"w", p, c, "none">> : p \in 1..NP, c \in 1..NC}
       \cup {<<"a", p, c, f>> : p \in 1..NP, c \in 1..NC, f \in {"lit"}}
       \cup {<<"a", p, 1, f>> : p \in 1..NP, f \in {"var", "cmp", "litfalse", "varfalse"}}
       \cup {<<"r", p, 1, "none">> : p \in 1..NP} \cup {<<"e", p, 1, "none">> : p \in 1..NP}
SmallOps == {o \in Ops : o[2] \in {1, 3} /\ o[3] \in {1, 2} /\ o[4] \in {"none", "lit", "var"}}
P(o) == StrL(Paths[o[2]])
Flag(f) == CASE f = "lit" -> BoolL(TRUE) [] f = "litfalse" -> BoolL(FALSE) [] f = "var" -> Var("yes") [] f = "varfalse" -> Var("no")
             [] f = "cmp" -> CmpE("<", NatLit(1), NatLit(2)) [] f = "keep" -> Var("keep")
OpStmt(o) == CASE o[1] = "w" -> <<WriteS(P(o), StrL(Conts[o[3]]))>>
               [] o[1] = "a" -> <<WriteA(P(o), StrL(Conts[o[3]]), Flag(o[4]))>>
               [] o[1] = "r" -> <<IfElse(ExistsE(P(o)), <<PrintS(<<StrL("["), ReadE(P(o)), StrL("]")>>)>>, <<Print1(StrL("absent"))>>)>>
               [] o[1] = "e" -> <<Print1(ExistsE(P(o)))>>
               [] o[1] = "t" -> <<Asg1("keep", Not(Var("keep")))>>            \* the flag variable changes its value between two writes
OpName(o) == o[1] \o ToString(o[2]) \o ToString(o[3]) \o o[4]
Pre == <<Def1("yes", BoolL(TRUE)), Def1("no", BoolL(FALSE)), Def1("keep", BoolL(TRUE))>>
Final == <<PrintS(<<ExistsE(StrL("a.txt")), ExistsE(StrL("b.txt")), ExistsE(StrL("my file.txt")), ExistsE(StrL("sub/c.txt")), ExistsE(StrL("sub")), ExistsE(StrL("nope"))>>)>>
World == [fs |-> <<[path |-> "sub/keep", content |-> "k\n"]>>, stdin |-> <<>>]
Body(ctx, ss) == IF ctx = "top" THEN Pre \o ss \o Final
                 ELSE Pre \o <<Func("run", <<Param("flag", "bool")>>, <<>>, ss), ExprS(CallE("run", <<BoolL(TRUE)>>))>> \o Final
Mk(id, ctx, ss) == [id |-> id, prog |-> [body |-> Body(ctx, ss), world |-> World], check |-> <<"fs">>]
H1 == {Mk("C17/h1/" \o ctx \o "/" \o OpName(o), ctx, OpStmt(o)) : o \in Ops, ctx \in {"top", "func"}}
H2 == {Mk("C17/h2/" \o ctx \o "/" \o OpName(o1) \o "-" \o OpName(o2), ctx, OpStmt(o1) \o OpStmt(o2)) : o1 \in Ops, o2 \in Ops, ctx \in {"top"}}
H3 == {Mk("C17/h3/" \o ctx \o "/" \o OpName(o1) \o "-" \o OpName(o2) \o "-" \o OpName(o3), ctx, OpStmt(o1) \o OpStmt(o2) \o OpStmt(o3))
       : o1 \in SmallOps, o2 \in SmallOps, o3 \in SmallOps, ctx \in (IF Quick THEN {"func"} ELSE {"top", "func"})}
\* the same flag expression with a value that changes: all histories of length 4 over write / append-if-keep / toggle keep / read on one path
KeepOps == {<<"w", 1, 1, "none">>, <<"a", 1, 2, "keep">>, <<"a", 1, 1, "keep">>, <<"t", 1, 1, "none">>, <<"r", 1, 1, "none">>}
H4 == {Mk("C17/h4/" \o ctx \o "/" \o OpName(o1) \o "-" \o OpName(o2) \o "-" \o OpName(o3) \o "-" \o OpName(o4), ctx, OpStmt(o1) \o OpStmt(o2) \o OpStmt(o3) \o OpStmt(o4) \o OpStmt(<<"r", 1, 1, "none">>))
       : o1 \in KeepOps, o2 \in KeepOps, o3 \in KeepOps, o4 \in KeepOps, ctx \in (IF Quick THEN {"top"} ELSE {"top", "func"})}
\* contents and paths that a shell command could take for an option, a format or a pattern (free of the characters with recorded findings):
\* write, append, read back, exists, and a neighbour file that must stay untouched
OddConts == <<"-n", "-e hello", "-", "--", "100%", "%s %d", "a\tb", "a  b", "   ", " lead", "*", "?", "[a]", "#c", "a;b", "007", "x=1", "(p)", "a&b", "~", "'q'", "-1", "!x", "a|b", "> f", "< f">>
OddPaths == <<"-n.txt", "--x", "a  b.txt", " lead.txt", "trail .txt", "star*.txt", "q?.txt", "[a].txt", "semi;x.txt", "hash#.txt", "=.txt", "(p).txt", "amp&.txt", "it's.txt", "~t.txt", "%d.txt", "sub/in dir.txt">>
ContCases == {Mk("C17/cont/" \o ToString(i) \o "/" \o ctx, ctx, <<WriteS(StrL("keep.txt"), StrL("keep")), WriteS(StrL("o.txt"), StrL(OddConts[i])), PrintS(<<StrL("["), ReadE(StrL("o.txt")), StrL("]"), LenE(ReadE(StrL("o.txt")))>>),
                                                                    WriteA(StrL("o.txt"), StrL(OddConts[i]), BoolL(TRUE)), WriteA(StrL("n.txt"), StrL(OddConts[i]), Var("yes")), Def1("r", ReadE(StrL("o.txt"))),
                                                                    PrintS(<<StrL("["), Var("r"), StrL("]"), LenE(Var("r")), CmpE("==", ReadE(StrL("n.txt")), StrL(OddConts[i])), ReadE(StrL("keep.txt"))>>)>>)
              : i \in 1..Len(OddConts), ctx \in {"top", "func"}}
PathCases == {Mk("C17/path/" \o ToString(i) \o "/" \o ctx, ctx, <<WriteS(StrL("keep.txt"), StrL("keep")), Def1("p", StrL(OddPaths[i])), PrintS(<<ExistsE(Var("p")), ExistsE(StrL(OddPaths[i]))>>),
                                                                    WriteS(Var("p"), StrL("one")), WriteA(StrL(OddPaths[i]), StrL("two"), BoolL(TRUE)), PrintS(<<ExistsE(Var("p")), ReadE(StrL(OddPaths[i])), ReadE(StrL("keep.txt"))>>),
                                                                    WriteS(StrL(OddPaths[i]), StrL("three")), Print1(ReadE(Var("p")))>>)
              : i \in 1..Len(OddPaths), ctx \in {"top", "func"}}
\* further shapes: the flag as a parameter, writes in a loop, path and content held in variables / computed
Extra ==
  {Mk("C17/x/paramflag", "func", <<WriteS(StrL("a.txt"), StrL("first")), WriteA(StrL("a.txt"), StrL("second"), Var("flag")), WriteA(StrL("a.txt"), StrL("third"), Not(Var("flag"))), Print1(ReadE(StrL("a.txt")))>>),
   Mk("C17/x/loop", "top", <<For3(Def1("i", NatLit(0)), CmpE("<", Var("i"), NatLit(3)), Inc("i"), <<WriteA(StrL("a.txt"), Bin("+", StrL("line "), Itoa(Var("i"))), CmpE(">", Var("i"), NatLit(0)))>>), Print1(ReadE(StrL("a.txt")))>>),
   Mk("C17/x/varpath", "top", <<Def1("p", StrL("b.txt")), Def1("d", StrL("data")), WriteS(Var("p"), Var("d")), WriteA(Var("p"), Bin("+", Var("d"), StrL("2")), Var("yes")), PrintS(<<ReadE(Var("p")), ExistsE(Var("p")), ExistsE(Bin("+", Var("p"), StrL("x")))>>)>>),
   Mk("C17/x/computedpath", "top", <<Def1("n", NatLit(7)), WriteS(Bin("+", Bin("+", StrL("f"), Itoa(Var("n"))), StrL(".txt")), StrL("seven")), Print1(ReadE(StrL("f7.txt")))>>),
   Mk("C17/x/readwritten", "top", <<WriteS(StrL("a.txt"), StrL("v1")), Def1("r", ReadE(StrL("a.txt"))), WriteS(StrL("b.txt"), Bin("+", Var("r"), StrL("+"))), WriteS(StrL("a.txt"), StrL("v2")), PrintS(<<Var("r"), ReadE(StrL("a.txt")), ReadE(StrL("b.txt"))>>)>>),
   Mk("C17/x/multiline", "top", <<WriteS(StrL("a.txt"), StrL("l1")), WriteA(StrL("a.txt"), StrL("l2"), Var("yes")), WriteA(StrL("a.txt"), StrL("l3"), BoolL(TRUE)), Def1("r", ReadE(StrL("a.txt"))), PrintS(<<LenE(Var("r")), Var("r")>>)>>)}
\* ONE write statement executed again and again with a flag that changes at run time (round 10: the redirection kept in a variable that was set on an append and
\* never reset): every sequence of four flags, the statement in a function called four times or in a loop, followed by a plain write to ANOTHER path
RECURSIVE FSeqs(_)
FSeqs(n) == IF n = 0 THEN {<<>>} ELSE {<<x>> \o q : x \in BOOLEAN, q \in FSeqs(n - 1)}
RECURSIVE FName(_)
FName(q) == IF q = <<>> THEN "" ELSE (IF q[1] THEN "a" ELSE "w") \o FName(Tail(q))
SiteProg17(q, where) ==
  LET rd == PrintS(<<StrL("["), ReadE(StrL("a.txt")), StrL("]")>>) IN
  IF where = "func"
  THEN <<Func("put", <<Param("s", "string"), Param("app", "bool")>>, <<>>, <<WriteA(StrL("a.txt"), Var("s"), Var("app"))>>)>>
       \o [i \in 1..(2 * Len(q)) |-> IF i % 2 = 1 THEN ExprS(CallE("put", <<StrL("v" \o ToString((i + 1) \div 2)), BoolL(q[(i + 1) \div 2])>>)) ELSE rd]
  ELSE <<Def1("flags", SliceLit("bool", [i \in 1..Len(q) |-> BoolL(q[i])])),
         For3(Def1("i", NatLit(0)), CmpE("<", Var("i"), NatLit(Len(q))), Inc("i"), <<WriteA(StrL("a.txt"), Bin("+", StrL("v"), Itoa(Var("i"))), IndexE(Var("flags"), Var("i"))), rd>>)>>
SiteHist17 == {[id |-> "C17/site/" \o where \o "/" \o FName(q), prog |-> [body |-> SiteProg17(q, where) \o <<WriteS(StrL("b.txt"), StrL("old")), WriteS(StrL("b.txt"), StrL("new")), PrintS(<<ReadE(StrL("b.txt"))>>)>> \o Final, world |-> World], check |-> <<"fs">>]
               : q \in FSeqs(4), where \in {"func", "loop"}}
ASSUME ndJsonSerialize("fam.ndjson", SetToSeq(H1 \cup H2 \cup H3 \cup H4 \cup ContCases \cup PathCases \cup Extra \cup SiteHist17))
=============================================================================
