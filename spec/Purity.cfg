SPECIFICATION Spec
INVARIANT Verdict
PROPERTY NoCrossTalk
CHECK_DEADLOCK TRUE
