------------------------------- MODULE FamC03 -------------------------------
(* Direction-A families for C03: strings of distinct characters with all in-range index pairs;     *)
(* slice growth for every (initial length, assigned index, element type); aliasing histories over  *)
(* three slice variables; copy for all length pairs.                                               *)
EXTENDS TshAst
CONSTANT Tier
Quick == Tier = "quick"

Alphabet == "abcdefghijklmnopqrstuvwxyz0123456789ABCD"
Pref(n) == SubSeq(Alphabet, 1, n)
MaxL == IF Quick THEN 7 ELSE 12
N(i) == NatLit(i)

\* (1) strings: every in-range s[a:b], s[:b], s[a:], s[:], s[i], len, on a variable and on a literal, index as literal and as expression
SubCasesOf(l) == {CaseOf("C03/sub/L" \o ToString(l) \o "/" \o ToString(ab[1]) \o "-" \o ToString(ab[2]),
                    <<Def1("s", StrL(Pref(l))), Def1("a", N(ab[1])),
                      PrintS(<<StrL("["), Substr(Var("s"), N(ab[1]), N(ab[2])), StrL("]["), Substr(Var("s"), NoneN, N(ab[2])), StrL("]["),
                              Substr(Var("s"), N(ab[1]), NoneN), StrL("]["), Substr(Var("s"), NoneN, NoneN), StrL("]")>>),
                      PrintS(<<StrL("["), Substr(Var("s"), Var("a"), Bin("+", Var("a"), N(ab[2] - ab[1]))), StrL("]["),
                              StrL("]"), LenE(Substr(Var("s"), N(ab[1]), N(ab[2])))>>)>>)
             : ab \in {p \in (0..l) \X (0..l) : p[1] <= p[2]}}
SubCases == UNION {SubCasesOf(l) : l \in 0..MaxL}

IdxCasesOf(l) == {CaseOf("C03/idx/L" \o ToString(l) \o "/" \o ToString(i),
                    <<Def1("s", StrL(Pref(l))), Def1("i", N(i)),
                      PrintS(<<IndexE(Var("s"), N(i)), IndexE(Var("s"), Var("i")), IndexE(Var("s"), Bin("-", Bin("+", Var("i"), N(1)), N(1))), LenE(Var("s")),
                              CmpE("==", IndexE(Var("s"), N(i)), StrL(SubSeq(Pref(l), i + 1, i + 1)))>>)>>)
             : i \in 0..(l - 1)}
IdxCases == UNION {IdxCasesOf(l) : l \in 1..(IF Quick THEN 12 ELSE 40)}
StrOps == {CaseOf("C03/strops/" \o ToString(l) \o "-" \o ToString(m),
                  <<Def1("s", StrL(Pref(l))), Def1("t", StrL(SubSeq(Alphabet, 3, 2 + m))),
                    Def1("u", Bin("+", Var("s"), Var("t"))),
                    PrintS(<<StrL("["), Var("u"), StrL("]"), LenE(Var("u")), CmpE("==", Var("s"), Var("t")), CmpE("!=", Var("s"), Var("t")),
                            CmpE("==", Var("u"), Bin("+", StrL(Pref(l)), StrL(SubSeq(Alphabet, 3, 2 + m)))), CmpE("==", Bin("+", Var("s"), StrL("")), Var("s"))>>),
                    RangeS("i", "c", Var("u"), <<PrintS(<<Var("i"), Var("c")>>)>>),
                    RangeS("j", "", Var("t"), <<PrintS(<<Var("j")>>)>>)>>)
           : l \in 0..4, m \in 0..3}

\* (2) growth: initial length x assigned index x element type; afterwards the length and every element are printed
Lens == IF Quick THEN {0, 1, 2, 3, 9, 10, 11} ELSE {0, 1, 2, 3, 9, 10, 11, 39, 40}
Idxs == IF Quick THEN 0..13 ELSE 0..41
ElemOf(ty, k) == CASE ty = "int" -> N(k + 1) [] ty = "bool" -> BoolL(TRUE) [] ty = "string" -> StrL("e" \o ToString(k))
NewOf(ty) == CASE ty = "int" -> IntL("-5") [] ty = "bool" -> BoolL(TRUE) [] ty = "string" -> StrL("new")
GrowCases == {CaseOf("C03/grow/" \o ty \o "/L" \o ToString(l) \o "/at" \o ToString(i),
                     <<Def1("s", SliceLit(ty, [k \in 1..l |-> ElemOf(ty, k)])),
                       SetIdx("s", N(i), NewOf(ty)),
                       PrintS(<<LenE(Var("s"))>>),
                       RangeS("k", "v", Var("s"), <<PrintS(<<Var("k"), StrL("["), Var("v"), StrL("]")>>)>>),
                       For3(Def1("j", N(0)), CmpE("<", Var("j"), LenE(Var("s"))), Inc("j"), <<PrintS(<<IndexE(Var("s"), Var("j"))>>)>>)>>)
              : ty \in {"int", "bool", "string"}, l \in Lens, i \in Idxs}

\* (3) aliasing histories over three slice variables; the full state is printed after every operation
Vars3 == {"A", "B", "C"}
Ops == ({<<"alias", x, y>> : x \in Vars3, y \in Vars3} \ {<<"alias", x, x>> : x \in Vars3})
       \cup {<<"write0", x, x>> : x \in Vars3} \cup {<<"write4", x, x>> : x \in Vars3}
       \cup {<<"fnwrite", x, x>> : x \in Vars3}
       \cup ({<<"ret", x, y>> : x \in Vars3, y \in Vars3} \ {<<"ret", x, x>> : x \in Vars3})
       \cup {<<"copy", x, y>> : x \in Vars3, y \in Vars3}
       \cup {<<"new", x, x>> : x \in Vars3}
OpsSmall == {o \in Ops : o[1] \in {"alias", "write4", "fnwrite", "ret", "new"} /\ (o[2] # "C" \/ o[1] = "alias")}
OpStmt(o, step) ==
  CASE o[1] = "alias" -> <<Asg1(o[2], Var(o[3]))>>
    [] o[1] = "write0" -> <<SetIdx(o[2], N(0), N(100 + step))>>
    [] o[1] = "write4" -> <<SetIdx(o[2], N(4), N(400 + step))>>
    [] o[1] = "fnwrite" -> <<ExprS(CallE("w", <<Var(o[2]), N(700 + step)>>))>>
    [] o[1] = "ret" -> <<Asg1(o[2], CallE("id", <<Var(o[3])>>))>>
    [] o[1] = "copy" -> <<Asg1("n", CopyE(o[2], Var(o[3]))), PrintS(<<StrL("copied"), Var("n")>>)>>
    [] o[1] = "new" -> <<Asg1(o[2], SliceLit("int", <<N(5), N(6)>>))>>
    [] o[1] = "append" -> <<SetIdx(o[2], LenE(Var(o[2])), N(900 + step))>>
    [] o[1] = "gap" -> <<SetIdx(o[2], Bin("+", LenE(Var(o[2])), N(1)), N(800 + step))>>
Dump == <<ExprS(CallE("dump", <<StrL("A"), Var("A")>>)), ExprS(CallE("dump", <<StrL("B"), Var("B")>>)), ExprS(CallE("dump", <<StrL("C"), Var("C")>>))>>
Prelude ==
  <<Func("dump", <<Param("name", "string"), Param("s", "[]int")>>, <<>>,
         <<Def1("line", Bin("+", Var("name"), StrL(":"))),
           RangeS("i", "v", Var("s"), <<Compound("line", "+", Bin("+", StrL(" "), Itoa(Var("v"))))>>),
           PrintS(<<Var("line"), LenE(Var("s"))>>)>>),
    Func("w", <<Param("p", "[]int"), Param("v", "int")>>, <<>>, <<SetIdx("p", N(1), Var("v"))>>),
    Func("id", <<Param("p", "[]int")>>, <<"[]int">>, <<RetS(<<Var("p")>>)>>),
    Def1("A", SliceLit("int", <<N(1), N(2), N(3)>>)), VarDef(<<"B">>, "[]int", <<>>), Def1("C", SliceLit("int", <<N(9)>>)),
    Def1("n", N(0))>>
OpName(o) == o[1] \o o[2] \o o[3]
Hist2 == {CaseOf("C03/alias2/" \o OpName(o1) \o "-" \o OpName(o2), Prelude \o OpStmt(o1, 1) \o Dump \o OpStmt(o2, 2) \o Dump)
          : o1 \in Ops, o2 \in Ops}
\* store / copy / store: every three-step history over element stores (first element, a fixed index, the append idiom, one past the end, through a function)
\* and copies between two slices (round 10: the length of the slice stored to last was cached and a copy that lengthens it went unnoticed)
OpsStore == {<<k, x, x>> : k \in {"write0", "write4", "append", "gap", "fnwrite"}, x \in {"A", "C"}} \cup {<<"copy", "A", "C">>, <<"copy", "C", "A">>}
HistStore == {CaseOf("C03/store3/" \o OpName(o1) \o "-" \o OpName(o2) \o "-" \o OpName(o3),
                     Prelude \o OpStmt(o1, 1) \o Dump \o OpStmt(o2, 2) \o Dump \o OpStmt(o3, 3) \o Dump)
              : o1 \in OpsStore, o2 \in OpsStore, o3 \in OpsStore}
Hist3 == IF Quick THEN {}
         ELSE {CaseOf("C03/alias3/" \o OpName(o1) \o "-" \o OpName(o2) \o "-" \o OpName(o3),
                      Prelude \o OpStmt(o1, 1) \o Dump \o OpStmt(o2, 2) \o Dump \o OpStmt(o3, 3) \o Dump)
               : o1 \in OpsSmall, o2 \in OpsSmall, o3 \in OpsSmall}

\* (4) copy for all length pairs and element types
\* the count that copy reports is used (defined, printed, compared) or discarded (copy as a statement, the form the README shows)
CopyForms == {"used", "stmt", "printed", "infunc", "globaldst", "globalsrc"}
CopyCases == {CaseOf("C03/copy/" \o f \o "/" \o ty \o "/" \o ToString(ld) \o "-" \o ToString(ls),
                     <<Def1("d", SliceLit(ty, [k \in 1..ld |-> NewOf(ty)])), Def1("s", SliceLit(ty, [k \in 1..ls |-> ElemOf(ty, k)]))>>
                     \o (CASE f = "used" -> <<Def1("n", CopyE("d", Var("s"))), PrintS(<<Var("n"), LenE(Var("d")), LenE(Var("s"))>>)>>
                           [] f = "stmt" -> <<ExprS(CopyE("d", Var("s"))), PrintS(<<LenE(Var("d")), LenE(Var("s"))>>)>>
                           [] f = "printed" -> <<PrintS(<<CopyE("d", Var("s")), LenE(Var("d"))>>)>>
                           [] f = "globaldst" -> <<Func("cp", <<Param("b", "[]" \o ty)>>, <<"int">>, <<RetS(<<CopyE("d", Var("b"))>>)>>), PrintS(<<CallE("cp", <<Var("s")>>), LenE(Var("d"))>>)>>
                           [] f = "globalsrc" -> <<Func("cp", <<Param("a", "[]" \o ty)>>, <<>>, <<Def1("n", CopyE("a", Var("s"))), PrintS(<<Var("n")>>)>>), ExprS(CallE("cp", <<Var("d")>>)), PrintS(<<LenE(Var("d"))>>)>>
                           [] f = "infunc" -> <<Func("cp", <<Param("a", "[]" \o ty), Param("b", "[]" \o ty)>>, <<>>, <<ExprS(CopyE("a", Var("b")))>>), ExprS(CallE("cp", <<Var("d"), Var("s")>>)), PrintS(<<LenE(Var("d"))>>)>>)
                     \o <<RangeS("k", "v", Var("d"), <<PrintS(<<Var("k"), Var("v")>>)>>),
                       SetIdx("s", N(0), NewOf(ty)),          \* a copy is not an alias
                       IF ld + ls = 0 THEN PrintS(<<StrL("empty")>>) ELSE PrintS(<<IndexE(Var("d"), N(0))>>)>>)
              : f \in CopyForms, ty \in {"int", "bool", "string"}, ld \in 0..(IF Quick THEN 4 ELSE 6), ls \in 0..(IF Quick THEN 4 ELSE 6)}

\* (5) miscellaneous slice forms: var default, literal of expressions, index by expression, slices of every type through functions
MiscCases ==
  {CaseOf("C03/misc/vardefault", <<VarDef(<<"s">>, "[]string", <<>>), VarDef(<<"t">>, "[]string", <<>>), PrintS(<<LenE(Var("s"))>>), SetIdx("s", N(1), StrL("x")),
                                   PrintS(<<LenE(Var("s")), LenE(Var("t")), StrL("["), IndexE(Var("s"), N(0)), StrL("]"), IndexE(Var("s"), N(1))>>)>>),
   CaseOf("C03/misc/exprindex", <<Def1("s", SliceLit("int", <<N(10), N(20), N(30), N(40)>>)), Def1("i", N(1)),
                                  PrintS(<<IndexE(Var("s"), Bin("+", Var("i"), N(1))), IndexE(Var("s"), Bin("*", Var("i"), N(3))), IndexE(Var("s"), IndexE(Var("s"), N(0))) >>)>>),
   CaseOf("C03/misc/exprindex2", <<Def1("s", SliceLit("int", <<N(2), N(0), N(1)>>)), PrintS(<<IndexE(Var("s"), IndexE(Var("s"), N(0))), IndexE(Var("s"), LenE(StrL("a")))>>),
                                   SetIdx("s", IndexE(Var("s"), N(2)), N(9)), PrintS(<<IndexE(Var("s"), N(0)), IndexE(Var("s"), N(1)), IndexE(Var("s"), N(2))>>)>>),
   CaseOf("C03/misc/twofresh", <<Func("mk", <<>>, <<"[]int">>, <<RetS(<<SliceLit("int", <<N(1)>>)>>)>>), Def1("a", CallE("mk", <<>>)), Def1("b", CallE("mk", <<>>)),
                                 SetIdx("a", N(0), N(7)), PrintS(<<IndexE(Var("a"), N(0)), IndexE(Var("b"), N(0))>>)>>),
   CaseOf("C03/misc/loopfresh", <<VarDef(<<"keep">>, "[]int", <<>>), For3(Def1("i", N(0)), CmpE("<", Var("i"), N(3)), Inc("i"),
                                    <<Def1("t", SliceLit("int", <<Var("i")>>)), If1(CmpE("==", Var("i"), N(0)), <<Asg1("keep", Var("t"))>>), SetIdx("t", N(1), N(5))>>),
                                  PrintS(<<LenE(Var("keep")), IndexE(Var("keep"), N(0))>>)>>),
   CaseOf("C03/misc/strslice", <<Def1("s", SliceLit("string", <<StrL("a b"), StrL(""), StrL("c")>>)), SetIdx("s", N(5), StrL("z z")),
                                 RangeS("i", "v", Var("s"), <<PrintS(<<Var("i"), StrL("["), Var("v"), StrL("]"), LenE(Var("v"))>>)>>)>>),
   CaseOf("C03/misc/boolslice", <<Def1("s", SliceLit("bool", <<BoolL(TRUE), BoolL(FALSE)>>)), SetIdx("s", N(3), CmpE("<", N(1), N(2))),
                                  RangeS("i", "v", Var("s"), <<If(<<Branch(Var("v"), <<PrintS(<<Var("i"), StrL("yes")>>)>>)>>, <<PrintS(<<Var("i"), StrL("no")>>)>>)>>)>>)}

\* range loops: one and two loops (nested, in sequence, across a call) over slices and strings of every pair of lengths, with both variables or the
\* index only; whatever a back-end keeps per loop (length, position, flag) must be private to the loop
Iter(kind, l) == IF kind = "str" THEN StrL(Pref(l)) ELSE SliceLit("int", [k \in 1..l |-> N(10 * k)])
RVars == {"both", "idx"}
RangeOf(kind, l, rv, i, v, body) == RangeS(IF rv = "val" THEN "_" ELSE i, IF rv = "idx" THEN "" ELSE v, Iter(kind, l),
                                           <<PrintS((IF rv = "val" THEN <<>> ELSE <<Var(i)>>) \o (IF rv = "idx" THEN <<>> ELSE <<Var(v)>>))>> \o body)
RLens == IF Quick THEN {0, 1, 2, 3} ELSE {0, 1, 2, 3, 4, 10, 11}
Range2 == {CaseOf("C03/range2/" \o sh \o "/" \o k1 \o ToString(l1) \o rv1 \o "-" \o k2 \o ToString(l2) \o rv2,
                  CASE sh = "nested" -> <<RangeOf(k1, l1, rv1, "i", "v", <<RangeOf(k2, l2, rv2, "j", "w", <<>>), Print1(StrL("-"))>>), Print1(StrL("end"))>>
                    [] sh = "seq" -> <<RangeOf(k1, l1, rv1, "i", "v", <<>>), RangeOf(k2, l2, rv2, "j", "w", <<>>), Print1(StrL("end"))>>
                    [] sh = "call" -> <<Func("inner", <<Param("p", "int")>>, <<>>, <<RangeOf(k2, l2, rv2, "j", "w", <<>>)>>),
                                        RangeOf(k1, l1, rv1, "i", "v", <<ExprS(CallE("inner", <<N(1)>>))>>), Print1(StrL("end"))>>
                    [] sh = "infunc" -> <<Func("both", <<>>, <<>>, <<RangeOf(k1, l1, rv1, "i", "v", <<RangeOf(k2, l2, rv2, "j", "w", <<>>)>>)>>), ExprS(CallE("both", <<>>)), ExprS(CallE("both", <<>>))>>)
           : sh \in {"nested", "seq", "call", "infunc"}, k1 \in {"str", "sl"}, k2 \in {"str", "sl"}, l1 \in RLens \ {0}, l2 \in RLens,
             rv1 \in (IF Quick THEN {"both"} ELSE RVars), rv2 \in (IF Quick THEN {"both", "idx"} ELSE RVars)}
\* element values that are more than a word (C08's alphabet, as far as it is free of recorded findings) through every slice operation
PunctVals == <<"it's", "a b", " lead", "trail ", "*", "x;y", "a  b", "(p)", "#h", "-n", "k=v", "'", "a&b", "~", "?">>
PunctCases == {CaseOf("C03/punct/" \o ToString(i), <<Def1("v", StrL(PunctVals[i])), Def1("s", SliceLit("string", <<StrL("first")>>)), SetIdx("s", N(0), Var("v")), SetIdx("s", N(3), StrL(PunctVals[i])),
                                                   Def1("d", SliceLit("string", <<>>)), Def1("n", CopyE("d", Var("s"))), Def1("t", Var("s")), SetIdx("t", N(4), Bin("+", Var("v"), Var("v"))),
                                                   PrintS(<<Var("n"), LenE(Var("s")), LenE(Var("d"))>>), RangeS("k", "e", Var("s"), <<PrintS(<<Var("k"), StrL("["), Var("e"), StrL("]"), LenE(Var("e"))>>)>>),
                                                   PrintS(<<StrL("["), IndexE(Var("d"), N(0)), StrL("]"), CmpE("==", IndexE(Var("d"), N(3)), Var("v")), CmpE("==", IndexE(Var("s"), N(1)), StrL(""))>>)>>)
               : i \in 1..Len(PunctVals)}
\* ---- declaration forms (round 14: `var a, b []int` gave both names ONE array): every way of declaring two or three slices - separate var statements, ONE var with
\* several names and no value, one var with several values, a short definition with several values, a typed var with values - followed by every short history of
\* stores through the first name; the other names must stay what they were.  The same for scalars (their defaults are values, not storage).
DeclForms == {"sepvar", "multivar", "multivar3", "multivarvals", "shortvals", "typedvals", "aliased"}
DeclOps == {"store0", "grow", "append2", "copyinto", "none"}
DeclStmts(f, ty) ==
  LET E == SliceLit(ty, <<>>) T == "[]" \o ty IN
  CASE f = "sepvar" -> <<VarDef(<<"a">>, T, <<>>), VarDef(<<"b">>, T, <<>>), VarDef(<<"c">>, T, <<>>)>>
    [] f = "multivar" -> <<VarDef(<<"a", "b">>, T, <<>>), VarDef(<<"c">>, T, <<>>)>>
    [] f = "multivar3" -> <<VarDef(<<"a", "b", "c">>, T, <<>>)>>
    [] f = "multivarvals" -> <<VarDef(<<"a", "b", "c">>, "", <<E, E, E>>)>>
    [] f = "shortvals" -> <<Def(<<"a", "b", "c">>, <<E, E, E>>)>>
    [] f = "typedvals" -> <<VarDef(<<"a", "b">>, T, <<E, E>>), VarDef(<<"c">>, T, <<E>>)>>
    [] f = "aliased" -> <<VarDef(<<"a", "c">>, T, <<>>), Def1("b", Var("a"))>>          \* b IS a here: the control that stores through a are seen through b
DeclOpStmts(o, ty) ==
  CASE o = "store0" -> <<SetIdx("a", N(0), NewOf(ty))>>
    [] o = "grow" -> <<SetIdx("a", N(2), NewOf(ty))>>
    [] o = "append2" -> <<SetIdx("a", LenE(Var("a")), NewOf(ty)), SetIdx("a", LenE(Var("a")), ElemOf(ty, 1)), SetIdx("c", N(0), ElemOf(ty, 2))>>
    [] o = "copyinto" -> <<Def1("src", SliceLit(ty, <<ElemOf(ty, 1), ElemOf(ty, 2)>>)), Def1("n", CopyE("a", Var("src"))), Print1(Var("n"))>>
    [] o = "none" -> <<>>
DeclShow == <<PrintS(<<LenE(Var("a")), LenE(Var("b")), LenE(Var("c"))>>), RangeS("i", "v", Var("a"), <<PrintS(<<StrL("a"), Var("i"), Var("v")>>)>>),
              RangeS("i", "v", Var("b"), <<PrintS(<<StrL("b"), Var("i"), Var("v")>>)>>), RangeS("i", "v", Var("c"), <<PrintS(<<StrL("c"), Var("i"), Var("v")>>)>>)>>
DeclCases == {CaseOf("C03/decl/" \o f \o "/" \o ty \o "/" \o o \o "/" \o w,
                     IF w = "top" THEN DeclStmts(f, ty) \o DeclOpStmts(o, ty) \o DeclShow
                     ELSE <<Func("run", <<>>, <<>>, DeclStmts(f, ty) \o DeclOpStmts(o, ty) \o DeclShow), ExprS(CallE("run", <<>>)), ExprS(CallE("run", <<>>))>>)
              : f \in DeclForms, ty \in {"int", "string", "bool"}, o \in DeclOps, w \in {"top", "func"}}
ScalarDecl == {CaseOf("C03/decl/scalar/" \o ty \o "/" \o w,
                      LET body == <<VarDef(<<"p", "q">>, ty, <<>>), VarDef(<<"r">>, ty, <<>>), PrintS(<<StrL("["), Var("p"), Var("q"), Var("r"), StrL("]")>>),
                                    Asg1("p", CASE ty = "int" -> N(5) [] ty = "string" -> StrL("five") [] ty = "bool" -> BoolL(TRUE)),
                                    PrintS(<<StrL("["), Var("p"), Var("q"), Var("r"), StrL("]")>>)>>
                      IN IF w = "top" THEN body ELSE <<Func("run", <<>>, <<>>, body), ExprS(CallE("run", <<>>)), ExprS(CallE("run", <<>>))>>)
               : ty \in {"int", "string", "bool"}, w \in {"top", "func"}}
All == DeclCases \cup ScalarDecl \cup PunctCases \cup Range2 \cup SubCases \cup IdxCases \cup StrOps \cup GrowCases \cup Hist2 \cup Hist3 \cup HistStore \cup CopyCases \cup MiscCases
ASSUME ndJsonSerialize("fam.ndjson", SetToSeq(All))
=============================================================================
