------------------------------ MODULE FamPairs ------------------------------
(* Direction-A family "every ordered pair of language features in every composition".  The other families vary ONE       *)
(* construct at a time (or one construct inside one container); the changes that escaped them (DESIGN.md 12.6, round 8)   *)
(* needed two features that each behave when exercised alone.  Here a catalog of self-contained feature snippets - every  *)
(* statement form, every kind of expression, functions of every shape, slices, strings, effectful operands, files and     *)
(* commands - is multiplied out: every ordered pair (A, B) x every composition mode (in sequence at top level, inside one  *)
(* function called twice, inside each loop form, in the two arms of a branch and of a switch inside a loop, in two          *)
(* functions of which one calls the other before and after its own work).  What the back-ends keep per scope, per loop,    *)
(* per call and per program (temporaries, result registers, loop flags, helper routines, slice storage) is thereby shared  *)
(* between every two features in every way the language allows.  Every snippet prints all the state it touches, so the     *)
(* abstract machine TshDyn decides stdout / status / files / command log of each composed program.                         *)
(* Names: a snippet takes a suffix (a / b) so that A and B never define the same name; ids are                            *)
(*   pairs/<property>/<mode>/<A>-<B>   where <property> is the highest property either snippet belongs to.                *)
EXTENDS TshAst
CONSTANT Tier
N(i) == NatLit(i)
V(n) == Var(n)
S(s) == StrL(s)
P(es) == PrintS(es)
Feat(p, pre, body) == [p |-> p, pre |-> pre, body |-> body]

\* ---- C01: scalars, operators, every statement form --------------------------------------------------------------------
Arith(x) == Feat(1, <<>>, <<Def1("x" \o x, N(7)), Def1("y" \o x, Bin("-", Bin("*", V("x" \o x), N(3)), Bin("%", Bin("/", N(9), N(2)), N(3)))),
                           P(<<V("y" \o x), Bin("+", V("x" \o x), V("y" \o x)), Bin("-", N(0), V("y" \o x))>>)>>)
Logic(x) == Feat(1, <<>>, <<Def1("u" \o x, N(3)), Def1("p" \o x, Lgc("||", Lgc("&&", CmpE("<", V("u" \o x), N(5)), Not(Grp(CmpE("==", V("u" \o x), N(4))))), BoolL(FALSE))),
                           P(<<V("p" \o x), Not(V("p" \o x)), CmpE(">=", V("u" \o x), N(3)), CmpE("!=", V("p" \o x), BoolL(TRUE))>>)>>)
Str(x) == Feat(1, <<>>, <<Def1("s" \o x, Bin("+", S("ab"), S("cd"))), Compound("s" \o x, "+", S(" e")), P(<<V("s" \o x), CmpE("==", V("s" \o x), S("abcd e")), CmpE("!=", V("s" \o x), S("")), LenE(V("s" \o x))>>)>>)
Comp(x) == Feat(1, <<>>, <<Def1("n" \o x, N(5)), Compound("n" \o x, "+", N(2)), Compound("n" \o x, "*", N(3)), Dec("n" \o x), Compound("n" \o x, "%", N(6)), Inc("n" \o x), Compound("n" \o x, "-", N(9)), Compound("n" \o x, "/", N(2)), P(<<V("n" \o x)>>)>>)
IfChain(x) == Feat(1, <<>>, <<Def1("k" \o x, N(2)),
                  If(<<Branch(CmpE("==", V("k" \o x), N(1)), <<P(<<S("one")>>)>>), Branch(CmpE("==", V("k" \o x), N(2)), <<P(<<S("two")>>), Inc("k" \o x)>>), Branch(CmpE("==", V("k" \o x), N(3)), <<P(<<S("three")>>)>>)>>, <<P(<<S("other")>>)>>),
                  If(<<Branch(CmpE(">", V("k" \o x), N(5)), <<>>), Branch(CmpE("==", V("k" \o x), N(3)), <<P(<<S("now three")>>)>>)>>, <<>>)>>)
SwTag(x) == Feat(1, <<>>, <<Def1("t" \o x, N(2)), SwitchAt(V("t" \o x), <<CaseB(N(1), <<P(<<S("c1")>>)>>), CaseB(N(2), <<P(<<S("c2")>>), Compound("t" \o x, "+", N(5))>>), CaseB(N(7), <<P(<<S("c7")>>)>>)>>, <<P(<<S("dflt")>>)>>, TRUE, 1),
                           Switch(V("t" \o x), <<CaseB(N(1), <<P(<<S("d1")>>)>>)>>, <<P(<<S("ddef"), V("t" \o x)>>)>>, TRUE)>>)
SwBool(x) == Feat(1, <<>>, <<Def1("w" \o x, S("go")), Switch(NoneN, <<CaseB(CmpE("==", V("w" \o x), S("stop")), <<P(<<S("stop")>>)>>), CaseB(CmpE("==", V("w" \o x), S("go")), <<P(<<S("going")>>)>>)>>, <<>>, FALSE)>>)
For3F(x) == Feat(1, <<>>, <<Def1("a" \o x, N(0)), For3(Def1("i" \o x, N(0)), CmpE("<", V("i" \o x), N(6)), Inc("i" \o x),
                            <<If1(CmpE("==", V("i" \o x), N(1)), <<ContinueS>>), If1(CmpE("==", V("i" \o x), N(4)), <<BreakS>>), Compound("a" \o x, "+", V("i" \o x))>>), P(<<S("for3"), V("a" \o x)>>)>>)
While(x) == Feat(1, <<>>, <<Def1("c" \o x, N(0)), ForCond(CmpE("<", V("c" \o x), N(3)), <<Inc("c" \o x), If1(CmpE("==", V("c" \o x), N(2)), <<ContinueS>>), P(<<S("w"), V("c" \o x)>>)>>)>>)
Forever(x) == Feat(1, <<>>, <<Def1("f" \o x, N(0)), ForInf(<<Inc("f" \o x), If1(CmpE(">", V("f" \o x), N(2)), <<BreakS>>)>>), P(<<S("inf"), V("f" \o x)>>)>>)
Nested(x) == Feat(1, <<>>, <<Def1("m" \o x, N(0)), For3(Def1("o" \o x, N(0)), CmpE("<", V("o" \o x), N(2)), Inc("o" \o x),
                             <<Def1("j" \o x, N(0)), ForCond(CmpE("<", V("j" \o x), N(2)), <<Inc("j" \o x), Compound("m" \o x, "+", N(1))>>), For3(NoneN, CmpE("<", V("j" \o x), N(4)), Inc("j" \o x), <<Compound("m" \o x, "+", N(10))>>)>>),
                             P(<<S("nested"), V("m" \o x)>>)>>)
Swap(x) == Feat(1, <<>>, <<Def(<<"l" \o x, "r" \o x>>, <<N(1), N(2)>>), Asg(<<"l" \o x, "r" \o x>>, <<V("r" \o x), Bin("+", V("l" \o x), V("r" \o x))>>), P(<<V("l" \o x), V("r" \o x)>>)>>)
VarForms(x) == Feat(1, <<>>, <<VarDef(<<"vi" \o x>>, "int", <<>>), VarDef(<<"vs" \o x>>, "string", <<>>), VarDef(<<"vb" \o x>>, "bool", <<>>), VarDef(<<"vt" \o x>>, "", <<S("t")>>), VarDef(<<"vq" \o x, "vr" \o x>>, "int", <<N(4), N(5)>>),
                              P(<<V("vi" \o x), S("[" ), V("vs" \o x), S("]"), V("vb" \o x), V("vt" \o x), Bin("*", V("vq" \o x), V("vr" \o x)), Itoa(V("vq" \o x))>>)>>)
Neg(x) == Feat(1, <<>>, <<Def1("z" \o x, IntL("-3")), P(<<Bin("-", V("z" \o x), IntL("-5")), Bin("*", V("z" \o x), IntL("-1")), Bin("/", IntL("-7"), N(2)), Bin("%", IntL("-7"), N(3)), Not(Grp(CmpE("<", V("z" \o x), N(0))))>>)>>)

\* ---- C02: functions -----------------------------------------------------------------------------------------------------
Call1(x) == Feat(2, <<Func("inc" \o x, <<Param("v", "int")>>, <<"int">>, <<RetS(<<Bin("+", V("v"), N(1))>>)>>)>>,
                 <<P(<<CallE("inc" \o x, <<CallE("inc" \o x, <<N(1)>>)>>), Bin("+", CallE("inc" \o x, <<N(10)>>), CallE("inc" \o x, <<N(20)>>))>>)>>)
Multi(x) == Feat(2, <<Func("two" \o x, <<Param("v", "int"), Param("w", "string")>>, <<"int", "string">>, <<RetS(<<Bin("*", V("v"), N(2)), Bin("+", V("w"), V("w"))>>)>>)>>,
                 <<Def(<<"q" \o x, "r" \o x>>, <<CallE("two" \o x, <<N(4), S("z")>>)>>), P(<<V("q" \o x), V("r" \o x)>>), Asg(<<"q" \o x, "r" \o x>>, <<CallE("two" \o x, <<V("q" \o x), V("r" \o x)>>)>>), P(<<V("q" \o x), V("r" \o x)>>)>>)
Glob(x) == Feat(2, <<Def1("g" \o x, N(0)), Func("bump" \o x, <<Param("by", "int")>>, <<>>, <<Compound("g" \o x, "+", V("by")), Def1("loc", Bin("*", V("g" \o x), N(2))), Asg1("g" \o x, Bin("+", V("loc"), N(1)))>>)>>,
                <<ExprS(CallE("bump" \o x, <<N(1)>>)), ExprS(CallE("bump" \o x, <<N(2)>>)), P(<<S("g"), V("g" \o x)>>)>>)
LoopFn(x) == Feat(2, <<Func("sum" \o x, <<Param("n", "int")>>, <<"int">>, <<Def1("t", N(0)), Def1("i", N(0)), ForCond(CmpE("<", V("i"), V("n")), <<Inc("i"), If1(CmpE("==", V("i"), N(2)), <<ContinueS>>), Compound("t", "+", V("i"))>>),
                                                                              IfElse(CmpE(">", V("t"), N(5)), <<RetS(<<V("t")>>)>>, <<>>), RetS(<<Bin("-", N(0), V("t"))>>)>>)>>,
                  <<P(<<CallE("sum" \o x, <<N(2)>>), CallE("sum" \o x, <<N(4)>>)>>)>>)
SameNames(x) == Feat(2, <<Func("in" \o x, <<Param("v", "int")>>, <<"int">>, <<Def1("t", Bin("+", V("v"), N(1))), RetS(<<Bin("*", V("t"), N(2))>>)>>),
                          Func("out" \o x, <<Param("v", "int")>>, <<"int">>, <<Def1("t", Bin("+", V("v"), N(100))), Def1("u", CallE("in" \o x, <<V("v")>>)), RetS(<<Bin("+", Bin("+", V("t"), V("u")), V("v"))>>)>>)>>,
                     <<P(<<CallE("out" \o x, <<N(1)>>), CallE("out" \o x, <<CallE("in" \o x, <<N(2)>>)>>)>>)>>)
StrFn(x) == Feat(2, <<Func("wrap" \o x, <<Param("s", "string"), Param("b", "bool")>>, <<"string">>, <<If1(V("b"), <<RetS(<<Bin("+", Bin("+", S("<"), V("s")), S(">"))>>)>>), RetS(<<V("s")>>)>>)>>,
                 <<P(<<CallE("wrap" \o x, <<S("in"), BoolL(TRUE)>>), CallE("wrap" \o x, <<CallE("wrap" \o x, <<S("x y"), CmpE("<", N(1), N(2))>>), BoolL(FALSE)>>)>>)>>)
Void(x) == Feat(2, <<Func("say" \o x, <<>>, <<>>, <<P(<<S("said")>>)>>), Func("sayn" \o x, <<Param("n", "int")>>, <<>>, <<For3(Def1("i", N(0)), CmpE("<", V("i"), V("n")), Inc("i"), <<ExprS(CallE("say" \o x, <<>>))>>)>>)>>,
                <<ExprS(CallE("sayn" \o x, <<N(2)>>)), ExprS(CallE("say" \o x, <<>>))>>)

\* ---- C03: slices and strings ---------------------------------------------------------------------------------------------
Slice(x) == Feat(3, <<>>, <<Def1("sl" \o x, SliceLit("int", <<N(4), N(5), N(6)>>)), SetIdx("sl" \o x, N(1), N(50)), SetIdx("sl" \o x, N(5), N(9)),
                           P(<<LenE(V("sl" \o x)), IndexE(V("sl" \o x), N(0)), IndexE(V("sl" \o x), N(1)), IndexE(V("sl" \o x), N(4)), IndexE(V("sl" \o x), N(5))>>)>>)
Alias(x) == Feat(3, <<>>, <<Def1("aa" \o x, SliceLit("string", <<S("p"), S("q")>>)), Def1("ab" \o x, V("aa" \o x)), SetIdx("ab" \o x, N(0), S("changed")), SetIdx("aa" \o x, N(2), S("third")),
                           P(<<IndexE(V("aa" \o x), N(0)), IndexE(V("ab" \o x), N(2)), LenE(V("ab" \o x))>>)>>)
CopyF(x) == Feat(3, <<>>, <<Def1("cs" \o x, SliceLit("int", <<N(1), N(2), N(3)>>)), Def1("cd" \o x, SliceLit("int", <<N(9)>>)), Def1("cn" \o x, CopyE("cd" \o x, V("cs" \o x))), SetIdx("cs" \o x, N(0), N(7)),
                           P(<<V("cn" \o x), LenE(V("cd" \o x)), IndexE(V("cd" \o x), N(0)), IndexE(V("cd" \o x), N(2)), IndexE(V("cs" \o x), N(0))>>)>>)
RangeSl(x) == Feat(3, <<>>, <<Def1("rs" \o x, SliceLit("int", <<N(3), N(4), N(5)>>)), Def1("rt" \o x, N(0)), RangeS("ri" \o x, "rv" \o x, V("rs" \o x), <<Compound("rt" \o x, "+", Bin("*", V("ri" \o x), V("rv" \o x)))>>), P(<<S("range"), V("rt" \o x)>>)>>)
RangeStr(x) == Feat(3, <<>>, <<Def1("rw" \o x, S("xyz")), Def1("ro" \o x, S("")), RangeS("rj" \o x, "rc" \o x, V("rw" \o x), <<Asg1("ro" \o x, Bin("+", Bin("+", V("rc" \o x), Itoa(V("rj" \o x))), V("ro" \o x)))>>), P(<<V("ro" \o x)>>)>>)
SubstrF(x) == Feat(3, <<>>, <<Def1("ss" \o x, S("hello world")), Def1("sn" \o x, N(4)), P(<<Substr(V("ss" \o x), N(1), V("sn" \o x)), Substr(V("ss" \o x), NoneN, N(5)), Substr(V("ss" \o x), Bin("+", V("sn" \o x), N(2)), NoneN), IndexE(V("ss" \o x), V("sn" \o x)), LenE(Substr(V("ss" \o x), N(2), N(2)))>>)>>)
BoolSl(x) == Feat(3, <<>>, <<VarDef(<<"bs" \o x>>, "[]bool", <<>>), SetIdx("bs" \o x, N(2), BoolL(TRUE)), VarDef(<<"bt" \o x>>, "[]string", <<>>), SetIdx("bt" \o x, N(1), S("one")),
                            P(<<LenE(V("bs" \o x)), IndexE(V("bs" \o x), N(0)), IndexE(V("bs" \o x), N(2)), LenE(V("bt" \o x)), S("["), IndexE(V("bt" \o x), N(0)), S("]"), IndexE(V("bt" \o x), N(1))>>)>>)
SlFn(x) == Feat(3, <<Func("fill" \o x, <<Param("s", "[]int"), Param("v", "int")>>, <<"[]int">>, <<SetIdx("s", LenE(V("s")), V("v")), RetS(<<V("s")>>)>>),
                     Func("mk" \o x, <<>>, <<"[]int">>, <<Def1("fresh", SliceLit("int", <<N(1)>>)), RetS(<<V("fresh")>>)>>)>>,
                <<Def1("fa" \o x, CallE("mk" \o x, <<>>)), Def1("fb" \o x, CallE("fill" \o x, <<V("fa" \o x), N(8)>>)), Def1("fc" \o x, CallE("mk" \o x, <<>>)), SetIdx("fb" \o x, N(0), N(3)),
                  P(<<LenE(V("fa" \o x)), IndexE(V("fa" \o x), N(0)), IndexE(V("fa" \o x), N(1)), LenE(V("fc" \o x)), IndexE(V("fc" \o x), N(0))>>)>>)
GlobSl(x) == Feat(3, <<Def1("gs" \o x, SliceLit("int", <<>>)), Func("push" \o x, <<Param("v", "int")>>, <<>>, <<SetIdx("gs" \o x, LenE(V("gs" \o x)), V("v"))>>)>>,
                  <<ExprS(CallE("push" \o x, <<N(4)>>)), ExprS(CallE("push" \o x, <<N(6)>>)), P(<<S("gs"), LenE(V("gs" \o x)), IndexE(V("gs" \o x), Bin("-", LenE(V("gs" \o x)), N(1)))>>)>>)

\* ---- C04: operands with effects ---------------------------------------------------------------------------------------------
\* e<x>(id, v) prints "E id" and returns v; stdout is the evaluation log
ProbeI(x) == Func("e" \o x, <<Param("id", "int"), Param("v", "int")>>, <<"int">>, <<P(<<S("E" \o x), V("id")>>), RetS(<<V("v")>>)>>)
ProbeB(x) == Func("t" \o x, <<Param("id", "int"), Param("v", "bool")>>, <<"bool">>, <<P(<<S("T" \o x), V("id")>>), RetS(<<V("v")>>)>>)
E(x, i, v) == CallE("e" \o x, <<N(i), N(v)>>)
T(x, i, v) == CallE("t" \o x, <<N(i), BoolL(v)>>)
EffArith(x) == Feat(4, <<ProbeI(x)>>, <<P(<<Bin("+", E(x, 1, 2), Bin("*", E(x, 2, 3), E(x, 3, 4))), CmpE("<", E(x, 4, 1), E(x, 5, 1))>>)>>)
EffLogic(x) == Feat(4, <<ProbeB(x)>>, <<P(<<Lgc("&&", T(x, 1, FALSE), T(x, 2, TRUE)), Lgc("||", T(x, 3, TRUE), T(x, 4, FALSE)), Not(T(x, 5, TRUE))>>)>>)
EffIf(x) == Feat(4, <<ProbeB(x)>>, <<If(<<Branch(T(x, 1, FALSE), <<P(<<S("b1")>>)>>), Branch(T(x, 2, TRUE), <<P(<<S("b2")>>)>>), Branch(T(x, 3, TRUE), <<P(<<S("b3")>>)>>)>>, <<P(<<S("else")>>)>>)>>)
EffLoop(x) == Feat(4, <<ProbeI(x)>>, <<For3(Def1("q" \o x, E(x, 1, 0)), CmpE("<", V("q" \o x), E(x, 2, 2)), Compound("q" \o x, "+", E(x, 3, 1)), <<P(<<S("body"), V("q" \o x)>>)>>)>>)
EffArgs(x) == Feat(4, <<ProbeI(x), Func("three" \o x, <<Param("a", "int"), Param("b", "int"), Param("c", "int")>>, <<"int">>, <<RetS(<<Bin("+", Bin("*", V("a"), N(100)), Bin("+", Bin("*", V("b"), N(10)), V("c")))>>)>>)>>,
                   <<Def1("es" \o x, SliceLit("int", <<E(x, 1, 7), E(x, 2, 8)>>)), P(<<CallE("three" \o x, <<E(x, 3, 1), E(x, 4, 2), E(x, 5, 3)>>), IndexE(V("es" \o x), E(x, 6, 1))>>), SetIdx("es" \o x, E(x, 7, 0), E(x, 8, 5)), P(<<IndexE(V("es" \o x), N(0))>>)>>)
EffSwitch(x) == Feat(4, <<ProbeI(x)>>, <<Def1("sw" \o x, N(2)), Switch(V("sw" \o x), <<CaseB(E(x, 1, 1), <<P(<<S("k1")>>)>>), CaseB(E(x, 2, 2), <<P(<<S("k2")>>)>>), CaseB(E(x, 3, 3), <<P(<<S("k3")>>)>>)>>, <<>>, FALSE)>>)

\* ---- C17 / C18: the world -------------------------------------------------------------------------------------------------
Files(x) == Feat(17, <<>>, <<WriteS(S("f" \o x \o ".txt"), S("first line")), WriteA(S("f" \o x \o ".txt"), S("second"), BoolL(TRUE)), P(<<S("["), ReadE(S("f" \o x \o ".txt")), S("]"), ExistsE(S("f" \o x \o ".txt")), ExistsE(S("none" \o x))>>)>>)
FilesFn(x) == Feat(17, <<Func("log" \o x, <<Param("line", "string"), Param("more", "bool")>>, <<"int">>, <<WriteA(S("my log" \o x), V("line"), V("more")), RetS(<<LenE(ReadE(S("my log" \o x)))>>)>>)>>,
                   <<P(<<CallE("log" \o x, <<S("one"), BoolL(FALSE)>>), CallE("log" \o x, <<S("two words"), BoolL(TRUE)>>)>>), P(<<ReadE(S("my log" \o x))>>)>>)
Cmd(x) == Feat(18, <<>>, <<ExprS(App(<<Stage("pa", <<S("stmt" \o x), S("two words")>>)>>)), Def(<<"co" \o x, "ce" \o x, "cc" \o x>>, <<App(<<Stage("pa", <<S("x3"), S("cap")>>)>>)>>), P(<<S("["), V("co" \o x), S("]"), V("cc" \o x)>>)>>)
Pipe(x) == Feat(18, <<>>, <<Def(<<"po" \o x, "pe" \o x, "pc" \o x>>, <<App(<<Stage("pa", <<S("src" \o x)>>), Stage("pb", <<S("x4"), S("mid")>>)>>)>>), P(<<V("po" \o x), V("pc" \o x)>>), ExprS(App(<<Stage("pb", <<S("a")>>), Stage("pc", <<S("b c")>>)>>)), P(<<S("end")>>)>>)

Names == <<"arith", "logic", "str", "comp", "ifchain", "swtag", "swbool", "for3", "while", "forever", "nested", "swap", "varforms", "neg",
           "call1", "multi", "glob", "loopfn", "samenames", "strfn", "void",
           "slice", "alias", "copy", "rangesl", "rangestr", "substr", "boolsl", "slfn", "globsl",
           "effarith", "efflogic", "effif", "effloop", "effargs", "effswitch",
           "files", "filesfn", "cmd", "pipe">>
F(i, x) == CASE i = 1 -> Arith(x) [] i = 2 -> Logic(x) [] i = 3 -> Str(x) [] i = 4 -> Comp(x) [] i = 5 -> IfChain(x) [] i = 6 -> SwTag(x) [] i = 7 -> SwBool(x) [] i = 8 -> For3F(x) [] i = 9 -> While(x)
             [] i = 10 -> Forever(x) [] i = 11 -> Nested(x) [] i = 12 -> Swap(x) [] i = 13 -> VarForms(x) [] i = 14 -> Neg(x)
             [] i = 15 -> Call1(x) [] i = 16 -> Multi(x) [] i = 17 -> Glob(x) [] i = 18 -> LoopFn(x) [] i = 19 -> SameNames(x) [] i = 20 -> StrFn(x) [] i = 21 -> Void(x)
             [] i = 22 -> Slice(x) [] i = 23 -> Alias(x) [] i = 24 -> CopyF(x) [] i = 25 -> RangeSl(x) [] i = 26 -> RangeStr(x) [] i = 27 -> SubstrF(x) [] i = 28 -> BoolSl(x) [] i = 29 -> SlFn(x) [] i = 30 -> GlobSl(x)
             [] i = 31 -> EffArith(x) [] i = 32 -> EffLogic(x) [] i = 33 -> EffIf(x) [] i = 34 -> EffLoop(x) [] i = 35 -> EffArgs(x) [] i = 36 -> EffSwitch(x)
             [] i = 37 -> Files(x) [] i = 38 -> FilesFn(x) [] i = 39 -> Cmd(x) [] i = 40 -> Pipe(x)
NF == Len(Names)

\* ---- compositions -----------------------------------------------------------------------------------------------------------
Modes == {"seq", "fn", "loop3", "while", "range", "branch", "case", "cross"}
Compose(mode, a, b) ==
  LET pre == a.pre \o b.pre IN
  CASE mode = "seq"    -> pre \o a.body \o b.body \o <<P(<<S("done")>>)>>
    [] mode = "fn"     -> pre \o <<Func("run", <<>>, <<>>, a.body \o b.body), ExprS(CallE("run", <<>>)), P(<<S("again")>>), ExprS(CallE("run", <<>>))>>
    [] mode = "loop3"  -> pre \o <<For3(Def1("zq", N(0)), CmpE("<", V("zq"), N(2)), Inc("zq"), a.body \o b.body), P(<<S("done")>>)>>
    [] mode = "while"  -> pre \o <<Def1("zq", N(0)), ForCond(CmpE("<", V("zq"), N(2)), a.body \o <<Inc("zq")>> \o b.body), P(<<S("done"), V("zq")>>)>>
    [] mode = "range"  -> pre \o <<RangeS("zi", "zv", SliceLit("string", <<S("r1"), S("r2")>>), <<P(<<V("zi"), V("zv")>>)>> \o a.body \o b.body)>>
    [] mode = "branch" -> pre \o <<For3(Def1("zq", N(0)), CmpE("<", V("zq"), N(3)), Inc("zq"),
                                       <<If(<<Branch(CmpE("==", V("zq"), N(0)), a.body), Branch(CmpE("==", V("zq"), N(1)), b.body)>>, a.body \o b.body)>>)>>
    [] mode = "case"   -> pre \o <<Func("pick", <<Param("zq", "int")>>, <<>>, <<SwitchAt(V("zq"), <<CaseB(N(0), a.body), CaseB(N(2), <<P(<<S("two")>>)>>)>>, b.body, TRUE, 1)>>),
                                   ExprS(CallE("pick", <<N(0)>>)), ExprS(CallE("pick", <<N(1)>>)), ExprS(CallE("pick", <<N(2)>>)), ExprS(CallE("pick", <<N(0)>>))>>
    [] mode = "cross"  -> pre \o <<Func("fa", <<>>, <<>>, a.body), Func("fb", <<>>, <<>>, <<ExprS(CallE("fa", <<>>))>> \o b.body \o <<ExprS(CallE("fa", <<>>))>>), ExprS(CallE("fb", <<>>)), ExprS(CallE("fa", <<>>))>>

World == [fs |-> <<[path |-> "afile", content |-> "x\n"]>>, stdin |-> <<>>]
PropName(p) == IF p < 10 THEN "C0" \o ToString(p) ELSE "C" \o ToString(p)
MaxP(p, q) == IF p > q THEN p ELSE q
Mk(m, i, j) == LET a == F(i, "a") b == F(j, "b") p == MaxP(a.p, b.p)
                   id == "pairs/" \o PropName(p) \o "/" \o m \o "/" \o Names[i] \o "-" \o Names[j]
               IN IF p >= 17 THEN [id |-> id, prog |-> [body |-> Compose(m, a, b), world |-> World], check |-> <<"fs", "alog">>]
                  ELSE [id |-> id, prog |-> ProgOf(Compose(m, a, b))]
\* a pair of world features is checked for files and commands; one without a world is an ordinary program (C05 takes those as well)
Plain == {Mk(m, i, j) : m \in Modes, i \in 1..36, j \in 1..36}
Worldly == {Mk(m, i, j) : m \in Modes, i \in 1..NF, j \in 37..NF} \cup {Mk(m, i, j) : m \in Modes, i \in 37..NF, j \in 1..36}
ASSUME ndJsonSerialize("fam.ndjson", SetToSeq(Plain) \o SetToSeq(Worldly))
=============================================================================
