SPECIFICATION Spec
INVARIANTS ScriptXorError NeverCrashes
PROPERTY Terminates
