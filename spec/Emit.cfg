SPECIFICATION Spec
INVARIANT Verdict
PROPERTY Monotone
CHECK_DEADLOCK TRUE
