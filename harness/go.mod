module vh

go 1.22.2

require github.com/monstermichl/typeshell v0.0.0

replace github.com/monstermichl/typeshell => /repo
