"""The program pipeline shared by C01-C04, C08-C10, C15, C17, C18: cases (abstract syntax) ->
real transpiler + /bin/bash (vh run) -> trace validation of the recorded run against TshDyn by TLC."""
import json
import os

from vlib import Infra, first_diff, log, read_ndjson, write_ndjson

MAX_CONFIRM = 40


def signature(case, verdict):
    o = case.get("obs", {})
    if not o.get("accepted", False):
        return "rejected: " + o.get("err", "")[:200]
    if o.get("hang"):
        return "hang: the script did not terminate, the specification terminates with status " + verdict["st"]
    parts = []
    if o.get("out") != verdict["out"]:
        parts.append("stdout " + first_diff(verdict["out"], o.get("out", "")))
    if o.get("code") != verdict["code"]:
        parts.append("exit status expected %d observed %s" % (verdict["code"], o.get("code")))
    if not o.get("errEmpty", True):
        parts.append("stderr: " + o.get("stderr", "")[:200].replace("\n", " | "))
    chk = case.get("check", [])
    if "fs" in chk:
        exp = sorted((f["path"], f["content"]) for f in verdict.get("fs", []))
        got = sorted((f["path"], f["content"]) for f in o.get("fs", []))
        if exp != got:
            parts.append("files expected %r observed %r" % (exp[:4], got[:4]))
    if "alog" in chk and verdict.get("alog") != o.get("alog"):
        parts.append("commands expected %s observed %s" % (json.dumps(verdict.get("alog"))[:300], json.dumps(o.get("alog"))[:300]))
    return "; ".join(parts) or "not explained by the specification"


def validate(ctx, cases, tag, width=64, jobs=16, module="TshRun", timeout=2400, hang_s=10):
    """Runs the real pipeline on `cases`, validates with TLC, returns {id: (case, verdict)}."""
    if not cases:
        return {}
    ids = [c["id"] for c in cases]
    if len(set(ids)) != len(ids):
        dup = [i for i in ids if ids.count(i) > 1][:3]
        raise Infra("duplicate case ids in %s: %s" % (tag, dup))
    wd = ctx.sub("run-" + tag)
    p0 = os.path.join(wd, "cases0.ndjson")
    p1 = os.path.join(wd, "cases.ndjson")
    write_ndjson(p0, cases)
    ctx.run_vh("run", p0, p1, os.path.join(wd, "scr"), "-j", jobs, "-scripts", "-timeout", hang_s)
    ran = read_ndjson(p1)
    # TLC does not need the script text
    slim = []
    for c in ran:
        d = {k: v for k, v in c.items() if k not in ("script", "src", "tags", "testExpects", "base")}
        d["obs"] = {k: v for k, v in c["obs"].items() if k not in ("stderr", "err", "sha")}
        slim.append(d)
    p2 = os.path.join(wd, "tlc-cases.ndjson")
    write_ndjson(p2, slim)
    twd = ctx.sub("tlc-" + tag)
    verdicts, st = ctx.tlc(module, workdir=twd, files=[(p2, "cases.ndjson")], constants={"W": str(width)}, timeout=timeout,
                           cover=[("TshDyn", "Step")] if module == "TshRun" else ())
    byid = {v["id"]: v for v in verdicts}
    res = {}
    for c in ran:
        v = byid.get(c["id"])
        if v is None:
            raise Infra("no verdict from TLC for case %s (%s)" % (c["id"], tag))
        res[c["id"]] = (c, v)
    return res


SPELLINGS = ("brackets", "lean", "var", "airy")      # airy: blank and comment lines behind every { and in front of every } / case
SPELL_PROPS = ("C01", "C02", "C03", "C04", "C06", "C07", "C17", "C18")
SPELL_SHARE = {"quick": 5, "thorough": 2}
SPELL_SHARE_STATIC = {"quick": 2, "thorough": 1}    # verdict-only runs are cheap


def respelled(ctx, cases):
    """A sample of the cases once more, each written in another legal spelling (harness/respell.go): redundant brackets, no blanks /
    no optional brackets, `var x = v` for `x := v`.  The specification runs the same program, so the expectation is the same.
    Every case of the sample gets ONE spelling, chosen by a digest of its id; the share is a property of the tier."""
    share = getattr(ctx, "spell_share", 0) or ((SPELL_SHARE_STATIC if ctx.prop in ("C06", "C07") else SPELL_SHARE).get(ctx.tier, 0) if ctx.prop in SPELL_PROPS else 0)
    if not share:
        return []
    import hashlib
    out = []
    for c in cases:
        if "src" in c or c.get("spell") or not isinstance(c.get("prog"), dict) or "@" in c["id"]:
            continue
        h = int(hashlib.sha256((c["id"] + "/" + str(ctx.seed)).encode()).hexdigest()[:8], 16)
        if h % share:
            continue
        d = dict(c)
        d["spell"] = SPELLINGS[(h // share) % len(SPELLINGS)]
        d["id"] = c["id"] + "@" + d["spell"]
        out.append(d)
    return out


def judge(ctx, cases, tag, width=64, require_defined=False):
    """Full flow with isolated confirmation of every rejection.  Returns the list of confirmed failures
    as (case, verdict, signature); counts evaluations/traces/dropped in ctx."""
    extra = respelled(ctx, cases)
    if extra:
        cases = list(cases) + extra
        ctx.notes["respelled_cases"] = ctx.notes.get("respelled_cases", 0) + len(extra)
    res = validate(ctx, cases, tag, width)
    ctx.evaluations += len(res)
    bad = []
    for cid, (c, v) in res.items():
        st = v["st"]
        if st.startswith("undef") or st == "diverge":
            ctx.dropped[st] = ctx.dropped.get(st, 0) + 1
            if require_defined:
                raise Infra("family case %s is outside the defined fragment: %s" % (cid, st))
            continue
        if st.startswith("stuck"):
            raise Infra("specification stuck on case %s: %s\n%s" % (cid, st, c.get("src", "")))
        ctx.traces_validated += 1
        ctx.distinct.add(c.get("src", cid))
        if len(ctx.samples) < 6 and len(c.get("src", "")) < 600:
            ctx.samples.append({"id": cid, "source": c.get("src"), "expected_stdout": v["out"], "expected_status": v["code"],
                                "observed_stdout": c["obs"].get("out"), "accepted_by_spec": v["ok"]})
        if not v["ok"]:
            bad.append(c)
    failures = []
    # failures that match a known finding are listed, not confirmed again
    unknown = []
    for c in bad:
        v = res[c["id"]][1]
        sig = signature(c, v)
        f = ctx.classify(c["id"], sig)
        if f is not None:
            ctx.known.append((f["id"], c["id"]))
        else:
            unknown.append(c)
    bad = unknown
    if len(bad) > MAX_CONFIRM:
        log("%d unexplained rejections; confirming the first %d" % (len(bad), MAX_CONFIRM))
        bad = bad[:MAX_CONFIRM]
    if bad:
        # flake guard: every rejection is reproduced once more, four at a time, before it counts
        # the cases as they were handed in (a case of spec/FamSyn.tla carries its own source text, which must be what is run again)
        orig = {c["id"]: c for c in cases}
        again = [{k: v for k, v in orig[c["id"]].items() if k not in ("obs", "script")} for c in bad]
        res2 = validate_again(ctx, again, tag + "-confirm", width)
        for c in bad:
            c2, v2 = res2[c["id"]]
            if v2["ok"]:
                ctx.dropped["flaky-unconfirmed"] = ctx.dropped.get("flaky-unconfirmed", 0) + 1
                log("unconfirmed rejection (passes alone):", c["id"])
                continue
            failures.append((c2, v2, signature(c2, v2)))
    return failures


def validate_again(ctx, cases, tag, width):
    return validate(ctx, cases, tag, width, jobs=4, hang_s=20)


def payload(prop, c, v, sig):
    return {"property": prop, "case": c["id"], "why": sig, "source": c.get("src"), "script": c.get("script"),
            "expected": {"stdout": v["out"], "status": v["code"], "fs": v.get("fs"), "alog": v.get("alog")},
            "observed": c.get("obs"), "prog": c.get("prog"),
            "reproduce": "write `source` to main.tsh; tsh -i main.tsh -o . -t bash; bash main.sh"}


def report(ctx, failures):
    for c, v, sig in failures:
        ctx.report_failure(c["id"], payload(ctx.prop, c, v, sig), sig)


def generate(ctx, kind, n, extra=()):
    """Direction B: typed random programs from the Go generator, seeded by VERIF_SEED."""
    import vlib
    wd = ctx.sub("gen-" + kind)
    out = os.path.join(wd, "gen.ndjson")
    avoid = ",".join(vlib.avoid_tags())
    ctx.run_vh("gen", kind, n, ctx.seed, out, "-avoid", avoid, *extra)
    return read_ndjson(out)


def scale_cases(ctx, prop):
    """spec/FamScale.tla: the cases beyond the small scope that belong to one property (ids scale/<property>/...)"""
    fam = ctx.tlc_family("FamScale", constants={"Tier": '"%s"' % ctx.tier}, timeout=3000)
    return [c for c in fam if c["id"].startswith("scale/%s/" % prop)]


def pair_cases(ctx, prop=None):
    """spec/FamPairs.tla: every ordered pair of feature snippets in every composition mode (ids pairs/<property>/<mode>/<A>-<B>);
    with `prop` only the pairs whose highest property is `prop`."""
    fam = ctx.tlc_family("FamPairs", constants={"Tier": '"%s"' % ctx.tier}, timeout=3000)
    if prop is None:
        return fam
    return [c for c in fam if c["id"].startswith("pairs/%s/" % prop)]


def skel_cases(ctx):
    """spec/FamSkel.tla: every control skeleton of up to 2 (thorough: 3) constructs, nested and sequenced in every way, with no jump or one break /
    continue at the end of any one block inside a loop (ids skel/<size>/<jump>/<top|func>/<structure code>)"""
    return ctx.tlc_family("FamSkel", constants={"Tier": '"%s"' % ctx.tier}, timeout=3000)


def hist_cases(ctx, part=None):
    """spec/FamHist.tla: run-time histories - one function called with every sequence of arguments, a loop entered again after every pattern of
    breaks / continues, six-iteration loops (ids hist/<calls|loops|loopsfn|iter>/...)"""
    fam = ctx.tlc_family("FamHist", constants={"Tier": '"%s"' % ctx.tier}, timeout=3000)
    return [c for c in fam if part is None or c["id"].split("/")[1] in part]


def syn_cases(ctx, prop):
    """spec/FamSyn.tla: legal spellings the renderer never produces (the case carries the source text to run and the program it must mean)"""
    return [c for c in ctx.tlc_family("FamSyn", constants={"Tier": '"%s"' % ctx.tier}) if c["id"].startswith("syn/%s/" % prop)]
