------------------------------ MODULE FamSkel -------------------------------
(* Direction-A family "every control skeleton up to a size": ALL trees of N control constructs (if, if-else, if / else-if /  *)
(* else, switch with default, three-part loop, condition-only loop, endless loop left by break, range loop), nested and      *)
(* sequenced in every way (a block holds up to two constructs), with no jump or with exactly ONE break / continue as the     *)
(* last statement of any one block that lies inside a loop.  This is the space property C05 quantifies over ("every nesting  *)
(* and sequencing of loops and conditionals (label allocation)") enumerated instead of sampled: the hand-written shape       *)
(* families (nest2, seq2, outerjump, jumpsite, guardtail ...) are sub-families of it.  Every block prints its path, every    *)
(* construct prints when it is left, a global tick counter advanced by every loop iteration decides the conditions, so that   *)
(* different iterations take different branches and stdout is the complete control-flow trace.                               *)
(* Ids: skel/<size>/<none|break|continue>/<top|func>/<structure code>; C01 runs them under bash, C05 under the cmd.exe model, *)
(* C16 traces them through Emit.                                                                                            *)
EXTENDS TshAst
CONSTANT Tier
Quick == Tier = "quick"
N(i) == NatLit(i)
V(n) == Var(n)
Kinds == <<"if", "ifelse", "elif", "switch", "for3", "while", "forever", "range">>
Short == [if |-> "i", ifelse |-> "e", elif |-> "c", switch |-> "s", for3 |-> "f", while |-> "w", forever |-> "o", range |-> "r"]
Arity(k) == IF k \in {"ifelse", "switch"} THEN 2 ELSE IF k = "elif" THEN 3 ELSE 1
IsLoop(k) == k \in {"for3", "while", "forever", "range"}
Cond(p) == CmpE("==", Bin("%", V("t"), N(2)), N(Len(p) % 2))
Cond2(p) == CmpE("==", Bin("%", V("t"), N(3)), N(1))
Tick == Inc("t")
\* the statements of one construct of kind k at path p whose blocks are bs (sequences of statements)
Build(k, p, bs) ==
  LET c == "i" \o p IN
  (CASE k = "if"      -> <<If1(Cond(p), bs[1])>>
     [] k = "ifelse"  -> <<IfElse(Cond(p), bs[1], bs[2])>>
     [] k = "elif"    -> <<If(<<Branch(Cond(p), bs[1]), Branch(Cond2(p), bs[2])>>, bs[3])>>
     [] k = "switch"  -> <<Switch(Bin("%", V("t"), N(3)), <<CaseB(N(Len(p) % 3), bs[1]), CaseB(N(7), <<Print1(StrL("never"))>>)>>, bs[2], TRUE)>>
     [] k = "for3"    -> <<For3(Def1(c, N(0)), CmpE("<", V(c), N(2)), Inc(c), <<Tick>> \o bs[1])>>
     [] k = "while"   -> <<Def1(c, N(0)), ForCond(CmpE("<", V(c), N(2)), <<Inc(c), Tick>> \o bs[1])>>
     [] k = "forever" -> <<Def1(c, N(0)), ForInf(<<Inc(c), Tick, If1(CmpE(">", V(c), N(2)), <<BreakS>>)>> \o bs[1])>>
     [] k = "range"   -> <<RangeS(c, "", SliceLit("int", <<N(7), N(8)>>), <<Tick>> \o bs[1])>>)
  \o <<PrintS(<<StrL("left " \o p), V("t")>>)>>

Letters == <<"a", "b", "c">>
\* Blk(n, p, L, J, jk): the blocks with exactly n constructs at path p, inside a loop or not (L), holding exactly J (0 / 1) jumps of kind jk; a block
\* is [c |-> structure code, b |-> statements]
RECURSIVE Blk(_, _, _, _, _), Kids(_, _, _, _, _), Nd(_, _, _, _, _), Dist(_, _, _, _, _, _, _)
Kids(n, p, L, J, jk) ==
  (IF n = 0 /\ J = 0 THEN {[c |-> "", b |-> <<>>]} ELSE {})
  \cup (IF n >= 1 THEN Nd(n, p \o "a", L, J, jk) ELSE {})
  \cup UNION {UNION {{[c |-> x.c \o y.c, b |-> x.b \o y.b] : x \in Nd(a, p \o "a", L, J1, jk), y \in Nd(n - a, p \o "b", L, J - J1, jk)} : J1 \in 0..J} : a \in 1..(n - 1)}
Blk(n, p, L, J, jk) ==
  {[c |-> "(" \o k.c \o ")", b |-> <<Print1(StrL(p))>> \o k.b] : k \in Kids(n, p, L, J, jk)}
  \cup (IF J = 1 /\ L THEN {[c |-> "(" \o k.c \o "!)", b |-> <<Print1(StrL(p))>> \o k.b \o <<IF jk = "break" THEN BreakS ELSE ContinueS>>] : k \in Kids(n, p, L, 0, jk)} ELSE {})
\* Dist(n, ar, i, p, L, J, jk): sequences of blocks i..ar of one construct sharing n constructs and J jumps
Dist(n, ar, i, p, L, J, jk) ==
  IF i = ar THEN {<<x>> : x \in Blk(n, p \o Letters[i], L, J, jk)}
  ELSE UNION {UNION {{<<x>> \o rest : x \in Blk(a, p \o Letters[i], L, J1, jk), rest \in Dist(n - a, ar, i + 1, p, L, J - J1, jk)} : J1 \in 0..J} : a \in 0..n}
Nd(n, p, L, J, jk) ==
  UNION {{[c |-> Short[Kinds[ki]] \o JoinS([i \in 1..Len(bs) |-> bs[i].c], ""), b |-> Build(Kinds[ki], p, [i \in 1..Len(bs) |-> bs[i].b])]
          : bs \in Dist(n - 1, Arity(Kinds[ki]), 1, p, L \/ IsLoop(Kinds[ki]), J, jk)} : ki \in 1..Len(Kinds)}

Wrap(mode, b) == IF mode = "top" THEN <<Def1("t", N(0))>> \o b \o <<PrintS(<<StrL("end"), V("t")>>)>>
                 ELSE <<Def1("t", N(0)), Func("run", <<>>, <<>>, b), ExprS(CallE("run", <<>>)), PrintS(<<StrL("again"), V("t")>>), ExprS(CallE("run", <<>>)), PrintS(<<StrL("end"), V("t")>>)>>
Sizes == IF Quick THEN {1, 2} ELSE {1, 2, 3}
Cases == UNION {{CaseOf("skel/" \o ToString(n) \o "/none/" \o m \o "/" \o x.c, Wrap(m, x.b)) : x \in Blk(n, "z", FALSE, 0, "break")} : n \in Sizes, m \in {"top", "func"}}
         \cup UNION {{CaseOf("skel/" \o ToString(n) \o "/" \o jk \o "/" \o m \o "/" \o x.c, Wrap(m, x.b)) : x \in Blk(n, "z", FALSE, 1, jk)} : n \in Sizes, m \in {"top", "func"}, jk \in {"break", "continue"}}
ASSUME ndJsonSerialize("fam.ndjson", SetToSeq(Cases))
=============================================================================
