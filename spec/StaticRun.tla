------------------------------ MODULE StaticRun ------------------------------
(* Trace validation for C06/C07: the verdict the real transpiler gave for a program (accepted with a script, or *)
(* rejected with an error and no script - recorded for both targets by `vh outcome`) must be the verdict of the  *)
(* static semantics spec/TshStatic.tla, identically for Bash and Batch.                                          *)
EXTENDS TshStatic, Json
Cases == ndJsonDeserialize("cases.ndjson")
VARIABLE ci
Init == ci \in 1..Len(Cases)
Next == UNCHANGED ci
Spec == Init /\ [][Next]_ci
Case == Cases[ci]
Obs == Case.obs                                        \* [bash |-> "A" | "R" | "P", batch |-> ...]
Rule == IF "expect" \in DOMAIN Case THEN (IF Case.expect = "reject" THEN "!stated-by-the-family" ELSE "") ELSE Check(Case.prog.body)
Unspec == Len(Rule) > 0 /\ SubSeq(Rule, 1, 1) = "?"
Expected == IF Rule = "" THEN "A" ELSE "R"
Verdict == PrintT(ToJson([id |-> Case.id, rule |-> Rule, unspec |-> Unspec, expected |-> Expected,
                          ok |-> (Unspec \/ (Obs.bash = Expected /\ Obs.batch = Expected))]))
=============================================================================
