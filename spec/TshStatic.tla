------------------------------ MODULE TshStatic ------------------------------
(***************************************************************************)
(* Static semantics of TypeShell (DESIGN.md 3.2, Appendix E): typing and   *)
(* scoping rules written as rules, not as a copy of parser.go.             *)
(*   Check(body)  = ""            the program is accepted                  *)
(*                = "!<rule>"     the program is rejected by <rule>        *)
(*                = "?<what>"     the program uses something the           *)
(*                                properties leave unspecified: not        *)
(*                                compared                                 *)
(* Types: int bool string []int []bool []string ("error" = string); the    *)
(* pseudo types "void" (a call without results) and "multi" (several       *)
(* results) are never legal operands.                                       *)
(***************************************************************************)
EXTENDS Integers, Sequences, FiniteSets, TLC

IsErr(t) == Len(t) > 0 /\ SubSeq(t, 1, 1) \in {"!", "?"}
Norm(ty) == IF ty = "error" THEN "string" ELSE IF ty = "[]error" THEN "[]string" ELSE ty
IsSlice(ty) == Len(ty) > 2 /\ SubSeq(ty, 1, 2) = "[]"
Elem(ty) == SubSeq(ty, 3, Len(ty))
Scalar(ty) == ty \in {"int", "bool", "string"}
IsNoneN(n) == n.k = "none"

\* context: vars (name -> type) visible here, globals (names of true globals), funcs (name -> [params, results]),
\* scopes (sequence of "func" | "if" | "for" | "switch" from the outside in), results (of the enclosing function)
\* here (names defined in the innermost block so far)
EmptyCtx == [vars |-> <<>>, globals |-> {}, funcs |-> <<>>, scopes |-> <<>>, results |-> <<>>, here |-> {}]
InScope(ctx, s) == \E i \in 1..Len(ctx.scopes) : ctx.scopes[i] = s
TopLevel(ctx) == ctx.scopes = <<>>
Visible(ctx, name) == name \in DOMAIN ctx.vars
Bind(ctx, name, ty) == [ctx EXCEPT !.vars = (name :> ty) @@ @, !.here = @ \cup {name},
                                   !.globals = IF TopLevel(ctx) THEN @ \cup {name} ELSE @]
Enter(ctx, s) == [ctx EXCEPT !.scopes = Append(@, s), !.here = {}]

RECURSIVE TypeOf(_, _), TypesOf(_, _, _), FirstErr(_, _)
FirstErr(ts, i) == IF i > Len(ts) THEN "" ELSE IF IsErr(ts[i]) THEN ts[i] ELSE FirstErr(ts, i + 1)
TypesOf(es, ctx, i) == IF i > Len(es) THEN <<>> ELSE <<TypeOf(es[i], ctx)>> \o TypesOf(es, ctx, i + 1)
Single(t) == IF IsErr(t) THEN t ELSE IF t = "void" THEN "!no-value-used-as-value" ELSE IF t = "multi" THEN "!multi-value-used-as-value" ELSE t
\* the type of an operand: exactly one value
Opnd(e, ctx) == Single(TypeOf(e, ctx))
Expect(e, ctx, ty, rule) == LET t == Opnd(e, ctx) IN IF IsErr(t) THEN t ELSE IF t = ty THEN "" ELSE "!" \o rule

TypeOf(e, ctx) ==
  CASE e.k = "int" -> "int"
    [] e.k = "bool" -> "bool"
    [] e.k \in {"str", "nil"} -> "string"
    [] e.k = "zero" -> Norm(e.ty)
    [] e.k = "var" -> (IF Visible(ctx, e.name) THEN ctx.vars[e.name] ELSE "!undefined-variable")
    [] e.k = "group" -> Opnd(e.e, ctx)
    [] e.k = "not" -> (LET t == Opnd(e.e, ctx) IN IF IsErr(t) THEN t ELSE IF t = "bool" THEN "bool" ELSE "!not-operand")
    [] e.k = "bin" -> (LET l == Opnd(e.l, ctx)
                           r == Opnd(e.r, ctx)
                       IN IF IsErr(l) THEN l ELSE IF IsErr(r) THEN r
                          ELSE IF l # r THEN "!binary-operand-types-differ"
                          ELSE IF l = "int" THEN "int"
                          ELSE IF l = "string" /\ e.op = "+" THEN "string"
                          ELSE "!binary-operator-not-defined-on-type")
    [] e.k = "cmp" -> (LET l == Opnd(e.l, ctx)
                           r == Opnd(e.r, ctx)
                       IN IF IsErr(l) THEN l ELSE IF IsErr(r) THEN r
                          ELSE IF l # r THEN "!comparison-operand-types-differ"
                          ELSE IF IsSlice(l) THEN "!comparison-of-slices"
                          ELSE IF e.op \in {"==", "!="} THEN "bool"
                          ELSE IF l = "int" THEN "bool"
                          ELSE IF l = "string" THEN "?string-ordering"
                          ELSE "!ordering-of-bool")
    [] e.k = "logic" -> (LET l == Opnd(e.l, ctx)
                             r == Opnd(e.r, ctx)
                         IN IF IsErr(l) THEN l ELSE IF IsErr(r) THEN r
                            ELSE IF l = "bool" /\ r = "bool" THEN "bool" ELSE "!logical-operand")
    [] e.k = "call" -> (IF e.name \notin DOMAIN ctx.funcs THEN "!undefined-function"
                        ELSE LET f == ctx.funcs[e.name]
                                 ts == [i \in 1..Len(e.args) |-> Opnd(e.args[i], ctx)]
                             IN IF FirstErr(ts, 1) # "" THEN FirstErr(ts, 1)
                                ELSE IF Len(ts) # Len(f.params) THEN "!argument-count"
                                ELSE IF \E i \in 1..Len(ts) : ts[i] # f.params[i] THEN "!argument-type"
                                ELSE IF Len(f.results) = 0 THEN "void" ELSE IF Len(f.results) = 1 THEN f.results[1] ELSE "multi")
    [] e.k = "slicelit" -> (LET ts == [i \in 1..Len(e.elems) |-> Opnd(e.elems[i], ctx)]
                            IN IF FirstErr(ts, 1) # "" THEN FirstErr(ts, 1)
                               ELSE IF \E i \in 1..Len(ts) : ts[i] # Norm(e.ty) THEN "!slice-element-type"
                               ELSE "[]" \o Norm(e.ty))
    [] e.k = "index" -> (LET x == Opnd(e.x, ctx)
                             i == Opnd(e.i, ctx)
                         IN IF IsErr(x) THEN x ELSE IF IsErr(i) THEN i
                            ELSE IF i # "int" THEN "!index-type"
                            ELSE IF x = "string" THEN "string" ELSE IF IsSlice(x) THEN Elem(x) ELSE "!subscript-of-non-sequence")
    [] e.k = "substr" -> (LET x == Opnd(e.x, ctx)
                              lo == IF IsNoneN(e.lo) THEN "int" ELSE Opnd(e.lo, ctx)
                              hi == IF IsNoneN(e.hi) THEN "int" ELSE Opnd(e.hi, ctx)
                          IN IF IsErr(x) THEN x ELSE IF IsErr(lo) THEN lo ELSE IF IsErr(hi) THEN hi
                             ELSE IF lo # "int" \/ hi # "int" THEN "!index-type"
                             ELSE IF x = "string" THEN "string" ELSE "!range-subscript-of-non-string")
    [] e.k = "len" -> (LET t == Opnd(e.e, ctx) IN IF IsErr(t) THEN t ELSE IF t = "string" \/ IsSlice(t) THEN "int" ELSE "!len-argument")
    [] e.k = "itoa" -> (LET t == Opnd(e.e, ctx) IN IF IsErr(t) THEN t ELSE IF t = "int" THEN "string" ELSE "!itoa-argument")
    [] e.k = "exists" -> (LET t == Opnd(e.e, ctx) IN IF IsErr(t) THEN t ELSE IF t = "string" THEN "bool" ELSE "!exists-argument")
    [] e.k = "read" -> (LET t == Opnd(e.e, ctx) IN IF IsErr(t) THEN t ELSE IF t = "string" THEN "string" ELSE "!read-argument")
    [] e.k = "input" -> (IF IsNoneN(e.prompt) THEN "string"
                         ELSE LET t == Opnd(e.prompt, ctx) IN IF IsErr(t) THEN t ELSE IF t = "string" THEN "string" ELSE "!input-argument")
    [] e.k = "copy" -> (LET s == Opnd(e.src, ctx) IN
                        IF ~Visible(ctx, e.dst) THEN "!undefined-variable"
                        ELSE IF IsErr(s) THEN s
                        ELSE IF ~IsSlice(ctx.vars[e.dst]) \/ ~IsSlice(s) THEN "!copy-argument"
                        ELSE IF ctx.vars[e.dst] # s THEN "!copy-element-types-differ" ELSE "int")
    [] e.k = "app" -> "multi"
    [] OTHER -> "?unknown-expression"

RECURSIVE Unwrap(_)
Unwrap(e) == IF e.k = "group" THEN Unwrap(e.e) ELSE e
\* types delivered by a list of values: one multi-valued call alone, or single values
ValueTypes(vals, ctx) ==
  IF Len(vals) = 1 /\ vals[1].k = "call" /\ TypeOf(vals[1], ctx) = "multi" THEN ctx.funcs[vals[1].name].results
  ELSE IF Len(vals) = 1 /\ vals[1].k = "group" /\ Unwrap(vals[1]).k = "call" /\ TypeOf(Unwrap(vals[1]), ctx) = "multi" THEN <<"?parenthesised-multi-valued-call">>
  ELSE IF Len(vals) = 1 /\ vals[1].k = "group" /\ Unwrap(vals[1]).k = "app" THEN <<"?parenthesised-multi-valued-call">>
  ELSE IF Len(vals) = 1 /\ vals[1].k = "app" THEN <<"string", "string", "int">>
  ELSE [i \in 1..Len(vals) |-> Opnd(vals[i], ctx)]

R(err, ctx) == [err |-> err, ctx |-> ctx]
Ok(ctx) == R("", ctx)
AllowedOp(ty, op) == (ty = "int") \/ (ty = "string" /\ op = "+")
RECURSIVE BindAll(_, _, _, _)
BindAll(ctx, names, tys, i) == IF i > Len(names) THEN ctx ELSE BindAll(Bind(ctx, names[i], tys[i]), names, tys, i + 1)
Distinct(s) == Cardinality({s[i] : i \in 1..Len(s)}) = Len(s)

RECURSIVE CheckStmt(_, _), CheckBlock(_, _, _), CheckBody(_, _, _)
\* a block is checked in a copy of the context; what it defines is discarded at its end (C07)
CheckBlock(ss, ctx, i) == IF i > Len(ss) THEN "" ELSE LET r == CheckStmt(ss[i], ctx) IN IF r.err # "" THEN r.err ELSE CheckBlock(ss, r.ctx, i + 1)
CheckBody(ss, ctx, i) == IF i > Len(ss) THEN Ok(ctx) ELSE LET r == CheckStmt(ss[i], ctx) IN IF r.err # "" THEN r ELSE CheckBody(ss, r.ctx, i + 1)

CheckDefine(s, ctx) ==
  LET names == s.names
      new == {i \in 1..Len(names) : ~Visible(ctx, names[i])}
      \* inside a function a short definition that introduces at least one new name declares ALL its names in the function's scope: a name that so far
      \* denoted a global becomes a new local (Go: := only reuses variables declared in the same scope)
      shadow == {i \in 1..Len(names) : Visible(ctx, names[i]) /\ s.form = "short" /\ ~TopLevel(ctx) /\ names[i] \in ctx.globals}
      Local(c) == [c EXCEPT !.globals = @ \ {names[i] : i \in shadow}]
  IN IF ~Distinct(names) THEN R("?duplicate-names-in-one-definition", ctx)
     ELSE IF s.values = <<>>
     THEN (IF s.form # "var" \/ s.ty = "" THEN R("!definition-without-type-or-value", ctx)
           ELSE IF Cardinality(new) # Len(names) THEN R("!redefinition", ctx)
           ELSE Ok(BindAll(ctx, names, [i \in 1..Len(names) |-> Norm(s.ty)], 1)))
     ELSE LET ts == ValueTypes(s.values, ctx) IN
          IF FirstErr(ts, 1) # "" THEN R(FirstErr(ts, 1), ctx)
          ELSE IF Len(ts) # Len(names) THEN R("!value-count", ctx)
          ELSE IF s.form = "var" /\ Cardinality(new) # Len(names) THEN R("!redefinition", ctx)
          ELSE IF new = {} /\ shadow # {} /\ Len(names) > 1 THEN R("?short-definition-of-globals-only-in-a-function", ctx)
          \* TshDyn keeps one frame per activation, not per block: a global shadowed only inside a nested block is outside what it can state
          ELSE IF new # {} /\ shadow # {} /\ ctx.scopes # <<"func">> THEN R("?global-shadowed-in-a-nested-block", ctx)
          \* x, y := ... where x was defined in an ENCLOSING block: Go declares a new x for the rest of the inner block, the tree assigns the outer x;
          \* "no shadowing" (DESIGN.md 6.1) says neither, so the case is not compared
          ELSE IF s.form = "short" /\ \E i \in 1..Len(names) : i \notin new /\ i \notin shadow /\ names[i] \notin ctx.here THEN R("?partial-redefinition-of-a-name-from-an-enclosing-block", ctx)
          ELSE IF new = {} THEN R("!no-new-variable", ctx)
          ELSE IF Len(names) = 1 /\ Cardinality(new) = 0 THEN R("!redefinition", ctx)
          ELSE IF s.ty # "" /\ \E i \in 1..Len(ts) : ts[i] # Norm(s.ty) THEN R("!definition-type", ctx)
          ELSE IF \E i \in 1..Len(names) : i \notin new /\ i \notin shadow /\ ctx.vars[names[i]] # ts[i] THEN R("!assignment-type", ctx)
          ELSE Ok(BindAll(Local(ctx), names, ts, 1))
CheckAssign(s, ctx) ==
  LET ts == ValueTypes(s.values, ctx) IN
  IF \E i \in 1..Len(s.names) : ~Visible(ctx, s.names[i]) THEN R("!undefined-variable", ctx)
  ELSE IF FirstErr(ts, 1) # "" THEN R(FirstErr(ts, 1), ctx)
  ELSE IF Len(ts) # Len(s.names) THEN R("!value-count", ctx)
  ELSE IF \E i \in 1..Len(ts) : ctx.vars[s.names[i]] # ts[i] THEN R("!assignment-type", ctx)
  ELSE Ok(ctx)

FuncSig(s) == [params |-> [i \in 1..Len(s.params) |-> Norm(s.params[i].ty)], results |-> [i \in 1..Len(s.results) |-> Norm(s.results[i])]]
CheckFunc(s, ctx) ==
  IF ~TopLevel(ctx) THEN R("!function-below-top-level", ctx)
  ELSE IF s.name \in DOMAIN ctx.funcs THEN R("!function-redefined", ctx)
  ELSE LET pn == [i \in 1..Len(s.params) |-> s.params[i].name]
           \* a function body sees the globals defined before it, never block-local or later names
           gctx == [ctx EXCEPT !.vars = [n \in ctx.globals |-> ctx.vars[n]], !.scopes = <<"func">>, !.results = FuncSig(s).results, !.here = {}]
       IN IF ~Distinct(pn) THEN R("!parameter-redefined", ctx)
          ELSE IF \E i \in 1..Len(pn) : pn[i] \in ctx.globals THEN R("!parameter-redefines-global", ctx)
          ELSE LET bctx == BindAll(gctx, pn, FuncSig(s).params, 1)
                   err == CheckBlock(s.body, bctx, 1)
               IN IF err # "" THEN R(err, ctx)
                  ELSE IF Len(s.results) > 0 /\ (s.body = <<>> \/ s.body[Len(s.body)].k # "return") THEN R("!missing-return", ctx)
                  ELSE Ok([ctx EXCEPT !.funcs = (s.name :> FuncSig(s)) @@ @])

CheckStmt(s, ctx) ==
  CASE s.k = "define" -> CheckDefine(s, ctx)
    [] s.k = "assign" -> CheckAssign(s, ctx)
    [] s.k = "compound" -> (IF ~Visible(ctx, s.name) THEN R("!undefined-variable", ctx)
                            ELSE LET t == Opnd(s.value, ctx) IN
                                 IF IsErr(t) THEN R(t, ctx)
                                 ELSE IF t # ctx.vars[s.name] THEN R("!assignment-type", ctx)
                                 ELSE IF ~AllowedOp(t, s.op) THEN R("!compound-operator-not-defined-on-type", ctx) ELSE Ok(ctx))
    [] s.k = "incdec" -> (IF ~Visible(ctx, s.name) THEN R("!undefined-variable", ctx)
                          ELSE IF ctx.vars[s.name] # "int" THEN R("!increment-of-non-int", ctx) ELSE Ok(ctx))
    [] s.k = "setidx" -> (IF ~Visible(ctx, s.name) THEN R("!undefined-variable", ctx)
                          ELSE LET i == Opnd(s.i, ctx)
                                   v == Opnd(s.v, ctx)
                               IN IF ~IsSlice(ctx.vars[s.name]) THEN R("!index-assignment-to-non-slice", ctx)
                                  ELSE IF IsErr(i) THEN R(i, ctx) ELSE IF IsErr(v) THEN R(v, ctx)
                                  ELSE IF i # "int" THEN R("!index-type", ctx)
                                  ELSE IF v # Elem(ctx.vars[s.name]) THEN R("!slice-element-type", ctx) ELSE Ok(ctx))
    [] s.k = "if" -> (LET cs == [i \in 1..Len(s.branches) |-> Expect(s.branches[i].cond, ctx, "bool", "condition-type")]
                          bs == [i \in 1..Len(s.branches) |-> CheckBlock(s.branches[i].body, Enter(ctx, "if"), 1)]
                          e == CheckBlock(s.else, Enter(ctx, "if"), 1)
                          \* conditions and bodies are checked in source order: cond1 body1 cond2 body2 ... else
                          all == [i \in 1..(2 * Len(s.branches)) |-> IF i % 2 = 1 THEN cs[(i + 1) \div 2] ELSE bs[i \div 2]] \o <<e>>
                          bad == {i \in 1..Len(all) : all[i] # ""}
                      IN IF bad = {} THEN Ok(ctx) ELSE R(all[CHOOSE i \in bad : \A j \in bad : i <= j], ctx))
    [] s.k = "switch" -> (LET tt == IF IsNoneN(s.tag) THEN "bool" ELSE Opnd(s.tag, ctx)
                              cs == [i \in 1..Len(s.cases) |-> Expect(s.cases[i].e, ctx, tt, "case-type")]
                              bs == [i \in 1..Len(s.cases) |-> CheckBlock(s.cases[i].body, Enter(ctx, "switch"), 1)]
                              d == CheckBlock(s.default, Enter(ctx, "switch"), 1)
                              all == [i \in 1..(2 * Len(s.cases)) |-> IF i % 2 = 1 THEN cs[(i + 1) \div 2] ELSE bs[i \div 2]] \o <<d>>
                              bad == {i \in 1..Len(all) : all[i] # ""}
                          IN IF IsErr(tt) THEN R(tt, ctx)
                             ELSE IF IsSlice(tt) THEN R("!switch-on-slice", ctx)
                             ELSE IF bad = {} THEN Ok(ctx) ELSE R(all[CHOOSE i \in bad : \A j \in bad : i <= j], ctx))
    [] s.k = "for" -> (LET r0 == IF IsNoneN(s.init) THEN Ok(Enter(ctx, "for")) ELSE CheckStmt(s.init, Enter(ctx, "for"))
                           c == IF IsNoneN(s.cond) THEN "" ELSE Expect(s.cond, r0.ctx, "bool", "condition-type")
                           p == IF IsNoneN(s.post) THEN "" ELSE CheckStmt(s.post, r0.ctx).err
                       IN IF r0.err # "" THEN R(r0.err, ctx) ELSE IF c # "" THEN R(c, ctx) ELSE IF p # "" THEN R(p, ctx)
                          ELSE LET b == CheckBlock(s.body, [r0.ctx EXCEPT !.here = {}], 1) IN IF b # "" THEN R(b, ctx) ELSE Ok(ctx))
    [] s.k = "range" -> (LET x == Opnd(s.x, ctx) IN
                         IF Visible(ctx, s.i) \/ (s.v # "" /\ (Visible(ctx, s.v) \/ s.v = s.i)) THEN R("!redefinition", ctx)
                         ELSE IF IsErr(x) THEN R(x, ctx)
                         ELSE IF ~(x = "string" \/ IsSlice(x)) THEN R("!range-over-non-sequence", ctx)
                         ELSE LET c1 == Bind(Enter(ctx, "for"), s.i, "int")
                                  c2 == IF s.v = "" THEN c1 ELSE Bind(c1, s.v, IF x = "string" THEN "string" ELSE Elem(x))
                                  b == CheckBlock(s.body, [c2 EXCEPT !.here = {}], 1)
                              IN IF b # "" THEN R(b, ctx) ELSE Ok(ctx))
    \* C07: break outside a loop is rejected - a switch alone is not a loop (break in a switch inside a loop is accepted, its meaning unspecified)
    [] s.k = "break" -> (IF InScope(ctx, "for") THEN Ok(ctx) ELSE R("!break-outside-loop", ctx))
    [] s.k = "continue" -> (IF InScope(ctx, "for") THEN Ok(ctx) ELSE R("!continue-outside-loop", ctx))
    [] s.k = "return" -> (IF ~InScope(ctx, "func") THEN R("!return-outside-function", ctx)
                          ELSE LET ts == ValueTypes(s.values, ctx) IN        \* return f() forwards all results of f
                               IF FirstErr(ts, 1) # "" THEN R(FirstErr(ts, 1), ctx)
                               ELSE IF Len(ts) # Len(ctx.results) THEN R("!return-count", ctx)
                               ELSE IF \E i \in 1..Len(ts) : ts[i] # ctx.results[i] THEN R("!return-type", ctx)
                               ELSE IF ts = <<>> THEN R("?bare-return", ctx) ELSE Ok(ctx))
    [] s.k = "print" -> (LET ts == [i \in 1..Len(s.args) |-> Opnd(s.args[i], ctx)] IN
                         IF Len(s.args) = 1 /\ TypeOf(Unwrap(s.args[1]), ctx) = "multi" THEN R("?print-of-multi-valued-call", ctx)   \* f(g()) is legal Go
                         ELSE IF FirstErr(ts, 1) # "" THEN R(FirstErr(ts, 1), ctx)
                         ELSE IF \E i \in 1..Len(ts) : IsSlice(ts[i]) THEN R("?print-of-slice", ctx) ELSE Ok(ctx))
    [] s.k = "panic" -> (LET t == Opnd(s.e, ctx) IN IF IsErr(t) THEN R(t, ctx) ELSE IF t # "string" THEN R("?panic-argument-type", ctx) ELSE Ok(ctx))
    [] s.k = "write" -> (LET p == Expect(s.path, ctx, "string", "write-path-type")
                             d == Expect(s.data, ctx, "string", "write-data-type")
                             a == IF IsNoneN(s.append) THEN "" ELSE Expect(s.append, ctx, "bool", "write-append-type")
                         IN IF p # "" THEN R(p, ctx) ELSE IF d # "" THEN R(d, ctx) ELSE IF a # "" THEN R(a, ctx) ELSE Ok(ctx))
    [] s.k = "expr" -> (LET t == TypeOf(Unwrap(s.e), ctx) IN
                        IF IsErr(t) THEN R(t, ctx)
                        ELSE IF Unwrap(s.e).k \notin {"call", "app", "copy", "input", "read"} THEN R("?expression-statement-without-effect", ctx) ELSE Ok(ctx))
    [] s.k = "func" -> CheckFunc(s, ctx)
    [] OTHER -> R("?unknown-statement", ctx)

Check(body) == CheckBody(body, EmptyCtx, 1).err
Accepted(body) == Check(body) = ""
Unspecified(body) == LET c == Check(body) IN Len(c) > 0 /\ SubSeq(c, 1, 1) = "?"
=============================================================================
