"""What MANIFEST.json claims.  Edited by hand; lib/mkmanifest.py turns it into MANIFEST.json."""

NOTES = ("Exit codes: 0 held (KNOWN-FINDING lines allowed), 1 VIOLATION, 2 infrastructure (never a verdict). "
         "VERIF_SEED seeds the direction-B generators; the direction-A families are enumerated by TLC and do not depend on it. "
         "Known findings and fixed defects: /verif/KNOWN_FINDINGS.jsonl. Design: /verif/DESIGN.md.")

TRUST = ("Trusted: TLC; the TLA+ specification states the intended semantics (DESIGN.md section 6); the Go harness renders "
         "abstract syntax to text and projects observations faithfully; /bin/bash 5.2 as the interpreter.")

CHECKS = {
    "C01": {
        "text": "TLC enumerates the scalar families of spec/FamC01.tla exhaustively and runs the abstract machine spec/TshDyn.tla "
                "(one action per language rule) over them and over seeded random programs; every run of the real pipeline "
                "(parser, transpiler, Bash converter, /bin/bash) is recorded and validated against the machine by TLC: stdout bytes, "
                "exit status, empty stderr. Machine invariants (never stuck = type soundness within bounds, balanced stacks, "
                "frame isolation) are checked in every visited state.",
        "note": TRUST,
        "technique": "TLA+ abstract machine (TshDyn) + TLC trace validation of real transpile-and-run observations",
    },
}

NOT_APPLICABLE = {}
