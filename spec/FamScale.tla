------------------------------ MODULE FamScale ------------------------------
(* Direction-A family "beyond the small scope": the same constructs as the other families, but with SIZES that cross    *)
(* the boundaries at which names, counters and indices change shape - 9/10/11 (one digit to two), 12, and a few        *)
(* larger ones.  Temporaries, registers, labels, locals and slice storage are all named with a number in both back-     *)
(* ends (_h10 vs _h1, f10_x vs f1_x, _dv10 vs _dv1, %10 vs %1 followed by 0, :_f10 vs :_f1), and strings and slices     *)
(* are indexed with numbers that are handled as text.  Ids start with scale/<property>/ so that every check takes its   *)
(* own part; C05 runs all of them under the cmd.exe model as well.                                                      *)
EXTENDS TshAst
CONSTANT Tier
Quick == Tier = "quick"
N(i) == NatLit(i)
V(n) == Var(n)
L(s) == Print1(StrL(s))
Nm(p, i) == p \o ToString(i)
\* 9/10/11: one digit to two; 13: Go's sort switches algorithm above 12 elements; 16/17, 32/33, 64/65: pools and buffers sized by a power of two
Sizes == IF Quick THEN {9, 10, 11, 13, 17, 33} ELSE {9, 10, 11, 12, 13, 16, 17, 20, 32, 33, 64, 65}
RECURSIVE SumOf(_, _, _)
SumOf(p, i, n) == IF i = n THEN V(Nm(p, i)) ELSE Bin("+", V(Nm(p, i)), SumOf(p, i + 1, n))
RECURSIVE Chain(_, _, _)          \* e1 op (e2 op (e3 ...)) with explicit groups: one temporary per level
Chain(i, n, op) == IF i = n THEN N(i) ELSE Bin(op, N(i), Grp(Chain(i + 1, n, op)))
SeqN(n, F(_)) == [i \in 1..n |-> F(i)]
RECURSIVE Flatten(_)
Flatten(ss) == IF ss = <<>> THEN <<>> ELSE ss[1] \o Flatten(Tail(ss))

\* ---- C01: temporaries, variables, branches, loops ---------------------------------------------------------------------------
Temps(n) == SeqN(n, LAMBDA i : Def1(Nm("t", i), Bin("+", Bin("*", N(i), N(2)), Bin("-", N(i), N(1)))))        \* two or three temporaries each
            \o <<Print1(SumOf("t", 1, n)), PrintS(<<V("t1"), V(Nm("t", n)), CmpE("<", V("t1"), V(Nm("t", n))), Lgc("&&", CmpE(">", V(Nm("t", n)), N(0)), CmpE("!=", V("t1"), V("t2")))>>)>>
Deep(n) == <<Print1(Chain(1, n, "+")), Print1(Chain(1, n, "-")), Def1("d", Chain(1, n, "+")), Print1(Bin("*", V("d"), N(2)))>>
ElseIfs(n, hit) == <<Def1("k", N(hit)), If([i \in 1..n |-> Branch(CmpE("==", V("k"), N(i)), <<PrintS(<<StrL("branch"), N(i)>>)>>)], <<L("none")>>),
                    Switch(V("k"), [i \in 1..n |-> CaseB(N(i), <<PrintS(<<StrL("case"), N(i)>>)>>)], <<L("default")>>, TRUE)>>
SeqLoops(n) == <<Def1("acc", N(0))>> \o SeqN(n, LAMBDA i : For3(Def1(Nm("i", i), N(0)), CmpE("<", V(Nm("i", i)), N(2)), Inc(Nm("i", i)),
                   <<If1(CmpE("==", V(Nm("i", i)), N(1)), <<IF i % 2 = 0 THEN ContinueS ELSE BreakS>>), Compound("acc", "+", N(i))>>)) \o <<Print1(V("acc"))>>
RECURSIVE Nest(_, _)
Nest(d, n) == IF d > n THEN <<Compound("acc", "+", N(1))>>
              ELSE <<For3(Def1(Nm("j", d), N(0)), CmpE("<", V(Nm("j", d)), N(2)), Inc(Nm("j", d)), <<If1(CmpE("==", V(Nm("j", d)), N(0)), Nest(d + 1, n))>> \o <<Compound("acc", "+", N(d))>>)>>
Count(n) == <<Def1("c", N(0)), ForCond(CmpE("<", V("c"), N(n * 10 + 5)), <<Inc("c")>>), Print1(V("c")), Def1("s", StrL("")), For3(Def1("i", N(0)), CmpE("<", V("i"), N(n + 2)), Inc("i"), <<Compound("s", "+", Itoa(V("i")))>>),
            PrintS(<<V("s"), LenE(V("s"))>>)>>
SwitchMid(n, hit, at) == <<Def1("k", N(hit)), SwitchAt(V("k"), [i \in 1..n |-> CaseB(N(i), <<PrintS(<<StrL("case"), N(i)>>)>>)], <<L("default")>>, TRUE, at)>>
C01 == {CaseOf("scale/C01/switchmid/" \o ToString(n) \o "-" \o ToString(h) \o "@" \o ToString(at), SwitchMid(n, h, at)) : n \in Sizes, h \in {1, 99}, at \in {0, 5}} \cup
       {CaseOf("scale/C01/temps/" \o ToString(n), Temps(n)) : n \in Sizes}
       \cup {CaseOf("scale/C01/deep/" \o ToString(n), Deep(n)) : n \in Sizes}
       \cup {CaseOf("scale/C01/elseifs/" \o ToString(n) \o "-" \o ToString(h), ElseIfs(n, h)) : n \in Sizes, h \in {1, 9, 10, 11, 99}}
       \cup {CaseOf("scale/C01/seqloops/" \o ToString(n), SeqLoops(n)) : n \in Sizes}
       \cup {CaseOf("scale/C01/nest/" \o ToString(n), <<Def1("acc", N(0))>> \o Nest(1, n) \o <<Print1(V("acc"))>>) : n \in {4, 5, 6}}
       \cup {CaseOf("scale/C01/count/" \o ToString(n), Count(n)) : n \in Sizes}

\* ---- C02: many functions, parameters, results, call depth ---------------------------------------------------------------
\* fn_i(x) has a local "loc" and calls fn_(i-1): f10_loc vs f1_loc, ten activations alive at once
Fn(i) == Func(Nm("fn", i), <<Param("x", "int")>>, <<"int">>,
              <<Def1("loc", Bin("+", V("x"), N(i)))>> \o (IF i = 1 THEN <<>> ELSE <<Def1("sub", CallE(Nm("fn", i - 1), <<V("loc")>>)), Asg1("loc", Bin("+", V("loc"), V("sub")))>>) \o <<RetS(<<V("loc")>>)>>)
ManyFuncs(n) == SeqN(n, LAMBDA i : Fn(i)) \o <<PrintS(<<CallE(Nm("fn", n), <<N(1)>>), CallE("fn1", <<N(5)>>), CallE(Nm("fn", n - 1), <<N(0)>>)>>)>>
ManyParams(n) == <<Func("wide", [i \in 1..n |-> Param(Nm("p", i), IF i % 3 = 0 THEN "string" ELSE "int")], <<"int", "string">>,
                        <<PrintS([i \in 1..n |-> V(Nm("p", i))]), RetS(<<Bin("+", V("p1"), V(Nm("p", IF n % 3 = 0 THEN n - 1 ELSE n))), Bin("+", V("p3"), V(Nm("p", 3 * (n \div 3))))>>)>>),
                   Def(<<"a", "b">>, <<CallE("wide", [i \in 1..n |-> IF i % 3 = 0 THEN StrL("s" \o ToString(i)) ELSE N(i * 7 + 3)])>>), PrintS(<<V("a"), V("b")>>)>>
ManyResults(n) == <<Func("many", <<>>, [i \in 1..n |-> "int"], <<RetS([i \in 1..n |-> N(i * i)])>>), Def([i \in 1..n |-> Nm("r", i)], <<CallE("many", <<>>)>>), PrintS([i \in 1..n |-> V(Nm("r", i))])>>
RECURSIVE SumCalls(_, _)
SumCalls(i, n) == IF i = n THEN CallE("inc", <<N(i)>>) ELSE Bin("+", CallE("inc", <<N(i)>>), SumCalls(i + 1, n))
ManyCalls(n) == <<Func("inc", <<Param("x", "int")>>, <<"int">>, <<RetS(<<Bin("+", V("x"), N(1))>>)>>)>>
                \o <<Print1(SumCalls(1, n))>>
ManyLocals(n) == <<Func("loc", <<Param("seed", "int")>>, <<"int">>, SeqN(n, LAMBDA i : Def1(Nm("v", i), Bin("+", V(IF i = 1 THEN "seed" ELSE Nm("v", i - 1)), N(i)))) \o <<RetS(<<Bin("-", V(Nm("v", n)), V("v1"))>>)>>),
                   PrintS(<<CallE("loc", <<N(1)>>), CallE("loc", <<N(100)>>)>>)>>
C02 == {CaseOf("scale/C02/funcs/" \o ToString(n), ManyFuncs(n)) : n \in Sizes}
       \cup {CaseOf("scale/C02/params/" \o ToString(n), ManyParams(n)) : n \in Sizes}
       \cup {CaseOf("scale/C02/results/" \o ToString(n), ManyResults(n)) : n \in {3, 4, 5, 9, 10, 11}}
       \cup {CaseOf("scale/C02/calls/" \o ToString(n), ManyCalls(n)) : n \in Sizes}
       \cup {CaseOf("scale/C02/locals/" \o ToString(n), ManyLocals(n)) : n \in Sizes}

\* ---- C03: many slices, long slices, long strings --------------------------------------------------------------------------
Alphabet == "abcdefghijklmnopqrstuvwxyz0123456789ABCDEFGHIJKLMNOPQRSTUVWXYZ-_=+.,:abcdefghijklmnopqrstuvwxyz0123456789ABCDEFGHIJKLMNOPQRSTUVWXYZ"
ManySlices(n) == SeqN(n, LAMBDA i : Def1(Nm("s", i), SliceLit("int", <<N(i), N(i * 2)>>)))
                 \o <<SetIdx("s1", N(0), N(100)), SetIdx(Nm("s", n), N(2), N(7)), SetIdx("s2", N(1), IndexE(V(Nm("s", n)), N(0)))>>
                 \o SeqN(n, LAMBDA i : PrintS(<<LenE(V(Nm("s", i))), IndexE(V(Nm("s", i)), N(0)), IndexE(V(Nm("s", i)), N(1))>>))
BigSlice(n) == <<Def1("s", SliceLit("int", [i \in 1..n |-> N(i * 3)])), SetIdx("s", N(n + 10), N(1)), Def1("t", SliceLit("string", <<>>))>>
               \o <<For3(Def1("i", N(0)), CmpE("<", V("i"), N(n + 2)), Inc("i"), <<SetIdx("t", V("i"), Bin("+", StrL("e"), Itoa(V("i"))))>>),
                    PrintS(<<LenE(V("s")), IndexE(V("s"), N(n - 1)), IndexE(V("s"), N(n)), IndexE(V("s"), N(n + 9)), IndexE(V("s"), N(n + 10)), IndexE(V("s"), N(1)), IndexE(V("s"), N(10))>>),
                    RangeS("k", "e", V("t"), <<PrintS(<<V("k"), V("e")>>)>>), Def1("d", SliceLit("int", <<>>)), PrintS(<<CopyE("d", V("s")), LenE(V("d")), IndexE(V("d"), N(10)), IndexE(V("d"), N(n + 10))>>)>>
LongString(n) == <<Def1("s", StrL(SubSeq(Alphabet, 1, n))), PrintS(<<LenE(V("s")), IndexE(V("s"), N(n - 1)), IndexE(V("s"), N(9)), Substr(V("s"), N(8), N(n - 1)), Substr(V("s"), N(n - 2), NoneN), Substr(V("s"), NoneN, N(n - 1))>>),
                   Def1("c", N(0)), RangeS("i", "ch", V("s"), <<If1(CmpE(">=", V("i"), N(9)), <<Compound("c", "+", N(1))>>)>>), Print1(V("c")),
                   Def1("w", Bin("+", V("s"), V("s"))), PrintS(<<LenE(V("w")), Substr(V("w"), N(n - 1), N(n + 1)), CmpE("==", Substr(V("w"), N(n), NoneN), V("s"))>>)>>
C03 == {CaseOf("scale/C03/slices/" \o ToString(n), ManySlices(n)) : n \in Sizes}
       \cup {CaseOf("scale/C03/bigslice/" \o ToString(n), BigSlice(n)) : n \in Sizes}
       \cup {CaseOf("scale/C03/longstring/" \o ToString(n), LongString(n)) : n \in Sizes \cup {100}}

\* ---- C04: many effects in one statement -----------------------------------------------------------------------------------
Probe == <<Def1("cnt", N(0)), Func("e", <<Param("id", "int")>>, <<"int">>, <<Inc("cnt"), PrintS(<<StrL("e"), V("id"), V("cnt")>>), RetS(<<V("id")>>)>>)>>
RECURSIVE SumE(_, _)
SumE(i, n) == IF i = n THEN CallE("e", <<N(i)>>) ELSE Bin("+", CallE("e", <<N(i)>>), SumE(i + 1, n))
C04 == {CaseOf("scale/C04/switchmid/" \o ToString(n) \o "@" \o ToString(at), Probe \o <<SwitchAt(N(n), [i \in 1..n |-> CaseB(CallE("e", <<N(i)>>), <<PrintS(<<StrL("case"), N(i)>>)>>)], <<L("default")>>, TRUE, at)>>) : n \in Sizes, at \in {0, 5}} \cup
       {CaseOf("scale/C04/operands/" \o ToString(n), Probe \o <<Print1(SumE(1, n))>>) : n \in Sizes}
       \cup {CaseOf("scale/C04/args/" \o ToString(n), Probe \o <<Func("sink", [i \in 1..n |-> Param(Nm("a", i), "int")], <<>>, <<PrintS(<<V("a1"), V(Nm("a", n))>>)>>),
                                                                  ExprS(CallE("sink", [i \in 1..n |-> CallE("e", <<N(i)>>)])), PrintS([i \in 1..n |-> CallE("e", <<N(100 + i)>>)])>>) : n \in Sizes}
       \cup {CaseOf("scale/C04/conds/" \o ToString(n), Probe \o <<If([i \in 1..n |-> Branch(CmpE("==", CallE("e", <<N(i)>>), N(n)), <<PrintS(<<StrL("hit"), N(i)>>)>>)], <<L("none")>>),
                                                                   Switch(N(n - 1), [i \in 1..n |-> CaseB(CallE("e", <<N(i)>>), <<PrintS(<<StrL("case"), N(i)>>)>>)], <<>>, FALSE)>>) : n \in Sizes}
       \cup {CaseOf("scale/C04/elems/" \o ToString(n), Probe \o <<Def1("s", SliceLit("int", [i \in 1..n |-> CallE("e", <<N(i)>>)])), PrintS(<<LenE(V("s")), IndexE(V("s"), N(0)), IndexE(V("s"), N(n - 1))>>)>>) : n \in Sizes}

\* ---- C17 / C18: many lines, many arguments, long pipelines ---------------------------------------------------------------
World0 == [fs |-> <<>>, stdin |-> <<>>]
WCase(id, body, chk) == [id |-> id, prog |-> [body |-> body, world |-> World0], check |-> chk]
C17 == {WCase("scale/C17/lines/" \o ToString(n), <<WriteS(StrL("log.txt"), StrL("line 0")), For3(Def1("i", N(1)), CmpE("<", V("i"), N(n)), Inc("i"), <<WriteA(StrL("log.txt"), Bin("+", StrL("line "), Itoa(V("i"))), BoolL(TRUE))>>),
                                                    Def1("r", ReadE(StrL("log.txt"))), PrintS(<<LenE(V("r"))>>), Print1(V("r"))>>, <<"fs">>) : n \in Sizes \cup {25}}
       \cup {WCase("scale/C17/files/" \o ToString(n), <<For3(Def1("i", N(0)), CmpE("<", V("i"), N(n)), Inc("i"), <<WriteS(Bin("+", Bin("+", StrL("f"), Itoa(V("i"))), StrL(".txt")), Bin("+", StrL("c"), Itoa(Bin("*", V("i"), V("i")))))>>),
                                                         PrintS(<<ReadE(StrL("f1.txt")), ReadE(StrL("f" \o ToString(n - 1) \o ".txt")), ExistsE(StrL("f10.txt")), ExistsE(StrL("f" \o ToString(n) \o ".txt"))>>)>>, <<"fs">>) : n \in Sizes}
       \cup {[id |-> "scale/C17/longpath/" \o ToString(n), check |-> <<"fs">>, prog |-> [world |-> [fs |-> <<[path |-> "d/" \o SubSeq(Alphabet, 1, n) \o "/keep", content |-> "k\n"]>>, stdin |-> <<>>], body |-> <<Def1("p", StrL("d/" \o SubSeq(Alphabet, 1, n) \o "/" \o SubSeq(Alphabet, 1, n) \o " x.txt")), WriteS(V("p"), StrL(SubSeq(Alphabet, 1, n))), WriteA(V("p"), StrL("two"), BoolL(TRUE)),
                                                            PrintS(<<ExistsE(V("p")), ReadE(V("p"))>>)>>]] : n \in {30, 60}}
C18 == {WCase("scale/C18/args/" \o ToString(n), <<Def1("v", StrL("two words")), ExprS(App(<<Stage("pa", [i \in 1..n |-> IF i = n - 1 THEN V("v") ELSE StrL("a" \o ToString(i))])>>)),
                                                   Def(<<"o", "e", "c">>, <<App(<<Stage("pa", [i \in 1..n |-> IF i = 1 THEN StrL("x7") ELSE StrL("b" \o ToString(i))])>>)>>), PrintS(<<V("o"), V("c")>>)>>, <<"alog">>) : n \in Sizes}
       \cup {WCase("scale/C18/stages/" \o ToString(n), <<ExprS(App([i \in 1..n |-> Stage(Nm("p", i), <<StrL("s" \o ToString(i))>>)])),
                                                         Def(<<"o", "e", "c">>, <<App([i \in 1..n |-> Stage(Nm("q", i), IF i = n THEN <<StrL("x9")>> ELSE <<>>)])>>), PrintS(<<V("o"), V("c")>>)>>, <<"alog">>) : n \in {4, 5, 6}}
       \cup {WCase("scale/C18/calls/" \o ToString(n), <<For3(Def1("i", N(0)), CmpE("<", V("i"), N(n)), Inc("i"), <<Def(<<"o", "e", "c">>, <<App(<<Stage("pa", <<Bin("+", StrL("x"), Itoa(V("i"))), Itoa(Bin("*", V("i"), N(11)))>>)>>)>>), PrintS(<<V("o"), V("c")>>)>>)>>, <<"alog">>)
             : n \in Sizes}

\* ---- C06: a type error at every position of long parameter lists, result lists, element lists and value lists ------------
\* verdicts come from TshStatic (a check that looks at the first few positions only accepts the late mismatch)
RECURSIVE DeepTy(_, _, _)
DeepTy(i, n, w) == IF i = n THEN (IF w = "bad" THEN StrL("x") ELSE N(1)) ELSE Bin("+", N(i), Grp(DeepTy(i + 1, n, w)))
TyAt(bad, i) == IF i = bad THEN StrL("wrong") ELSE N(i)
C06 == {CaseOf("scale/C06/results/" \o ToString(n) \o "@" \o ToString(k), <<Func("wide", <<>>, [i \in 1..n |-> "int"], <<RetS([i \in 1..n |-> TyAt(k, i)])>>), Def([i \in 1..n |-> Nm("r", i)], <<CallE("wide", <<>>)>>)>>)
        : n \in {3, 4, 5, 10, 11}, k \in {0, 1, 3, 4, 5, 10, 11}}
       \cup {CaseOf("scale/C06/forward/" \o ToString(n) \o "@" \o ToString(k), <<Func("src", <<>>, [i \in 1..n |-> IF i = k THEN "string" ELSE "int"], <<RetS([i \in 1..n |-> TyAt(k, i)])>>),
                                                                                  Func("fwd", <<>>, [i \in 1..n |-> "int"], <<RetS(<<CallE("src", <<>>)>>)>>)>>) : n \in {4, 5, 10}, k \in {0, 1, 4, 5, 10}}
       \cup {CaseOf("scale/C06/args/" \o ToString(n) \o "@" \o ToString(k), <<Func("wide", [i \in 1..n |-> Param(Nm("p", i), "int")], <<>>, <<Print1(V("p1"))>>), ExprS(CallE("wide", [i \in 1..n |-> TyAt(k, i)]))>>)
              : n \in {4, 10, 11, 12}, k \in {0, 1, 4, 10, 11, 12}}
       \cup {CaseOf("scale/C06/elems/" \o ToString(n) \o "@" \o ToString(k), <<Def1("s", SliceLit("int", [i \in 1..n |-> TyAt(k, i)])), Print1(LenE(V("s")))>>) : n \in {4, 10, 11, 17, 33}, k \in {0, 1, 4, 10, 11, 17, 33}}
       \cup {CaseOf("scale/C06/values/" \o ToString(n) \o "@" \o ToString(k), <<VarDef([i \in 1..n |-> Nm("v", i)], "int", [i \in 1..n |-> TyAt(k, i)])>>) : n \in {4, 10, 11}, k \in {0, 1, 4, 10, 11}}
       \cup {CaseOf("scale/C06/assign/" \o ToString(n) \o "@" \o ToString(k), <<VarDef([i \in 1..n |-> Nm("v", i)], "int", <<>>), Asg([i \in 1..n |-> Nm("v", i)], [i \in 1..n |-> TyAt(k, i)])>>) : n \in {4, 10, 11}, k \in {0, 1, 4, 10, 11}}
       \cup {CaseOf("scale/C06/conds/" \o ToString(n) \o "@" \o ToString(k), <<If([i \in 1..n |-> Branch(IF i = k THEN N(1) ELSE CmpE("==", N(i), N(0)), <<L("b")>>)], <<>>)>>) : n \in {4, 10, 13, 17, 33}, k \in {0, 1, 4, 10, 13, 17, 33}}
       \cup {CaseOf("scale/C06/cases/" \o ToString(n) \o "@" \o ToString(k), <<Switch(N(1), [i \in 1..n |-> CaseB(TyAt(k, i), <<L("c")>>)], <<>>, FALSE)>>) : n \in {4, 10, 13, 17, 33}, k \in {0, 1, 4, 10, 13, 17, 33}}
       \cup {CaseOf("scale/C06/deep/" \o ToString(n) \o "-" \o w, <<Def1("r", DeepTy(1, n, w))>>) : n \in {5, 9, 17, 33}, w \in {"ok", "bad"}}

\* ---- C07: scopes nested deeply, names from far outside, many siblings ----------------------------------------------------
RECURSIVE Wrap(_, _, _)
Wrap(d, n, inner) == IF d > n THEN inner ELSE <<If1(CmpE(">", V("top"), N(0)), Wrap(d + 1, n, inner))>>
LoopWith(j) == <<For3(Def1("i", N(0)), CmpE("<", V("i"), N(3)), Inc("i"), <<If1(CmpE("==", V("i"), N(1)), <<IF j = "continue" THEN ContinueS ELSE BreakS>>), PrintS(<<StrL("i"), V("i"), V("top")>>)>>)>>
C07 == {CaseOf("scale/C07/deeploop/" \o ToString(d) \o "/" \o j \o "/" \o c, IF c = "top" THEN <<Def1("top", N(5))>> \o Wrap(1, d, LoopWith(j)) \o <<L("end")>>
                                                                                   ELSE <<Def1("top", N(5)), Func("f", <<>>, <<>>, Wrap(1, d, LoopWith(j))), ExprS(CallE("f", <<>>)), L("end")>>)
        : d \in {5, 6, 7, 8, 9, 12}, j \in {"break", "continue"}, c \in {"top", "func"}}
       \cup {CaseOf("scale/C07/deepjumpnoloop/" \o ToString(d), <<Def1("top", N(5))>> \o Wrap(1, d, <<BreakS>>)) : d \in {1, 8, 9, 12}}
       \cup {CaseOf("scale/C07/deepdef/" \o ToString(d), <<Def1("top", N(5))>> \o Wrap(1, d, <<Def1("inner", N(1)), Print1(Bin("+", V("inner"), V("top")))>>) \o <<Def1("inner", N(2)), Print1(V("inner"))>>) : d \in {8, 9, 12}}
       \cup {CaseOf("scale/C07/deepuse-after/" \o ToString(d), <<Def1("top", N(5))>> \o Wrap(1, d, <<Def1("inner", N(1))>>) \o <<Print1(V("inner"))>>) : d \in {1, 8, 9, 12}}
       \cup {CaseOf("scale/C07/deepreturn/" \o ToString(d), <<Def1("top", N(5)), Func("f", <<>>, <<"int">>, Wrap(1, d, <<RetS(<<N(1)>>)>>) \o <<RetS(<<N(2)>>)>>), Print1(CallE("f", <<>>))>>) : d \in {8, 9, 12}}
       \cup {CaseOf("scale/C07/siblings/" \o ToString(n), <<Def1("top", N(5))>> \o SeqN(n, LAMBDA i : If1(CmpE(">", V("top"), N(0)), <<Def1("same", N(i)), Print1(V("same"))>>)) \o <<Def1("same", N(0)), Print1(V("same"))>>) : n \in {9, 10, 11, 17}}
       \cup {CaseOf("scale/C07/manyvars/" \o ToString(n) \o "/" \o w, SeqN(n, LAMBDA i : Def1(Nm("v", i), N(i))) \o <<IF w = "ok" THEN Print1(V(Nm("v", n))) ELSE IF w = "undef" THEN Print1(V(Nm("v", n + 1))) ELSE Def1(Nm("v", n), N(0))>>)
              : n \in {9, 10, 11, 17, 33}, w \in {"ok", "undef", "redef"}}
       \cup {CaseOf("scale/C07/manyfuncs/" \o ToString(n) \o "/" \o w, SeqN(n, LAMBDA i : Func(Nm("g", i), <<>>, <<"int">>, <<RetS(<<N(i)>>)>>))
                                                                          \o <<IF w = "ok" THEN Print1(CallE(Nm("g", n), <<>>)) ELSE IF w = "undef" THEN Print1(CallE(Nm("g", n + 1), <<>>)) ELSE Func(Nm("g", n), <<>>, <<>>, <<L("dup")>>)>>)
              : n \in {9, 10, 11, 17}, w \in {"ok", "undef", "redef"}}

\* ---- C08: long values --------------------------------------------------------------------------------------------------
RECURSIVE Rep(_, _)
Rep(s, n) == IF n = 0 THEN "" ELSE IF n % 2 = 1 THEN s \o Rep(s, n - 1) ELSE LET h == Rep(s, n \div 2) IN h \o h
LongVal(n) == SubSeq(Rep("ab  c*d? -e #f;g ", (n \div 17) + 1), 1, n - 1) \o "Z"
C08 == {CaseOf("scale/C08/long/" \o ToString(n), <<Def1("s", StrL(LongVal(n))), PrintS(<<LenE(V("s")), IndexE(V("s"), N(n - 1)), Substr(V("s"), N(n - 5), NoneN), CmpE("==", V("s"), StrL(LongVal(n))), CmpE("==", Bin("+", V("s"), StrL("x")), V("s"))>>),
                                                    Func("pass", <<Param("p", "string")>>, <<"string">>, <<RetS(<<V("p")>>)>>), Def1("t", CallE("pass", <<V("s")>>)), Def1("sl", SliceLit("string", <<V("t")>>)),
                                                    PrintS(<<LenE(V("t")), LenE(IndexE(V("sl"), N(0))), LenE(Bin("+", V("s"), V("t")))>>), Print1(V("s"))>>) : n \in (IF Quick THEN {100, 1000, 5000} ELSE {100, 1000, 4095, 4096, 4097, 5000, 9000})}
All == C01 \cup C02 \cup C03 \cup C04 \cup C06 \cup C07 \cup C08 \cup C17 \cup C18
ASSUME ndJsonSerialize("fam.ndjson", SetToSeq(All))
=============================================================================
