package main

// C16 support: vh emit <cases.ndjson> <out.ndjson> <scratch>
// For every program: (a) the Bash script must pass `bash -n`; (b) the Batch converter is wrapped in a decorator that
// implements transpiler.Converter, forwards every call to the real converter and records, per structural call, the LINE FACTS
// of the lines that call appended (found by diffing Dump() before/after): labels defined, labels jumped to, routines called,
// parentheses.  Everything between two structural calls is flushed as one "Simple" event.

import (
	"fmt"
	"os"
	"os/exec"
	"path/filepath"
	"regexp"
	"strings"
	"sync"

	"github.com/monstermichl/typeshell/converters/batch"
	"github.com/monstermichl/typeshell/parser"
	"github.com/monstermichl/typeshell/transpiler"
)

type rec struct {
	transpiler.Converter
	prev   []string
	events []any
	broken bool
}

func (r *rec) lines() []string {
	s, _ := r.Converter.Dump()
	s = strings.ReplaceAll(s, "\r\n", "\n")
	return strings.Split(strings.TrimSuffix(s, "\n"), "\n")
}

// insertedLines returns the lines of cur that are not in prev, assuming cur is prev plus insertions.
func insertedLines(prev, cur []string) ([]string, bool) {
	out := []string{}
	i := 0
	for _, l := range cur {
		if i < len(prev) && prev[i] == l {
			i++
			continue
		}
		out = append(out, l)
	}
	return out, i == len(prev)
}

var reGoto = regexp.MustCompile(`\bgoto :?([A-Za-z_0-9]+)`)
var reCall = regexp.MustCompile(`\bcall :([A-Za-z_0-9]+)`)
var reQuoted = regexp.MustCompile(`"[^"]*"`)

func lineFacts(lines []string) N {
	defs, gotos, calls := []any{}, []any{}, []any{}
	open, close, minDepth, depth := 0, 0, 0, 0
	for _, l := range lines {
		t := strings.TrimSpace(l)
		if strings.HasPrefix(t, "::") || t == "" {
			continue
		}
		if strings.HasPrefix(t, ":") {
			defs = append(defs, strings.Fields(t[1:])[0])
			continue
		}
		if strings.HasPrefix(t, "(set LF=^") { // the line-feed definition spans three physical lines: "(set LF=^", "", ")"
			open++
			depth++
			continue
		}
		bare := reQuoted.ReplaceAllString(t, `""`)
		for _, m := range reGoto.FindAllStringSubmatch(bare, -1) {
			gotos = append(gotos, m[1])
		}
		for _, m := range reCall.FindAllStringSubmatch(bare, -1) {
			calls = append(calls, m[1])
		}
		for i := 0; i < len(bare); i++ {
			switch bare[i] {
			case '(':
				open++
				depth++
			case ')':
				close++
				depth--
				if depth < minDepth {
					minDepth = depth
				}
			}
		}
	}
	return N{"defs": defs, "gotos": gotos, "calls": calls, "open": open, "close": close, "minDepth": minDepth, "n": len(lines)}
}

func (r *rec) flush(name string) {
	cur := r.lines()
	d, ok := insertedLines(r.prev, cur)
	if !ok {
		r.broken = true
	}
	r.prev = cur
	if name == "Simple" && len(d) == 0 {
		return
	}
	r.events = append(r.events, N{"m": name, "facts": lineFacts(d)})
}

func (r *rec) wrap(name string, f func() error) error {
	r.flush("Simple")
	err := f()
	r.flush(name)
	return err
}

func (r *rec) FuncStart(n string, p []string, rt []parser.ValueType) error {
	return r.wrap("FuncStart", func() error { return r.Converter.FuncStart(n, p, rt) })
}
func (r *rec) FuncEnd() error           { return r.wrap("FuncEnd", r.Converter.FuncEnd) }
func (r *rec) IfEnd() error             { return r.wrap("IfEnd", r.Converter.IfEnd) }
func (r *rec) ElseStart() error         { return r.wrap("ElseStart", r.Converter.ElseStart) }
func (r *rec) ForStart() error          { return r.wrap("ForStart", r.Converter.ForStart) }
func (r *rec) ForEnd() error            { return r.wrap("ForEnd", r.Converter.ForEnd) }
func (r *rec) Break() error             { return r.wrap("Break", r.Converter.Break) }
func (r *rec) Continue() error          { return r.wrap("Continue", r.Converter.Continue) }
func (r *rec) ForIncrementStart() error { return r.wrap("ForIncrementStart", r.Converter.ForIncrementStart) }
func (r *rec) ForIncrementEnd() error   { return r.wrap("ForIncrementEnd", r.Converter.ForIncrementEnd) }
func (r *rec) ProgramEnd() error        { return r.wrap("ProgramEnd", r.Converter.ProgramEnd) }
func (r *rec) IfStart(c string) error {
	return r.wrap("IfStart", func() error { return r.Converter.IfStart(c) })
}
func (r *rec) ElseIfStart(c string) error {
	return r.wrap("ElseIfStart", func() error { return r.Converter.ElseIfStart(c) })
}
func (r *rec) ForCondition(c string) error {
	return r.wrap("ForCondition", func() error { return r.Converter.ForCondition(c) })
}
func (r *rec) Return(v []transpiler.ReturnValue) error {
	return r.wrap("Return", func() error { return r.Converter.Return(v) })
}
func (r *rec) Panic(v string) error {
	return r.wrap("Panic", func() error { return r.Converter.Panic(v) })
}

func emitOne(c N, dir string) {
	mainFile, src := materialise(c, filepath.Join(dir, "src"))
	c["src"] = src
	// Bash: syntax check
	script, err, _ := transpileSafe(mainFile, "bash")
	if err != nil {
		c["accepted"] = false
		c["err"] = firstLine(err.Error())
		c["events"] = []any{}
		return
	}
	c["accepted"] = true
	sf := filepath.Join(dir, "main.sh")
	os.WriteFile(sf, []byte(script), 0o644)
	out, berr := exec.Command("/bin/bash", "-n", sf).CombinedOutput()
	c["bashOk"] = berr == nil
	c["bashErr"] = firstLine(strings.ReplaceAll(string(out), sf, "main.sh"))
	// Batch: recorded emission trace
	r := &rec{Converter: batch.New()}
	var terr error
	func() {
		defer func() {
			if p := recover(); p != nil {
				terr = fmt.Errorf("PANIC: %v", p)
			}
		}()
		t := transpiler.New()
		_, terr = t.Transpile(mainFile, r)
	}()
	if terr != nil {
		c["batchErr"] = firstLine(terr.Error())
		c["events"] = []any{}
		return
	}
	r.flush("Simple")
	c["events"] = r.events
	c["attribution"] = !r.broken
	bat, _ := r.Converter.Dump()
	c["script"] = bat
}

func cmdEmit(args []string) {
	cases := readCases(args[0])
	scratch := args[2]
	var wg sync.WaitGroup
	sem := make(chan struct{}, 16)
	for i := range cases {
		wg.Add(1)
		sem <- struct{}{}
		go func(i int) {
			defer wg.Done()
			defer func() { <-sem }()
			dir := filepath.Join(scratch, fmt.Sprintf("e%06d", i))
			emitOne(cases[i], dir)
			os.RemoveAll(dir)
		}(i)
	}
	wg.Wait()
	writeCases(args[1], cases)
}
