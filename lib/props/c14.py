"""C14 - Transpilation is a pure, repeatable function of source content and target."""
import os

from vlib import Infra, read_ndjson, write_ndjson

RULE = ("direction A: TLC enumerates spec/FamC14.tla: all histories of one and two calls and the three-call histories whose first two calls share a process, over 11 programs "
        "(no imports; two different trees that import different files under the same relative path; std + local import with many functions; five main files in one directory that share lib.tsh -> util.tsh - globals and top-level code - by path, one of them ill-typed; one path whose imported file is rewritten between calls in two versions) x 2 targets x how the call is made "
        "{same transpiler object, new object, new process} (thorough: also from a relocated byte-identical copy of the tree). The harness replays each history into the real "
        "library (fresh converter per call) and records (content id/target, digest); spec/Purity.tla accepts a history iff one function explains all of it. Every history runs in "
        "its own processes, which also samples Go's map-iteration seeds. Distinct = distinct history.")
ASSUME = ["the library's contract is a fresh converter object per call", "map-iteration order is sampled (one or more processes per history), not enumerated"]


def run(ctx):
    fam = ctx.tlc_family("FamC14", constants={"Tier": '"%s"' % ctx.tier}, timeout=3000)
    ctx.exhaustive["FamC14"] = True
    wd = ctx.sub("pur")
    p0, p1 = os.path.join(wd, "h0.ndjson"), os.path.join(wd, "cases.ndjson")
    write_ndjson(p0, fam)
    ctx.run_vh("purity", p0, p1, os.path.join(wd, "scr"), timeout=7200)
    ran = read_ndjson(p1)
    # every history is prefixed by what single calls in fresh processes returned (the one-call histories), so that a call whose
    # result depends on the calls before it is rejected in the history where that happens
    base = {}
    for c in ran:
        if len(c["ops"]) == 1 and not c["ops"][0]["mode"].startswith("relocated"):
            base.setdefault(c["events"][0]["key"], c["events"][0])
    # one more history: everything that any history observed, concatenated (cross-history agreement = fresh processes agree)
    allev = []
    for c in ran:
        allev += c["events"]
    prefix = [dict(e, mode="baseline") for e in base.values()]
    for c in ran:
        if len(c["ops"]) > 1 or (c["ops"] and c["ops"][0]["mode"].startswith("relocated")):
            c["events"] = prefix + c["events"]
    ran.append({"id": "C14/all-histories-concatenated", "ops": [], "events": allev})
    slim = os.path.join(wd, "slim.ndjson")
    write_ndjson(slim, [{"id": c["id"], "events": [{"key": e["key"], "digest": e["digest"]} for e in c["events"]]} for c in ran])
    verd, _ = ctx.tlc("Purity", workdir=ctx.sub("tlc-pur"), files=[(slim, "cases.ndjson")], timeout=3000)
    by = {v["id"]: v for v in verd}
    for c in ran:
        v = by.get(c["id"])
        if v is None:
            raise Infra("no verdict for " + c["id"])
        ctx.evaluations += 1
        ctx.traces_validated += 1
        ctx.distinct.add(c["id"])
        if any(e["digest"] in ("CRASH", "PANIC") for e in c["events"]):
            raise Infra("a purity replay process crashed: " + c["id"])
        if not v["ok"]:
            e = c["events"][v["at"] - 1]
            first = next(x for x in c["events"] if x["key"] == e["key"])
            s = "call %d (%s, %s) returned digest %s, an earlier call for the same content and target returned %s" % (v["at"], e["key"], e.get("mode"), e["digest"], first["digest"])
            ctx.report_failure(c["id"], {"property": "C14", "case": c["id"], "why": s, "ops": c.get("ops"), "events": c["events"][:50],
                                         "reproduce": "see harness/purity.go for the source trees; Transpile calls in the given order/modes"}, s)
    ctx.samples = [{"id": c["id"], "events": c["events"]} for c in ran[:3]]
    return ctx.finish(rule=RULE, assumptions=ASSUME)
