"""C05 - Batch target preserves the same program semantics under cmd.exe's rules."""
import os
import re

import batflow
import comprun
import corpus
import progflow
from batflow import neutral
from vlib import Infra, read_ndjson, write_ndjson

RULE = ("programs: the C01-C04 families restricted to 32-bit literals and a cmd-neutral string alphabet, plus seeded random programs (`vh gen all -small`). For each program: "
        "(1) TLC runs the reference semantics TshDyn with W=32 (expected stdout and status); (2) the REAL Batch converter emits the script, the harness parses it into units "
        "(batparse), and TLC executes it under spec/CmdExe.tla - parse-time %-expansion, run-time !-expansion, forward-then-wrap label search from the end of the current unit, "
        "numeric-versus-text IF comparison, call / exit /B frames, 32-bit set /A - and compares stdout and status with the reference; (3) the Bash run of the same program is a "
        "third witness. Scripts using commands outside the modelled fragment are counted as unsupported and not compared. Distinct = distinct source text executed to completion by the model.")
ASSUME = ["there is no cmd.exe in the sandbox: spec/CmdExe.tla (rules R1-R12 of DESIGN.md 6.3) is the statement of cmd.exe's documented rules",
          "harness/batparse.go splits the emitted text into commands and text segments faithfully (every line of the converter's inventory; anything else is flagged unsupported)"]


def run(ctx):
    quick = ctx.tier == "quick"
    cases = []
    for fam, stride in (("FamC01", 9 if quick else 1), ("FamC02", 3 if quick else 1), ("FamC03", 13 if quick else 2), ("FamC04", 2 if quick else 1)):
        cs = ctx.tlc_family(fam, constants={"Tier": '"quick"'}, timeout=3000)
        cs = [c for c in cs if "world" not in c["prog"] and "check" not in c]
        cs.sort(key=lambda c: c["id"])
        # families about what a back-end keeps per loop / per call are taken whole
        must = ("/outerjump/", "/loopcall/", "/range2/nested", "/multicall/", "/tuple/", "/grow/string/L1/", "/grow/bool/L2/", "/grow/int/L0/", "/copy/", "/punct/", "/jumpsite/", "/reeval/", "/nestleaf", "/guardtail/", "/selfassign/bool/", "/numstr/")
        cases += [c for i, c in enumerate(cs) if i % stride == 0 or any(m in c["id"] for m in must)]
    # label allocation: nesting/sequencing shapes, many functions (spec/FamC16.tla), builtins that cannot run are dropped as unsupported
    shapes = ctx.tlc_family("FamC16", constants={"Tier": '"quick"'})
    cases += [c for c in shapes if "/builtin/" not in c["id"]]
    cases += progflow.generate(ctx, "all", 60 if quick else 1500, extra=("-small",))
    # every typed position x every offered expression (spec/FamC06.tla RunCases): the well-typed ones also run under the cmd.exe model
    cases += [c for c in ctx.tlc_family("FamScale", constants={"Tier": '"quick"'}, timeout=3000) if "world" not in c["prog"] and c["id"].split("/")[1] in ("C01", "C02", "C03", "C04")]        # sizes across the digit boundaries (%10, :_f10, _h10)
    # every ordered pair of features x composition mode (spec/FamPairs.tla), without the world features; quick: every 5th
    pairs = sorted((c for c in progflow.pair_cases(ctx) if "world" not in c["prog"]), key=lambda c: c["id"])
    cases += pairs[::(5 if quick else 2)]
    # every control skeleton up to a size (spec/FamSkel.tla) - label allocation for every nesting and sequencing; thorough: size 3 at top level only
    sk = sorted(progflow.skel_cases(ctx), key=lambda c: c["id"])
    small = [c for c in sk if not c["id"].startswith("skel/3/")]
    big = [c for c in sk if c["id"].startswith("skel/3/") and "/top/" in c["id"]]
    cases += small + big[::4]         # the cmd.exe model is about three times as expensive as the bash run: every 4th skeleton of size 3
    cases += progflow.hist_cases(ctx)        # run-time histories (spec/FamHist.tla), whole
    cases += comprun.accepted(ctx, False, 4 if quick else 1) + comprun.accepted(ctx, True, 4 if quick else 1)
    # the repository's own test programs: their stated expectations calibrate the cmd.exe model
    repo = corpus.cases(ctx, ("C01", "C02", "C03"))
    expects = {c["id"]: c["testExpects"] for c in repo if c.get("testExpects") is not None}
    cases += repo
    # a share of the programs once more in another legal spelling (harness/respell.go): brackets, no blanks / no optional brackets, var for :=
    if not ctx.spell_share:
        ctx.spell_share = 8 if quick else 3
    extra = progflow.respelled(ctx, cases)
    ctx.notes["respelled_cases"] = len(extra)
    cases += extra
    # (1)+(3): Bash run and reference run with W = 32
    res = progflow.validate(ctx, cases, "ref", width=32)
    keep = []
    for cid, (c, v) in res.items():
        ctx.evaluations += 1
        if not c["obs"].get("accepted") or not neutral(c["src"]):
            ctx.dropped["not-cmd-neutral-or-rejected"] = ctx.dropped.get("not-cmd-neutral-or-rejected", 0) + 1
            continue
        if v["st"] not in ("done", "exit1"):
            ctx.dropped[v["st"]] = ctx.dropped.get(v["st"], 0) + 1
            continue
        keep.append((c, v))
    # (2): real Batch converter, parsed, executed by CmdExe
    bat, by = batflow.run_cmd(ctx, keep)
    agree_bash = 0
    for c, v in keep:
        r = by.get(c["id"])
        if r is None:
            continue
        b = bat[c["id"]]
        if not batflow.judge(ctx, c, v, b, r):
            continue
        ctx.traces_validated += 1
        ctx.distinct.add(c["src"])
        if c["obs"]["out"] == v["out"] and c["obs"]["code"] == v["code"]:
            agree_bash += 1
        if len(ctx.samples) < 4 and len(c["src"]) < 250 and ctx.traces_validated % 41 == 1:
            ctx.samples.append({"id": c["id"], "source": c["src"], "reference_stdout": v["out"], "cmd_model_stdout": r["out"], "bash_stdout": c["obs"]["out"]})
        if c["id"] in expects and r["st"] == "exit" and r["out"].strip() == expects[c["id"]].strip() and r["ok"]:
            ctx.notes["cmd_model_calibrated_on_repo_tests"] = ctx.notes.get("cmd_model_calibrated_on_repo_tests", 0) + 1
    batflow.check_blind(ctx, len(keep))
    return ctx.finish(rule=RULE, assumptions=ASSUME, extra={"agree_with_bash": agree_bash, "notes": ctx.notes})
