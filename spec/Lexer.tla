------------------------------- MODULE Lexer -------------------------------
(***************************************************************************)
(* The reference scanner of TypeShell as a state machine (DESIGN.md 3.6).  *)
(* Longest match over the token grammar - NOT the probe order of lexer.go. *)
(* Variables: pos (next character, 1-based), row/col (position of that     *)
(* character), toks (tokens emitted), err.  One action per token class.    *)
(* Invariants: Accounted (every consumed character belongs to exactly one  *)
(* lexeme, blank or comment: the concatenation of the consumed pieces is    *)
(* the consumed prefix) and Positions (each token carries the row/column of *)
(* its first character, recomputed independently from the prefix).          *)
(***************************************************************************)
EXTENDS Integers, Sequences, FiniteSets, TLC, Json, SequencesExt
CONSTANT TrackPieces                                \* record the segmentation (for Accounted and Layout's "pieces" mode)
Cases == ndJsonDeserialize("cases.ndjson")         \* [id, text, obs?]
VARIABLES ci, text, pos, row, col, toks, err, pieces, unspec
vars == <<ci, text, pos, row, col, toks, err, pieces, unspec>>

RawText == Cases[ci].text
\* CRLF is a line end like LF (the only normalisation; a lone CR is an unknown character)
RECURSIVE Norm(_, _)
Norm(s, i) == IF i > Len(s) THEN ""
              ELSE IF i < Len(s) /\ SubSeq(s, i, i + 1) = "\r\n" THEN "\n" \o Norm(s, i + 2)
              ELSE SubSeq(s, i, i) \o Norm(s, i + 1)
Text == text            \* the normalised text, computed once in Init
N == Len(Text)
C(i) == IF i >= 1 /\ i <= N THEN SubSeq(Text, i, i) ELSE ""
At(i, s) == i + Len(s) - 1 <= N /\ SubSeq(Text, i, i + Len(s) - 1) = s
Lower == "abcdefghijklmnopqrstuvwxyz"
Upper == "ABCDEFGHIJKLMNOPQRSTUVWXYZ"
DigitsS == "0123456789"
Printable == " !\"#$%&'()*+,-./0123456789:;<=>?@ABCDEFGHIJKLMNOPQRSTUVWXYZ[\\]^_`abcdefghijklmnopqrstuvwxyz{|}~"
In(c, s) == c # "" /\ \E i \in 1..Len(s) : SubSeq(s, i, i) = c
IsDigit(c) == In(c, DigitsS)
IsWordStart(c) == In(c, Lower) \/ In(c, Upper) \/ c = "_"
IsWord(c) == IsWordStart(c) \/ IsDigit(c)
RECURSIVE RunEnd(_, _)             \* last index of the maximal run of word (or digit) characters starting at i
RunEnd(i, digitsOnly) == IF (IF digitsOnly THEN IsDigit(C(i + 1)) ELSE IsWord(C(i + 1))) THEN RunEnd(i + 1, digitsOnly) ELSE i
Keywords == [import |-> "IMPORT", var |-> "VAR_DEFINITION", func |-> "FUNCTION_DEFINITION", return |-> "RETURN",
             if |-> "IF", else |-> "ELSE", switch |-> "SWITCH", case |-> "CASE", default |-> "DEFAULT", for |-> "FOR",
             range |-> "RANGE", break |-> "BREAK", continue |-> "CONTINUE", nil |-> "NIL_LITERAL",
             len |-> "LEN", print |-> "PRINT", input |-> "INPUT", copy |-> "COPY", itoa |-> "ITOA", exists |-> "EXISTS",
             read |-> "READ", write |-> "WRITE", panic |-> "PANIC",
             bool |-> "DATA_TYPE", int |-> "DATA_TYPE", string |-> "DATA_TYPE", error |-> "DATA_TYPE",
             true |-> "BOOL_LITERAL", false |-> "BOOL_LITERAL"]
WordType(w) == IF w \in DOMAIN Keywords THEN Keywords[w] ELSE "IDENTIFIER"       \* whole words only
Punct == << <<"==", "COMPARE_OPERATOR">>, <<"!=", "COMPARE_OPERATOR">>, <<"<=", "COMPARE_OPERATOR">>, <<">=", "COMPARE_OPERATOR">>,
            <<"&&", "LOGICAL_OPERATOR">>, <<"||", "LOGICAL_OPERATOR">>,
            <<"+=", "COMPOUND_ASSIGN_OPERATOR">>, <<"-=", "COMPOUND_ASSIGN_OPERATOR">>, <<"*=", "COMPOUND_ASSIGN_OPERATOR">>,
            <<"/=", "COMPOUND_ASSIGN_OPERATOR">>, <<"%=", "COMPOUND_ASSIGN_OPERATOR">>,
            <<":=", "SHORT_INIT_OPERATOR">>, <<"++", "INCREMENT_OPERATOR">>, <<"--", "DECREMENT_OPERATOR">>,
            <<"(", "OPENING_ROUND_BRACKET">>, <<")", "CLOSING_ROUND_BRACKET">>, <<"[", "OPENING_SQUARE_BRACKET">>,
            <<"]", "CLOSING_SQUARE_BRACKET">>, <<"{", "OPENING_CURLY_BRACKET">>, <<"}", "CLOSING_CURLY_BRACKET">>,
            <<"<", "COMPARE_OPERATOR">>, <<">", "COMPARE_OPERATOR">>, <<"=", "ASSIGN_OPERATOR">>, <<"!", "UNARY_OPERATOR">>,
            <<"+", "BINARY_OPERATOR">>, <<"-", "BINARY_OPERATOR">>, <<"*", "BINARY_OPERATOR">>, <<"/", "BINARY_OPERATOR">>,
            <<"%", "BINARY_OPERATOR">>, <<",", "COMMA">>, <<":", "COLON">>, <<";", "SEMICOLON">>, <<".", "DOT">>,
            <<"@", "AT">>, <<"|", "PIPE">> >>
PunctAt(i) == LET M == {k \in 1..Len(Punct) : At(i, Punct[k][1])} IN
              IF M = {} THEN 0 ELSE CHOOSE k \in M : \A j \in M : Len(Punct[k][1]) >= Len(Punct[j][1])     \* longest match
Tok(t, v) == [t |-> t, v |-> v, row |-> row, col |-> col]
LastType == IF toks = <<>> THEN "" ELSE toks[Len(toks)].t
\* a '-' directly before a digit belongs to the number only in prefix position (DESIGN.md 6.2)
OperandEnd == LastType \in {"IDENTIFIER", "NUMBER_LITERAL", "STRING_LITERAL", "BOOL_LITERAL", "NIL_LITERAL",
                            "CLOSING_ROUND_BRACKET", "CLOSING_SQUARE_BRACKET"}
RECURSIVE Adv(_, _, _, _)          \* position after consuming Text[i..e], starting from (r, c)
Adv(i, e, r, c) == IF i > e THEN <<r, c>> ELSE IF C(i) = "\n" THEN Adv(i + 1, e, r + 1, 1) ELSE Adv(i + 1, e, r, c + 1)
ConsumeK(e, kind) == /\ pos' = e + 1 /\ row' = Adv(pos, e, row, col)[1] /\ col' = Adv(pos, e, row, col)[2]
                     /\ pieces' = IF TrackPieces THEN Append(pieces, [s |-> SubSeq(Text, pos, e), k |-> kind]) ELSE pieces
Consume(e) == ConsumeK(e, "tok")
RECURSIVE FindStr(_, _)             \* first index >= i where s occurs, 0 if none
FindStr(i, s) == IF i + Len(s) - 1 > N THEN 0 ELSE IF At(i, s) THEN i ELSE FindStr(i + 1, s)

HexS == "0123456789abcdef"
HexVal(c) == IF In(c, DigitsS) THEN (CHOOSE d \in 0..9 : SubSeq(DigitsS, d + 1, d + 1) = c)
             ELSE IF In(c, "abcdef") THEN 9 + (CHOOSE d \in 1..6 : SubSeq("abcdef", d, d) = c)
             ELSE IF In(c, "ABCDEF") THEN 9 + (CHOOSE d \in 1..6 : SubSeq("ABCDEF", d, d) = c) ELSE -1
\* one byte of a string value; bytes outside printable ASCII are spelled {XX}, as the harness spells the observed value (asciiSafe)
HexU == "0123456789ABCDEF"
ByteS(n) == "{" \o SubSeq(HexU, (n \div 16) + 1, (n \div 16) + 1) \o SubSeq(HexU, (n % 16) + 1, (n % 16) + 1) \o "}"
Chr(n) == IF n = 10 THEN "\n" ELSE IF n = 9 THEN "\t" ELSE IF n = 13 THEN "\r" ELSE IF n >= 32 /\ n <= 126 THEN SubSeq(Printable, n - 31, n - 31)
          ELSE IF n >= 0 /\ n <= 255 THEN ByteS(n) ELSE ""
\* a code point below 256 as UTF-8: one byte below 128, else two bytes; U+00E9 is the harness's two-byte letter, spelled "~"
Rune(n) == IF n < 128 THEN Chr(n) ELSE IF n = 233 THEN "~" ELSE ByteS(192 + (n \div 64)) \o ByteS(128 + (n % 64))
\* One escape sequence starting at the backslash at i: <<value, length>>, length 0 = invalid.  Go's rules for
\* interpreted string literals, restricted to results in the ASCII range the model can represent.
Escape(i) ==
  LET e == C(i + 1) IN
  IF e = "n" THEN <<"\n", 2>> ELSE IF e = "t" THEN <<"\t", 2>> ELSE IF e = "\\" THEN <<"\\", 2>> ELSE IF e = "\"" THEN <<"\"", 2>>
  ELSE IF e = "r" THEN <<"\r", 2>>
  ELSE IF e = "a" THEN <<Chr(7), 2>> ELSE IF e = "b" THEN <<Chr(8), 2>> ELSE IF e = "f" THEN <<Chr(12), 2>> ELSE IF e = "v" THEN <<Chr(11), 2>>
  ELSE IF e = "x" /\ HexVal(C(i + 2)) >= 0 /\ HexVal(C(i + 3)) >= 0 /\ Chr(16 * HexVal(C(i + 2)) + HexVal(C(i + 3))) # ""
       THEN <<Chr(16 * HexVal(C(i + 2)) + HexVal(C(i + 3))), 4>>
  ELSE IF In(e, "0123") /\ In(C(i + 2), "01234567") /\ In(C(i + 3), "01234567")
          /\ Chr(64 * HexVal(e) + 8 * HexVal(C(i + 2)) + HexVal(C(i + 3))) # ""
       THEN <<Chr(64 * HexVal(e) + 8 * HexVal(C(i + 2)) + HexVal(C(i + 3))), 4>>
  ELSE IF e = "u" /\ C(i + 2) = "0" /\ C(i + 3) = "0" /\ HexVal(C(i + 4)) >= 0 /\ HexVal(C(i + 5)) >= 0
       THEN <<Rune(16 * HexVal(C(i + 4)) + HexVal(C(i + 5))), 6>>
  ELSE <<"", 0>>
RECURSIVE ScanStr(_, _, _)          \* interpreted string body from i: <<value, index of the closing quote or 0, saw a line end>>
ScanStr(i, acc, nl) ==
  IF i > N THEN <<acc, 0, nl>>
  ELSE IF C(i) = "\"" THEN <<acc, i, nl>>
  \* a backslash directly before a line end: the literal spans lines (unspecified, see LexString)
  ELSE IF C(i) = "\\" /\ C(i + 1) = "\n" THEN ScanStr(i + 1, acc \o "\\", TRUE)
  ELSE IF C(i) = "\\" THEN (IF Escape(i)[2] = 0 THEN <<acc, 0, nl>> ELSE ScanStr(i + Escape(i)[2], acc \o Escape(i)[1], nl))
  ELSE ScanStr(i + 1, acc \o C(i), nl \/ C(i) = "\n")

Init == ci \in 1..Len(Cases) /\ text = Norm(Cases[ci].text, 1) /\ pos = 1 /\ row = 1 /\ col = 1 /\ toks = <<>> /\ err = FALSE /\ pieces = <<>> /\ unspec = FALSE
Scanning == ~err /\ pos <= N
Fail == err' = TRUE /\ UNCHANGED <<pos, row, col, toks, pieces, unspec>>
LexBlank == Scanning /\ C(pos) \in {" ", "\t"} /\ ConsumeK(pos, "ws") /\ UNCHANGED <<toks, err, unspec>>
LexNewline == Scanning /\ C(pos) = "\n" /\ toks' = Append(toks, Tok("NEWLINE", "\n")) /\ ConsumeK(pos, "nl") /\ UNCHANGED <<err, unspec>>
LexLineComment == /\ Scanning /\ At(pos, "//")
                  /\ LET nl == FindStr(pos, "\n") IN ConsumeK(IF nl = 0 THEN N ELSE nl - 1, "com")        \* up to, not including, the line end
                  /\ UNCHANGED <<toks, err, unspec>>
\* An unterminated block comment is an error in Go; the property lists only unterminated strings and unknown
\* characters as errors, so the case is flagged unspecified and never compared.
LexBlockComment == /\ Scanning /\ At(pos, "/*")
                   /\ IF FindStr(pos + 2, "*/") = 0 THEN err' = TRUE /\ unspec' = TRUE /\ UNCHANGED <<pos, row, col, toks, pieces>>
                      ELSE ConsumeK(FindStr(pos + 2, "*/") + 1, "com") /\ UNCHANGED <<toks, err, unspec>>   \* ends at the FIRST terminator
\* Go ends an interpreted literal at the line end ("not terminated"); the property only says that unterminated strings are
\* errors, so a literal that spans lines but IS closed later is flagged unspecified and never compared.
LexString == /\ Scanning /\ C(pos) = "\""
             /\ LET r == ScanStr(pos + 1, "", FALSE) IN
                IF r[2] = 0 THEN Fail
                ELSE /\ toks' = Append(toks, Tok("STRING_LITERAL", r[1])) /\ Consume(r[2])
                     /\ unspec' = (unspec \/ r[3]) /\ UNCHANGED err
LexRaw == /\ Scanning /\ C(pos) = "`"
          /\ LET e == FindStr(pos + 1, "`") IN
             IF e = 0 THEN Fail
             ELSE toks' = Append(toks, Tok("STRING_LITERAL", SubSeq(Text, pos + 1, e - 1))) /\ Consume(e) /\ UNCHANGED <<err, unspec>>
NumStart == IsDigit(C(pos)) \/ (C(pos) = "-" /\ IsDigit(C(pos + 1)) /\ ~OperandEnd)
LexNumber == /\ Scanning /\ NumStart
             /\ LET s == IF C(pos) = "-" THEN pos + 1 ELSE pos
                    e == RunEnd(s, TRUE)
                IN /\ toks' = Append(toks, Tok("NUMBER_LITERAL", SubSeq(Text, pos, e))) /\ Consume(e)
                   \* digits "." digits is a floating-point literal in Go; the language has no such type and the property speaks of
                   \* integers only, so the case is flagged unspecified and never compared
                   /\ unspec' = (unspec \/ (C(e + 1) = "." /\ IsDigit(C(e + 2))))
             /\ UNCHANGED err
LexWord == /\ Scanning /\ IsWordStart(C(pos))
           /\ LET e == RunEnd(pos, FALSE)
                  w == SubSeq(Text, pos, e)
              IN toks' = Append(toks, Tok(WordType(w), w)) /\ Consume(e)                              \* maximal identifier
           /\ UNCHANGED <<err, unspec>>
Other == ~(C(pos) \in {" ", "\t", "\n", "\"", "`"}) /\ ~At(pos, "//") /\ ~At(pos, "/*") /\ ~NumStart /\ ~IsWordStart(C(pos))
LexPunct == /\ Scanning /\ Other /\ PunctAt(pos) # 0
            /\ LET p == Punct[PunctAt(pos)] IN toks' = Append(toks, Tok(p[2], p[1])) /\ Consume(pos + Len(p[1]) - 1)
            /\ UNCHANGED <<err, unspec>>
LexError == Scanning /\ Other /\ PunctAt(pos) = 0 /\ Fail                                             \* unknown character
Step == LexBlank \/ LexNewline \/ LexLineComment \/ LexBlockComment \/ LexString \/ LexRaw
        \/ LexNumber \/ LexWord \/ LexPunct \/ LexError
Done == err \/ pos > N
Next == (Step /\ UNCHANGED <<ci, text>>) \/ (Done /\ UNCHANGED vars)
Spec == Init /\ [][Next]_vars

Result == IF err THEN <<>> ELSE Append(toks, [t |-> "EOF", v |-> "", row |-> row, col |-> col])

(* ---- properties of the reference scanner itself ---- *)
RECURSIVE Concat(_)
Concat(ss) == IF ss = <<>> THEN "" ELSE ss[1].s \o Concat(Tail(ss))
Accounted == TrackPieces => Concat(pieces) = SubSeq(Text, 1, pos - 1)                 \* every consumed character accounted for, once
PosOf(i) == Adv(1, i - 1, 1, 1)                                       \* row/col of character i, from the prefix alone
Positions == <<row, col>> = PosOf(pos)
Deterministic == ~err /\ pos <= N => Cardinality({a \in {"blank", "nl", "lc", "bc", "str", "raw", "num", "word", "punct", "err"} :
                   CASE a = "blank" -> C(pos) \in {" ", "\t"} [] a = "nl" -> C(pos) = "\n" [] a = "lc" -> At(pos, "//")
                     [] a = "bc" -> At(pos, "/*") [] a = "str" -> C(pos) = "\"" [] a = "raw" -> C(pos) = "`" [] a = "num" -> NumStart
                     [] a = "word" -> IsWordStart(C(pos)) [] a = "punct" -> Other /\ PunctAt(pos) # 0 [] a = "err" -> Other /\ PunctAt(pos) = 0}) = 1
=============================================================================
