------------------------------- MODULE FamC15 -------------------------------
(* Direction-A family for C15: all argument tuples over short strings on a small alphabet (so that matches, overlaps *)
(* and empties are dense), counts -2..4, slices of up to 4 elements, for the 19 functions of std/strings.            *)
EXTENDS TshAst
CONSTANT Tier
Quick == Tier = "quick"
Alpha == IF Quick THEN <<"a", "b">> ELSE <<"a", "b", " ">>
RECURSIVE Strs(_)
Strs(n) == IF n = 0 THEN {""} ELSE Strs(n - 1) \cup {w \o Alpha[i] : w \in Strs(n - 1), i \in 1..Len(Alpha)}
Short == Strs(IF Quick THEN 2 ELSE 2)
Long == Strs(IF Quick THEN 3 ELSE 3) \cup (IF Quick THEN {"aaaa", "abab", "ababa", "aabaa", " a b "} ELSE {"aaaa", "abab", "ababa", "aabaa", "abba", "baab", " ab ", "  a", "a  "})
Name(s) == "'" \o s \o "'"
Mk(fn, as, n, elems) == [id |-> "C15/" \o fn \o "/" \o JoinS([i \in 1..Len(as) |-> Name(as[i])], ",") \o "/" \o ToString(n) \o "/" \o JoinS([i \in 1..Len(elems) |-> Name(elems[i])], ","),
                         fn |-> fn, s |-> as, n |-> n, elems |-> elems]
Two == {"Index", "Contains", "HasPrefix", "HasSuffix", "Count", "Split", "Cut", "CutPrefix", "CutSuffix", "TrimPrefix", "TrimSuffix", "TrimLeft", "TrimRight", "Trim"}
Cases2 == {Mk(f, <<s, t>>, 0, <<>>) : f \in Two, s \in Long, t \in Short}
Cases1 == {Mk("TrimSpace", <<s>>, 0, <<>>) : s \in Long \cup {" \t a \n", "\ta", "a\n"}}
CasesRep == {Mk("Repeat", <<s>>, n, <<>>) : s \in Short, n \in 0..4}
CasesRepl == {Mk("Replace", <<s, o, w>>, n, <<>>) : s \in (IF Quick THEN {"", "a", "ab", "aa", "aaa", "abab", "aabaa"} ELSE Long), o \in {"", "a", "ab", "aa"}, w \in {"", "b", "xy"}, n \in (IF Quick THEN {-1, 0, 1, 2} ELSE -2..4)}
CasesReplAll == {Mk("ReplaceAll", <<s, o, w>>, 0, <<>>) : s \in (IF Quick THEN {"", "a", "ab", "aa", "aaa", "abab", "aabaa"} ELSE Long), o \in {"", "a", "ab", "aa"}, w \in {"", "b", "xy"}}
Elems == {<<>>, <<"a">>, <<"">>, <<"a", "b">>, <<"", "">>, <<"a", "", "b">>, <<"ab", "c d", "e">>, <<"a", "b", "c", "d">>}
CasesJoin == {Mk("Join", <<sep>>, 0, es) : sep \in {"", ",", ", ", "ab"}, es \in Elems}
\* long arguments: a needle at every position 0..70 of a string of 72 characters (windows, chunks and counters sized by a power of two or by ten),
\* separators and cut points beyond two digits, many fields, many repetitions
RECURSIVE RepS(_, _)
RepS(c, n) == IF n = 0 THEN "" ELSE c \o RepS(c, n - 1)
At(k, nd, total) == RepS("a", k) \o nd \o RepS("a", total - k - Len(nd))
Pos == IF Quick THEN {0, 8, 9, 10, 11, 15, 16, 17, 29, 30, 31, 32, 33, 62, 63, 64, 65, 69} ELSE 0..69
CasesLong == {Mk(f, <<At(k, nd, 72), nd>>, 0, <<>>) : f \in {"Index", "Contains", "Cut", "Split", "Count", "HasSuffix", "TrimSuffix", "CutSuffix"}, k \in Pos, nd \in {"b", "bcd"}}
             \cup {Mk(f, <<RepS("a", k) \o "bb" \o RepS("a", 5) \o "b", "b">>, 0, <<>>) : f \in {"Index", "Count", "Split"}, k \in {9, 10, 31, 32, 63}}
             \cup {Mk("Replace", <<At(k, "b", 40), "b", "XY">>, n, <<>>) : k \in {0, 9, 10, 31, 32, 39}, n \in {-1, 1}}
             \cup {Mk("Repeat", <<sx>>, n, <<>>) : sx \in {"ab", "x"}, n \in {9, 10, 11, 16, 17, 32, 33, 64, 65}}
             \cup {Mk("Split", <<RepS("x,", n) \o "end", ",">>, 0, <<>>) : n \in {9, 10, 11, 16, 17, 33}}
             \cup {Mk("Join", <<",">>, 0, [i \in 1..n |-> "e" \o ToString(i)]) : n \in {9, 10, 11, 17, 33}}
             \cup {Mk(f, <<RepS(" ", k) \o "mid dle" \o RepS(" ", k), " ">>, 0, <<>>) : f \in {"Trim", "TrimLeft", "TrimRight"}, k \in {9, 10, 17, 33}}
             \cup {Mk("TrimSpace", <<RepS(" ", k) \o "mid dle" \o RepS("\t", k)>>, 0, <<>>) : k \in {9, 10, 17, 33}}
             \cup {Mk(f, <<RepS("ab", k), RepS("ab", k - 1)>>, 0, <<>>) : f \in {"HasPrefix", "TrimPrefix", "CutPrefix", "HasSuffix", "Index"}, k \in {5, 8, 16, 17, 33}}
ASSUME ndJsonSerialize("fam.ndjson", SetToSeq(CasesLong \cup Cases2 \cup Cases1 \cup CasesRep \cup CasesRepl \cup CasesReplAll \cup CasesJoin))
=============================================================================
