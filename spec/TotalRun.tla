------------------------------ MODULE TotalRun ------------------------------
(* C13: the outcome protocol of one Transpile call, validated against recorded outcomes.                          *)
(* A call ends in exactly one of: Returned(script # "", err = nil), Returned("", err # nil with a non-empty        *)
(* message).  Crashed (panic, fatal error, dead worker) and TimedOut are observable events with no enabled action:  *)
(* a trace containing them is rejected.  Where the specification knows the answer (a lexical error per the         *)
(* reference scanner; a missing or cyclic import per TshModules, carried in `expect`), the outcome must be an error. *)
EXTENDS Lexer
Case == Cases[ci]
Obs == Case.obs                       \* [bash |-> o, batch |-> o], o = [kind, script (nonempty?), msg (nonempty?)]
Allowed(o) == \/ (o.kind = "script" /\ o.script /\ ~o.msg)
              \/ (o.kind = "error" /\ ~o.script /\ o.msg)
MustFail == (Case.mode = "lex" /\ err /\ ~unspec) \/ (Case.mode = "proto" /\ Case.expect = "error")
MustPass == Case.mode = "proto" /\ Case.expect = "script"
Ok(o) == Allowed(o) /\ (MustFail => o.kind = "error") /\ (MustPass => o.kind = "script")
Verdict == Done => PrintT(ToJson([id |-> Case.id, ok |-> (Ok(Obs.bash) /\ Ok(Obs.batch)), lexerr |-> err,
                                  protocol |-> (Allowed(Obs.bash) /\ Allowed(Obs.batch)), mustfail |-> MustFail]))
=============================================================================
