"""Compositional run family (spec/FamC06.tla RunCases): every typed position x every offered expression, made observable.
TshStatic selects the well-typed ones; they are run under Bash and validated against TshDyn (used by C01 and C03)."""
import json

import progflow
import staticflow

SLICEY = ('"slicelit"', '"index"', '"substr"', '"setidx"', '"copy"', '"range"', '"len"')


def cases(ctx, want_slices, stride=1):
    fam = ctx.tlc_family("FamC06", out="famrun.ndjson", constants={"Tier": '"quick"'}, timeout=3000)
    fam.sort(key=lambda c: c["id"])
    sel = []
    for c in fam:
        # the part of the program that depends on the case (the common prelude and epilogue mention slices anyway)
        body = json.dumps(c["prog"]["body"][12:-1])
        if any(k in body for k in SLICEY) == want_slices:
            sel.append(c)
    return sel[::stride]


def accepted(ctx, want_slices, stride=1):
    """the cases TshStatic accepts (verdict mismatches belong to C06, which reports them; here only the selection is used)"""
    sel = cases(ctx, want_slices, stride)
    ctx.static_verdicts = {}
    ev, tv, dist = ctx.evaluations, ctx.traces_validated, set(ctx.distinct)
    staticflow.judge(ctx, sel, "comp%d" % int(want_slices))
    ctx.evaluations, ctx.traces_validated, ctx.distinct = ev, tv, dist          # selection only: not counted as work of this property
    return [c for c in sel if ctx.static_verdicts.get(c["id"], {}).get("expected") == "A" and not ctx.static_verdicts[c["id"]]["unspec"]]


def judge(ctx, want_slices, stride=1):
    acc = accepted(ctx, want_slices, stride)
    res = progflow.validate(ctx, acc, "comprun")
    bad = []
    for cid, (c, v) in res.items():
        ctx.evaluations += 1
        if not c["obs"].get("accepted"):
            continue
        if v["st"].startswith("undef") or v["st"] == "diverge":
            ctx.dropped["comp-" + v["st"]] = ctx.dropped.get("comp-" + v["st"], 0) + 1
            continue
        if v["st"].startswith("stuck"):
            raise Exception("TshStatic accepts %s but TshDyn cannot run it: %s" % (cid, v["st"]))
        ctx.traces_validated += 1
        ctx.distinct.add(c["src"])
        if not v["ok"]:
            bad.append((c, v, progflow.signature(c, v)))
    return bad
