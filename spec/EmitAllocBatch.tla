--------------------------- MODULE EmitAllocBatch ---------------------------
(* An implementation-shaped model of how the Batch converter allocates labels (converters/batch/converter.go): program-wide  *)
(* counters forCounter and ifCounter, the stacks fors / endLabels / ifs and the current function, exactly as the methods      *)
(* ForStart, ForEnd, Break, Continue, IfStart, ElseIfStart, ElseStart, IfEnd, FuncStart, Return, FuncEnd use them.           *)
(*                                                                                                                            *)
(* Unlike spec/Emit.tla (the name-agnostic protocol that recorded traces are validated against) this module is GENERATIVE:   *)
(* Next picks any next structural event the transpiler could issue (constructs are closed innermost first, else / else-if     *)
(* only on an open if without else, break / continue only inside a loop, return only inside a function, functions only at    *)
(* top level), bounded by MaxEvents and MaxDepth.  TLC therefore explores EVERY control skeleton within the bounds and        *)
(* checks in every state that the allocation scheme is sound:                                                                 *)
(*   FreshLabels     no label is ever defined twice                                                                           *)
(*   StacksAgree     the three stacks describe the same open constructs (one end label per open loop, in the same order)       *)
(*   BreakOwn        a break jumps to the end label that the innermost open loop will define                                  *)
(*   ContinueOwn     a continue jumps to the head label of the innermost open loop                                            *)
(*   IfJumpsOwn      the jumps an if emits (branch ends) go to the label its own IfEnd defines                                *)
(*   Resolved        when the program ends every jump target has been defined                                                 *)
(* Binding to the code (direction A, spec -> code): every complete behaviour is printed as a JSON trace of                     *)
(* (method, labels defined, labels jumped to); the harness renders the behaviour as a TypeShell program, records the real     *)
(* converter's trace for it and requires the same labels at the same events (lib/props/c16.py); the same behaviours are also   *)
(* validated against spec/Emit.tla, which shows that this allocator refines the protocol.                                     *)
EXTENDS Integers, Sequences, FiniteSets, TLC, Json
CONSTANTS MaxEvents, MaxDepth, MaxFuncs
VARIABLES forCounter, ifCounter, fors, endLabels, ifs, open, funcs, defined, targets, hist, bad, done
vars == <<forCounter, ifCounter, fors, endLabels, ifs, open, funcs, defined, targets, hist, bad, done>>

ForLabel(k) == "_f" \o ToString(k)
EndLabel(k) == "_e" \o ToString(k)
IfLabel(k) == "_i" \o ToString(k)
FuncName(k) == "fn" \o ToString(k)
Top(s) == s[Len(s)]
Pop(s) == SubSeq(s, 1, Len(s) - 1)
Ev(m, defs, gotos) == [m |-> m, defs |-> defs, gotos |-> gotos]
InFunc == Len(open) > 0 /\ open[1].k = "func"
CurFunc == FuncName(funcs)
NLoops == Cardinality({i \in 1..Len(open) : open[i].k = "for"})
Room == Len(hist) < MaxEvents /\ ~done

Init == /\ forCounter = 0 /\ ifCounter = 0 /\ fors = <<>> /\ endLabels = <<>> /\ ifs = <<>> /\ open = <<>> /\ funcs = 0
        /\ defined = {} /\ targets = {} /\ hist = <<>> /\ bad = "" /\ done = FALSE

\* emit an event: labels defined twice are remembered in `bad`
Emit(m, defs, gotos) ==
  /\ hist' = Append(hist, Ev(m, defs, gotos))
  /\ defined' = defined \cup {defs[i] : i \in 1..Len(defs)}
  /\ targets' = targets \cup {gotos[i] : i \in 1..Len(gotos)}
  /\ bad' = IF bad = "" /\ (\E i \in 1..Len(defs) : defs[i] \in defined \/ \E j \in 1..Len(defs) : j # i /\ defs[j] = defs[i]) THEN "label defined twice at " \o m ELSE bad

\* ForStart: label := nextForLabel() (forCounter++); nextEndLabel() pushes _e<forCounter-1>; fors push
ForStart == /\ Room /\ Len(open) < MaxDepth
            /\ LET l == ForLabel(forCounter) IN
               /\ forCounter' = forCounter + 1
               /\ endLabels' = Append(endLabels, EndLabel(forCounter' - 1))
               /\ fors' = Append(fors, l)
               /\ open' = Append(open, [k |-> "for", head |-> l, end |-> EndLabel(forCounter), hasElse |-> FALSE, lbl |-> ""])
               /\ Emit("ForStart", <<l>>, <<>>)
            /\ UNCHANGED <<ifCounter, ifs, funcs, done>>
ForEnd == /\ Room /\ Len(open) > 0 /\ Top(open).k = "for"
          /\ Emit("ForEnd", <<Top(endLabels)>>, <<Top(fors)>>)
          /\ endLabels' = Pop(endLabels) /\ fors' = Pop(fors) /\ open' = Pop(open)
          /\ UNCHANGED <<forCounter, ifCounter, ifs, funcs, done>>
Break == /\ Room /\ NLoops > 0 /\ Emit("Break", <<>>, <<Top(endLabels)>>)
         /\ UNCHANGED <<forCounter, ifCounter, fors, endLabels, ifs, open, funcs, done>>
Continue == /\ Room /\ NLoops > 0 /\ Emit("Continue", <<>>, <<Top(fors)>>)
            /\ UNCHANGED <<forCounter, ifCounter, fors, endLabels, ifs, open, funcs, done>>
\* IfStart: ifs push nextIfLabel() (ifCounter++); the label is written by the else parts and by IfEnd
IfStart == /\ Room /\ Len(open) < MaxDepth
           /\ LET l == IfLabel(ifCounter) IN
              /\ ifCounter' = ifCounter + 1 /\ ifs' = Append(ifs, l)
              /\ open' = Append(open, [k |-> "if", head |-> "", end |-> "", hasElse |-> FALSE, lbl |-> l])
           /\ Emit("IfStart", <<>>, <<>>)
           /\ UNCHANGED <<forCounter, fors, endLabels, funcs, done>>
ElseIfStart == /\ Room /\ Len(open) > 0 /\ Top(open).k = "if" /\ ~Top(open).hasElse
               /\ Emit("ElseIfStart", <<>>, <<Top(ifs)>>)
               /\ UNCHANGED <<forCounter, ifCounter, fors, endLabels, ifs, open, funcs, done>>
ElseStart == /\ Room /\ Len(open) > 0 /\ Top(open).k = "if" /\ ~Top(open).hasElse
             /\ Emit("ElseStart", <<>>, <<Top(ifs)>>)
             /\ open' = [open EXCEPT ![Len(open)].hasElse = TRUE]
             /\ UNCHANGED <<forCounter, ifCounter, fors, endLabels, ifs, funcs, done>>
IfEnd == /\ Room /\ Len(open) > 0 /\ Top(open).k = "if"
         /\ Emit("IfEnd", <<Top(ifs)>>, <<Top(ifs)>>)
         /\ ifs' = Pop(ifs) /\ open' = Pop(open)
         /\ UNCHANGED <<forCounter, ifCounter, fors, endLabels, funcs, done>>
\* functions: only at top level; a value-returning function ends in a return
FuncStart == /\ Room /\ open = <<>> /\ funcs < MaxFuncs
             /\ funcs' = funcs + 1
             /\ Emit("FuncStart", <<FuncName(funcs + 1)>>, <<"_eo_" \o FuncName(funcs + 1)>>)
             /\ open' = <<[k |-> "func", head |-> "", end |-> "", hasElse |-> FALSE, lbl |-> ""]>>
             /\ UNCHANGED <<forCounter, ifCounter, fors, endLabels, ifs, done>>
Return == /\ Room /\ InFunc /\ Len(open) > 1        \* an early return inside a nested block
          /\ Emit("Return", <<>>, <<"_ret_" \o CurFunc>>)
          /\ UNCHANGED <<forCounter, ifCounter, fors, endLabels, ifs, open, funcs, done>>
FuncEnd == /\ Len(hist) + 1 < MaxEvents /\ ~done /\ Len(open) = 1 /\ Top(open).k = "func"      \* final return + end of the function: two events
           /\ hist' = hist \o <<Ev("Return", <<>>, <<"_ret_" \o CurFunc>>), Ev("FuncEnd", <<"_ret_" \o CurFunc, "_eo_" \o CurFunc>>, <<>>)>>
           /\ defined' = defined \cup {"_ret_" \o CurFunc, "_eo_" \o CurFunc}
           /\ targets' = targets \cup {"_ret_" \o CurFunc}
           /\ bad' = IF bad = "" /\ ({"_ret_" \o CurFunc, "_eo_" \o CurFunc} \cap defined # {}) THEN "label defined twice at FuncEnd" ELSE bad
           /\ open' = <<>>
           /\ UNCHANGED <<forCounter, ifCounter, fors, endLabels, ifs, funcs, done>>
ProgramEnd == /\ ~done /\ open = <<>> /\ hist # <<>> /\ done' = TRUE
              /\ UNCHANGED <<forCounter, ifCounter, fors, endLabels, ifs, open, funcs, defined, targets, hist, bad>>
Next == ForStart \/ ForEnd \/ Break \/ Continue \/ IfStart \/ ElseIfStart \/ ElseStart \/ IfEnd \/ FuncStart \/ Return \/ FuncEnd \/ ProgramEnd
        \/ (done /\ UNCHANGED vars)
Spec == Init /\ [][Next]_vars

(* ---- soundness of the allocation scheme, in every reachable state ---- *)
FreshLabels == bad = ""
OpenFors == SelectSeq(open, LAMBDA c : c.k = "for")
OpenIfs == SelectSeq(open, LAMBDA c : c.k = "if")
StacksAgree == /\ Len(fors) = Len(OpenFors) /\ Len(endLabels) = Len(OpenFors) /\ Len(ifs) = Len(OpenIfs)
               /\ \A i \in 1..Len(OpenFors) : fors[i] = OpenFors[i].head /\ endLabels[i] = OpenFors[i].end
               /\ \A i \in 1..Len(OpenIfs) : ifs[i] = OpenIfs[i].lbl
\* the last event, if it is a jump, goes where the innermost construct says
Last == hist[Len(hist)]
BreakOwn == (hist # <<>> /\ Last.m = "Break") => Last.gotos = <<Top(OpenFors).end>>
ContinueOwn == (hist # <<>> /\ Last.m = "Continue") => Last.gotos = <<Top(OpenFors).head>>
IfJumpsOwn == (hist # <<>> /\ Last.m \in {"ElseIfStart", "ElseStart"}) => Last.gotos = <<Top(OpenIfs).lbl>>
\* labels of open constructs are still undefined (they are defined by the closing call), heads of open loops are defined
OpenLabels == /\ \A i \in 1..Len(OpenFors) : OpenFors[i].head \in defined /\ OpenFors[i].end \notin defined
              /\ \A i \in 1..Len(OpenIfs) : OpenIfs[i].lbl \notin defined
Resolved == done => targets \subseteq defined
\* every complete behaviour is handed to the harness (and to spec/Emit.tla) as a trace
Emitted == done => PrintT(ToJson([events |-> hist]))
=============================================================================
