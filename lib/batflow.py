"""Batch side shared by C05 and C10: the REAL Batch converter's script, parsed into units (vh batch), executed by TLC under spec/CmdExe.tla."""
import os
import re

from vlib import first_diff, read_ndjson, write_ndjson

STR = re.compile(r'"((?:[^"\\]|\\.)*)"|`([^`]*)`')
NUM = re.compile(r'(?<![A-Za-z_0-9"])-?\d+')


CHUNK = 3000


def neutral(src):
    """32-bit literals and string literals over a cmd-neutral alphabet"""
    for m in STR.finditer(src):
        body = m.group(1) if m.group(1) is not None else m.group(2)
        if re.search(r'[!%"^&|<>()\\]', body or ""):
            return False
    bare = STR.sub('""', src)
    for n in NUM.findall(bare):
        if abs(int(n)) > 2147483647:
            return False
    return True


def run_cmd(ctx, keep, tag="bat"):
    """keep: [(case, reference verdict)]; returns ({id: batch record}, {id: CmdExe verdict}); converter disagreements are reported here"""
    wd = ctx.sub(tag)
    p0, p1 = os.path.join(wd, "c0.ndjson"), os.path.join(wd, "c1.ndjson")
    write_ndjson(p0, [{"id": c["id"], "prog": c["prog"], "spell": c.get("spell", "")} for c, v in keep])
    ctx.run_vh("batch", p0, p1, os.path.join(wd, "scr"))
    bat = {c["id"]: c for c in read_ndjson(p1)}
    cmdcases = []
    for c, v in keep:
        b = bat[c["id"]]
        if not b.get("batAccepted"):
            s = "the Bash converter accepts the program, the Batch converter rejects it: " + b.get("batErr", "")
            ctx.report_failure(c["id"], {"property": ctx.prop, "case": c["id"], "why": s, "source": c["src"]}, s)
            continue
        cmdcases.append({"id": c["id"], "script": b["script"], "ref": {"out": v["out"], "code": v["code"]}})
    # TLC loads the whole case file into its heap (about 20 kB per script once parsed): large batches go in chunks
    verd = []
    for k in range(0, len(cmdcases), CHUNK):
        p2 = os.path.join(wd, "cases-%d.ndjson" % k)
        write_ndjson(p2, cmdcases[k:k + CHUNK])
        v, _ = ctx.tlc("CmdExe", workdir=ctx.sub("tlc-%s-%d" % (tag, k)), files=[(p2, "cases.ndjson")], timeout=3000)
        verd += v
        os.remove(p2)
    return bat, {x["id"]: x for x in verd}


def _known_id(ctx, case_id):
    """the case id matches an open known finding (whatever its signature): such a program is expected to go wrong in its own way"""
    import fnmatch
    return any(f.get("status", "open") == "open" and any(fnmatch.fnmatchcase(case_id, pat) for pat in f["match"]) for f in ctx.findings)


def judge(ctx, c, v, b, r, tag=""):
    """report a completed CmdExe run that differs from the reference; returns True if the run was compared"""
    # the model gives up after 60000 steps: when the reference needs less than a hundredth of that, the Batch script does not terminate
    if r["st"] == "diverge" and v.get("steps", 10 ** 9) * 100 < 60000:
        s = "under cmd.exe's rules the Batch script does not end within 60000 steps (the reference semantics ends after %d steps): stdout so far %r" % (v["steps"], r["out"][:200])
        ctx.report_failure(c["id"] + tag, {"property": ctx.prop, "case": c["id"], "why": s, "source": c["src"], "batch_script": b.get("bat"),
                                           "expected": {"stdout": v["out"], "status": v["code"]}, "reproduce": "tsh -t batch; run the .bat under cmd.exe (or spec/CmdExe.tla)"}, s)
        return True
    if r["st"] in ("unsupported", "diverge"):
        ctx.dropped["cmd-" + r["st"]] = ctx.dropped.get("cmd-" + r["st"], 0) + 1
        if r["st"] == "unsupported" and len(ctx.notes.setdefault("unsupported_lines", [])) < 10:
            ctx.notes["unsupported_lines"] += b.get("unsupported", [])[:2]
        # only the world builtins (files, commands, input) lie outside the cmd.exe model: a program without them whose script the model cannot
        # execute means that the converter emits something new, or that control reaches a line in a way the model does not know (round 9)
        if r["st"] == "unsupported" and not re.search(r"@\w|\b(?:write|read|exists|input)\(", c.get("src", "")) and not _known_id(ctx, c["id"] + tag):
            ctx.notes.setdefault("blind_for", []).append(c["id"])
        return False
    if not r["ok"]:
        s = "under cmd.exe's rules the Batch script ends with status %s (%s): stdout %s; status expected %d observed %s" % (
            r["st"], "script error" if r["st"] == "cmderror" else "normal end", first_diff(v["out"], r["out"]) or "equal", v["code"], r["code"])
        ctx.report_failure(c["id"] + tag, {"property": ctx.prop, "case": c["id"], "why": s, "source": c["src"], "batch_script": b.get("bat"),
                                           "expected": {"stdout": v["out"], "status": v["code"]}, "cmd_model": {"stdout": r["out"], "status": r["code"], "end": r["st"]},
                                           "bash": {"stdout": c["obs"]["out"], "status": c["obs"]["code"]},
                                           "reproduce": "tsh -t batch; run the .bat under cmd.exe (or spec/CmdExe.tla)"}, s)
    return True


def check_blind(ctx, n):
    """a script line outside the modelled fragment makes the model blind for that program: a few are expected (builtins), many mean that the
    converter emits something the model does not know - not a verdict either way"""
    from vlib import Infra
    if ctx.notes.get("blind_for") and not ctx.violations:
        raise Infra("the cmd.exe model cannot execute the Batch script of %d program(s) that use no file, command or input builtin (e.g. %s; lines %r): "
                    "extend harness/batparse.go and spec/CmdExe.tla - not a verdict" % (len(ctx.notes["blind_for"]), ctx.notes["blind_for"][:3], ctx.notes.get("unsupported_lines", [])[:2]))
    blind = ctx.dropped.get("cmd-unsupported", 0)
    if blind > max(25, n // 20):
        raise Infra("%d of %d Batch scripts contain lines outside the cmd.exe model (e.g. %r): extend harness/batparse.go and spec/CmdExe.tla"
                    % (blind, n, ctx.notes.get("unsupported_lines", [])[:2]))
