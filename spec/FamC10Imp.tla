----------------------------- MODULE FamC10Imp -----------------------------
(* Direction-A family for C10 across file boundaries: a main file and imported files whose PRIVATE names (globals, helper   *)
(* functions, parameters, locals) and public names are also the spellings the importing file - or a second imported file - *)
(* chooses for its own globals, functions, parameters and locals.  Names of different files never meet: every variant must  *)
(* behave as the base spelling does.  Cases have the shape of spec/FamC09.tla (linked by TshModules, judged by TshDyn).     *)
EXTENDS TshAst
CONSTANT Tier
I(n) == NatLit(n)
V(x) == Var(x)
Imp(al, p) == [alias |-> al, path |-> p]
F(path, imps, body, h) == [path |-> path, imports |-> imps, body |-> body, hash |-> h]
Prog(files) == [main |-> "main.tsh", files |-> files]
Mk(id, files) == [id |-> id \o "/letter", prog |-> Prog(files)]

\* a sequence generator: private state, private helpers, two public functions; n maps its six private spellings
LibNames == <<"count", "step", "bump", "twice", "by", "tmp">>
Lib(n, k) ==
  <<Def1(n[1], I(0)), Def1(n[2], I(k)),
    Func(n[4], <<Param(n[5], "int")>>, <<"int">>, <<Def1(n[6], Bin("*", V(n[5]), I(2))), RetS(<<V(n[6])>>)>>),
    Func(n[3], <<Param(n[5], "int")>>, <<"int">>, <<Asg1(n[1], Bin("+", V(n[1]), Bin("*", V(n[5]), V(n[2])))), RetS(<<V(n[1])>>)>>),
    Func("Next", <<>>, <<"int">>, <<RetS(<<CallE(n[3], <<I(1)>>)>>)>>),
    Func("Current", <<>>, <<"int">>, <<RetS(<<Bin("+", V(n[1]), CallE(n[4], <<I(0)>>))>>)>>)>>
\* the importing file: two globals, two functions (one with a parameter and a local), use of the import before, between and after its own updates
MainIds == <<"total", "width", "scale", "area", "amount", "res">>
Main(m, al) ==
  <<Def1(m[1], I(100)), Def1(m[2], I(5)),
    Func(m[3], <<Param(m[5], "int")>>, <<"int">>, <<Def1(m[6], Bin("*", V(m[5]), I(3))), Asg1(m[2], Bin("+", V(m[2]), I(1))), RetS(<<V(m[6])>>)>>),
    Func(m[4], <<>>, <<"int">>, <<RetS(<<Bin("+", V(m[1]), V(m[2]))>>)>>),
    PrintS(<<ACall(al, "Next", <<>>), ACall(al, "Next", <<>>)>>),
    Asg1(m[1], Bin("+", V(m[1]), CallE(m[3], <<I(4)>>))), Inc(m[2]),
    PrintS(<<V(m[1]), V(m[2]), CallE(m[4], <<>>)>>),
    PrintS(<<ACall(al, "Next", <<>>), ACall(al, "Current", <<>>)>>),
    PrintS(<<CallE(m[3], <<V(m[2])>>), V(m[1])>>)>>

\* spellings offered to the importing file: the import's private names, its public names, the base spellings
Offered == <<"count", "step", "bump", "twice", "by", "tmp", "Next", "Current", "Count", "Bump">>
VarPos == {1, 2, 5, 6}
FuncPos == {3, 4}
One(i, nm) == [j \in 1..6 |-> IF j = i THEN nm ELSE MainIds[j]]
Files1(m) == <<F("main.tsh", <<Imp("seq", "lib.tsh")>>, Main(m, "seq"), "letter"), F("lib.tsh", <<>>, Lib(LibNames, 1), "letter")>>
OneCases == {Mk("C10/import/one/" \o MainIds[i] \o "=" \o Offered[k], Files1(One(i, Offered[k]))) : i \in 1..6, k \in 1..Len(Offered)}
\* the importing file spells everything like the import does
AllAt == {<<"count", "step", "bump", "twice", "by", "tmp">>, <<"step", "count", "twice", "bump", "tmp", "by">>, <<"Count", "Step", "Next", "Current", "by", "tmp">>,
          <<"count", "tmp", "Next", "bump", "step", "by">>, <<"by", "tmp", "count", "step", "bump", "twice">>}
RECURSIVE JoinN(_, _)
JoinN(s, i) == IF i > Len(s) THEN "" ELSE (IF i > 1 THEN "," ELSE "") \o s[i] \o JoinN(s, i + 1)
AllCases == {Mk("C10/import/all/" \o JoinN(m, 1), Files1(m)) : m \in AllAt} \cup {Mk("C10/import/base", Files1(MainIds))}
\* two imported files that spell their private names alike (and one that spells them like the other's public names), in both import orders; a chain
Lib2Names == {LibNames, <<"step", "count", "twice", "bump", "tmp", "by">>, <<"cnt", "inc", "add", "dbl", "by", "tmp">>}
Main2(m, a1, a2) == Main(m, a1) \o <<PrintS(<<ACall(a2, "Next", <<>>), ACall(a1, "Next", <<>>), ACall(a2, "Current", <<>>), ACall(a1, "Current", <<>>)>>)>>
TwoCases == UNION {{Mk("C10/import/two/" \o JoinN(n2, 1) \o "/" \o (IF sw THEN "ba" ELSE "ab") \o "/" \o JoinN(m, 1),
                       <<F("main.tsh", IF sw THEN <<Imp("other", "lib2.tsh"), Imp("seq", "lib.tsh")>> ELSE <<Imp("seq", "lib.tsh"), Imp("other", "lib2.tsh")>>, Main2(m, "seq", "other"), "letter"),
                         F("lib.tsh", <<>>, Lib(LibNames, 1), "letter"), F("lib2.tsh", <<>>, Lib(n2, 10), "letter")>>)
                    : sw \in BOOLEAN, m \in {MainIds, <<"count", "step", "bump", "twice", "by", "tmp">>}} : n2 \in Lib2Names}
\* the import itself imports a file with the same private spellings and forwards to it
Via(n, al) == Lib(n, 1) \o <<Func("Deep", <<>>, <<"int">>, <<RetS(<<Bin("+", ACall(al, "Next", <<>>), CallE(n[3], <<I(0)>>))>>)>>)>>
ChainCases == {Mk("C10/import/chain/" \o JoinN(m, 1),
                  <<F("main.tsh", <<Imp("seq", "lib.tsh")>>, Main(m, "seq") \o <<PrintS(<<ACall("seq", "Deep", <<>>), ACall("seq", "Deep", <<>>), ACall("seq", "Current", <<>>)>>)>>, "letter"),
                    F("lib.tsh", <<Imp("inner", "lib2.tsh")>>, Via(LibNames, "inner"), "letter"), F("lib2.tsh", <<>>, Lib(LibNames, 10), "letter")>>)
               : m \in {MainIds, <<"count", "step", "bump", "twice", "by", "tmp">>}}
All == OneCases \cup AllCases \cup TwoCases \cup ChainCases
ASSUME ndJsonSerialize("fam.ndjson", SetToSeq(All))
=============================================================================
