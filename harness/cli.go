package main

// C19 support: vh cli <cases.ndjson> <out.ndjson> <scratch> <tsh-binary>
// Runs the real tsh binary (built from the repository's working tree, std next to it) once per case in a fresh directory and
// records exit status, the output directory before/after (name, digest), whether the input changed, and what the LIBRARY
// returns for the same input (digest or ERR) - the library is called in this process, on a copy of the input.

import (
	"crypto/sha256"
	"fmt"
	"os"
	"os/exec"
	"path/filepath"
	"sort"
	"strings"
	"sync"
	"time"
)

var cliPrograms = map[string]string{
	"ok":     "func add(a int, b int) int {\n\treturn a + b\n}\nx := add(1, 2)\nfor i := 0; i < x; i++ {\n\tprint(i, \"line\")\n}\n",
	"lex":    "a := 1 # 2\n",
	"syntax": "print((1 + 2)\n",
	"type":   "a := 1 + true\nprint(a)\n",
	"conv":   "c := \"a\" < \"b\"\nprint(c)\n",
}

// programs with imports: files written next to the input (and next to the copy the library is asked about)
var cliExtra = map[string]map[string]string{
	"okimp":  {"lib/helper.tsh": "calls := 0\nprefix := \"[h]\"\nfunc Tag(s string) string {\n\tcalls++\n\treturn prefix + s + itoa(calls)\n}\nprint(\"helper ready\")\n"},
	"impbad": {"lib/helper.tsh": "limit := 3\nfunc Over(n int) bool {\n\treturn n > \"three\"\n}\nprint(\"helper ready\")\n"},
}

func init() {
	cliPrograms["okimp"] = "import (\n\t\"strings\"\n\th \"lib/helper.tsh\"\n)\n\nprint(h.Tag(\"a\"), h.Tag(strings.Repeat(\"b\", 2)))\n"
	// programs with nothing to execute: the library still returns a script (prologue / epilogue), and tsh must write exactly that
	cliPrograms["funcsonly"] = "func add(a int, b int) int {\n\treturn a + b\n}\nfunc twice(n int) int {\n\treturn add(n, n)\n}\n"
	cliPrograms["comment"] = "// nothing but a comment\n/* and a block comment */\n"
	cliPrograms["importonly"] = "import \"strings\"\n"
	cliPrograms["empty"] = ""
	cliPrograms["blank"] = "\n\n   \n"
	cliPrograms["impbad"] = "import h \"lib/helper.tsh\"\n\nprint(h.Over(4))\n"
}

func writeExtra(kind, dir string) {
	for rel, content := range cliExtra[kind] {
		p := filepath.Join(dir, rel)
		os.MkdirAll(filepath.Dir(p), 0o755)
		os.WriteFile(p, []byte(content), 0o644)
	}
}

func dig(b []byte) string {
	sum := sha256.Sum256(b)
	return fmt.Sprintf("%x", sum[:10])
}

func listDir(dir string) []any {
	out := []any{}
	filepath.Walk(dir, func(p string, info os.FileInfo, err error) error {
		if err != nil || info.IsDir() {
			return nil
		}
		rel, _ := filepath.Rel(dir, p)
		b, _ := os.ReadFile(p)
		out = append(out, N{"name": rel, "digest": dig(b)})
		return nil
	})
	sort.Slice(out, func(i, j int) bool { return out[i].(N)["name"].(string) < out[j].(N)["name"].(string) })
	return out
}

// pathForm spells the path p (absolute) the way the case asks for: the outcome of a tsh run may not depend on it.
func pathForm(c N, dir string, p string, isOut bool) string {
	pf, _ := c["pathForm"].(string)
	rel, _ := filepath.Rel(dir, p)
	switch pf {
	case "rel":
		return rel
	case "dot":
		if isOut {
			return "./" + rel + "/"
		}
		return "./" + rel
	case "trail":
		if isOut {
			return p + "/"
		}
	case "up":
		return filepath.Dir(p) + "/../" + filepath.Base(filepath.Dir(p)) + "/" + filepath.Base(p)
	case "cwdin":
		in := filepath.Join(dir, "in", c["input"].(string))
		r, _ := filepath.Rel(filepath.Dir(in), p)
		return r
	}
	return p
}

func cmdCli(args []string) {
	cases := readCases(args[0])
	scratch, tsh := args[2], args[3]
	var wg sync.WaitGroup
	sem := make(chan struct{}, 16)
	for i := range cases {
		wg.Add(1)
		sem <- struct{}{}
		go func(i int) {
			defer wg.Done()
			defer func() { <-sem }()
			c := cases[i]
			dir := filepath.Join(scratch, fmt.Sprintf("cli%05d", i))
			in := filepath.Join(dir, "in", c["input"].(string))
			outName := "out"
			if on, ok := c["outName"].(string); ok && on != "" {
				outName = on
			}
			out := filepath.Join(dir, outName)
			os.MkdirAll(filepath.Dir(in), 0o755)
			os.MkdirAll(out, 0o755)
			os.MkdirAll(filepath.Join(dir, "in", "adir.tsh"), 0o755)
			os.WriteFile(filepath.Join(dir, "afile"), []byte("x"), 0o644)
			prog := cliPrograms[c["kind"].(string)]
			os.WriteFile(in, []byte(prog), 0o644)
			writeExtra(c["kind"].(string), filepath.Dir(in))
			base := filepath.Base(in)
			base = base[:len(base)-len(filepath.Ext(base))]
			names := N{"bash": base + ".sh", "batch": base + ".bat"}
			if c["outState"] == "older" {
				junk := strings.Repeat("rem older and longer output of a previous run\r\n", 400)
				os.WriteFile(filepath.Join(out, base+".sh"), []byte(junk), 0o644)
				os.WriteFile(filepath.Join(out, base+".bat"), []byte(junk), 0o644)
				os.WriteFile(filepath.Join(out, "unrelated.txt"), []byte("keep"), 0o644)
			}
			// what the library returns (on a copy of the input, so that the tsh run cannot be influenced)
			lib := N{}
			cp := filepath.Join(dir, "libcopy", filepath.Base(in))
			os.MkdirAll(filepath.Dir(cp), 0o755)
			os.WriteFile(cp, []byte(prog), 0o644)
			writeExtra(c["kind"].(string), filepath.Dir(cp))
			for _, t := range []string{"bash", "batch"} {
				s, err, _ := transpileSafe(cp, t)
				if err != nil {
					lib[t] = "ERR"
				} else {
					lib[t] = dig([]byte(s))
				}
			}
			before := listDir(out)
			inBefore, _ := os.ReadFile(in)
			argv := []string{}
			for _, a := range list(c["argv"]) {
				s := a.(string)
				switch s {
				case "$IN":
					s = pathForm(c, dir, in, false)
				case "$OUT":
					s = pathForm(c, dir, out, true)
				case "$MISSING":
					s = filepath.Join(dir, "in", "missing.tsh")
				case "$INDIR":
					s = filepath.Join(dir, "in", "adir.tsh")
				case "$NOOUT":
					s = filepath.Join(dir, "no-such-dir")
				case "$OUTFILE":
					s = filepath.Join(dir, "afile")
				}
				argv = append(argv, s)
			}
			cmd := exec.Command(tsh, argv...)
			cmd.Dir = dir
			if c["pathForm"] == "cwdin" {
				cmd.Dir = filepath.Dir(in)
			}
			done := make(chan error, 1)
			cmd.Start()
			go func() { done <- cmd.Wait() }()
			exit := -1
			select {
			case <-done:
				exit = cmd.ProcessState.ExitCode()
			case <-time.After(20 * time.Second):
				cmd.Process.Kill()
				<-done
				exit = -9
			}
			inAfter, _ := os.ReadFile(in)
			c["exit"] = exit
			c["before"] = before
			c["after"] = listDir(out)
			c["lib"] = lib
			c["name"] = names
			c["inputSame"] = string(inBefore) == string(inAfter)
			os.RemoveAll(dir)
		}(i)
	}
	wg.Wait()
	writeCases(args[1], cases)
}
