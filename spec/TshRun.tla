------------------------------- MODULE TshRun -------------------------------
(* Trace validation of whole-program runs: every case carries the observation `obs` the harness  *)
(* recorded from the real pipeline (transpile, /bin/bash); the run of TshDyn must explain it.      *)
EXTENDS TshDyn, SequencesExt
Obs == Cases[ci].obs
Chk == IF "check" \in DOMAIN Cases[ci] THEN Cases[ci].check ELSE <<>>
Checks(what) == \E i \in 1..Len(Chk) : Chk[i] = what
FsSet == {[path |-> p, content |-> fs[p]] : p \in DOMAIN fs}
ObsFsSet == {Obs.fs[i] : i \in 1..Len(Obs.fs)}
OutOk == out = Obs.out /\ Code = Obs.code /\ Obs.errEmpty
FsOk == ~Checks("fs") \/ FsSet = ObsFsSet
AlogOk == ~Checks("alog") \/ alog = Obs.alog
Accepts == Obs.accepted /\ ~Obs.hang /\ OutOk /\ FsOk /\ AlogOk
Verdict == Terminal =>
  PrintT(ToJson([id |-> Cases[ci].id, st |-> status, steps |-> steps,
                 ok |-> (IsUndef \/ status = "diverge" \/ IsStuck \/ Accepts),
                 out |-> out, code |-> Code, fs |-> SetToSeq(FsSet), alog |-> alog]))
=============================================================================
