#!/usr/bin/env python3
"""Shared machinery of /verif/bin/check: scratch handling, harness build, TLC invocation and
output parsing, known-findings matching, evidence writing.  Standard library only."""
import fnmatch
import json
import os
import re
import shutil
import subprocess
import sys
import tempfile
import time

VERIF = os.path.dirname(os.path.dirname(os.path.abspath(__file__)))
REPO = os.environ.get("VERIF_REPO", "/repo")
SPEC = os.path.join(VERIF, "spec")
JAR = "/opt/veriftools/tla/tla2tools.jar:/opt/veriftools/tla/CommunityModules-deps.jar"
GOENV = dict(GOFLAGS="-mod=mod", GOPROXY="off", GOSUMDB="off", GOTOOLCHAIN="local")


class Infra(Exception):
    """Infrastructure failure: exit 2, never a violation."""


def log(*a):
    print(*a, file=sys.stderr, flush=True)


class Ctx:
    def __init__(self, prop, tier):
        self.prop = prop
        self.tier = os.environ.get("VERIF_TIER") or tier
        if self.tier not in ("quick", "thorough"):
            self.tier = "quick"
        try:
            self.seed = int(os.environ.get("VERIF_SEED", "1"))
        except ValueError:
            self.seed = 1
        self.t0 = time.time()
        base = os.environ.get("VERIF_SCRATCH_BASE") or tempfile.gettempdir()
        self.scratch = tempfile.mkdtemp(prefix="verif-%s-" % prop, dir=base)
        self.keep = bool(os.environ.get("VERIF_KEEP"))
        self.vh = None
        self.states = 0
        self.transitions = 0
        self.tlc_runs = []
        self.traces_validated = 0
        self.violations = []      # (case id, replay path, summary)
        self.known = []           # (finding id, case id)
        self.notes = {}
        # one case in `spell_share` is run once more in another legal spelling (progflow.respelled); 0 = off; set by the property modules
        self.spell_share = int(os.environ.get("VERIF_SPELL_SHARE", "0") or 0)
        self.samples = []
        self.evaluations = 0
        self.distinct = set()
        self.dropped = {}
        self.exhaustive = {}
        self.action_cov = {}      # "Module.Def" -> {action name: times taken} over the TLC runs instrumented with -coverage
        self.cov_runs = 0
        self.findings = load_findings(prop)
        # runs against a scratch copy of the repository (bin/seedtool: VERIF_REPO) keep their replay files and evidence out of /verif
        self.out_root = os.environ.get("VERIF_OUT") or VERIF
        self.replay_dir = os.path.join(self.out_root, "replay", prop)

    # ---- scratch -----------------------------------------------------------------------------
    def sub(self, name):
        d = os.path.join(self.scratch, name)
        os.makedirs(d, exist_ok=True)
        return d

    def cleanup(self):
        if not self.keep:
            shutil.rmtree(self.scratch, ignore_errors=True)
        else:
            log("scratch kept:", self.scratch)

    # ---- harness -----------------------------------------------------------------------------
    def build(self):
        """Builds the harness against REPO's current working tree (replace directive), with the
        verif build tag, and copies REPO/std next to the binary (std lookup is relative to the executable)."""
        hs = self.sub("harness")
        src = os.path.join(VERIF, "harness")
        for f in os.listdir(src):
            if f.endswith(".go"):
                shutil.copy(os.path.join(src, f), hs)
        with open(os.path.join(hs, "go.mod"), "w") as f:
            f.write("module vh\n\ngo 1.22.2\n\nrequire github.com/monstermichl/typeshell v0.0.0\n\n"
                    "replace github.com/monstermichl/typeshell => %s\n" % REPO)
        shutil.copy(os.path.join(REPO, "go.sum"), hs)
        bind = self.sub("bin")
        env = dict(os.environ, **GOENV)
        r = subprocess.run(["go", "build", "-tags", "verif astexport", "-o", os.path.join(bind, "vh"), "."],
                           cwd=hs, env=env, capture_output=True, text=True)
        self.astexport = r.returncode == 0
        if r.returncode != 0:
            # the tree exporter depends on the parser's getters; everything else only on Tokenize / Transpile / the Converter interface
            first = r.stderr
            r = subprocess.run(["go", "build", "-tags", "verif", "-o", os.path.join(bind, "vh"), "."],
                               cwd=hs, env=env, capture_output=True, text=True)
            if r.returncode != 0:
                raise Infra("harness build failed:\n" + r.stderr[-4000:])
            self.notes["harness_without_astexport"] = first[-600:]
            log("harness built WITHOUT the syntax-tree exporter (the repository's own test programs are left out):", first.strip().splitlines()[1:2])
        r = subprocess.run(["go", "build", "-tags", "verif", "-o", os.path.join(bind, "tsh"), "."],
                           cwd=REPO, env=env, capture_output=True, text=True)
        if r.returncode != 0:
            raise Infra("tsh build failed:\n" + r.stderr[-4000:])
        shutil.copytree(os.path.join(REPO, "std"), os.path.join(bind, "std"), dirs_exist_ok=True)
        self.vh = os.path.join(bind, "vh")
        self.tsh = os.path.join(bind, "tsh")
        return self.vh

    def run_vh(self, *args, timeout=3600, check=True, input=None):
        r = subprocess.run([self.vh] + [str(a) for a in args], capture_output=True, text=True,
                           timeout=timeout, input=input)
        if check and r.returncode != 0:
            raise Infra("vh %s failed (%d):\n%s" % (args[0], r.returncode, (r.stderr or r.stdout)[-4000:]))
        return r

    # ---- TLC ---------------------------------------------------------------------------------
    def tlc(self, module, cfg=None, workdir=None, files=(), timeout=1800, workers=16, extra=(), constants=None,
            simulate=None, count=True, cover=()):
        """Runs TLC on spec/<module>.tla in a scratch copy of spec/.  Returns (printed JSON values, stats)."""
        wd = workdir or self.sub("tlc-%d" % len(self.tlc_runs))
        for f in os.listdir(SPEC):
            if f.endswith(".tla") or f.endswith(".cfg"):
                shutil.copy(os.path.join(SPEC, f), wd)
        for src, name in files:
            if os.path.abspath(src) != os.path.abspath(os.path.join(wd, name)):
                shutil.copy(src, os.path.join(wd, name))
        cfgname = cfg or (module + ".cfg")
        if constants:
            text = open(os.path.join(wd, cfgname)).read()
            for k, v in constants.items():
                text, n = re.subn(r"(?m)^(\s*(?:CONSTANTS?\s+)?%s\s*=\s*).*$" % re.escape(k), lambda m: m.group(1) + v, text)
                if n != 1:
                    raise Infra("constant %s not found in %s" % (k, cfgname))
            cfgname = "gen-" + cfgname
            open(os.path.join(wd, cfgname), "w").write(text)
        meta = os.path.join(wd, "meta")
        cmd = ["timeout", str(timeout), "java", "-Xss512m", "-XX:+UseParallelGC", "-cp", JAR, "tlc2.TLC",
               "-workers", str(workers), "-metadir", meta, "-config", cfgname]
        if simulate:
            cmd += ["-simulate", simulate]
        # action coverage (vacuity guard): which rules of the machine did this conformance run exercise?  Always in the thorough tier; in the
        # quick tier only for small inputs (-coverage costs about half of TLC's time again) or on request (VERIF_COVER=1)
        instrument = bool(cover) and (self.tier == "thorough" or os.environ.get("VERIF_COVER") == "1" or
                                      sum(os.path.getsize(os.path.join(wd, name)) for _, name in files) < 1500000)
        if instrument:
            cmd += ["-coverage", "1"]
        cmd += list(extra) + [module + ".tla"]
        t = time.time()
        outp = os.path.join(wd, "tlc.out")
        with open(outp, "w") as fo:
            r = subprocess.run(cmd, cwd=wd, stdout=fo, stderr=subprocess.STDOUT)
        dt = time.time() - t
        text = open(outp, errors="replace").read()
        vals = []
        for line in text.splitlines():
            if line.startswith('"{') or line.startswith('"['):
                try:
                    vals.append(json.loads(json.loads(line)))
                except Exception:
                    raise Infra("unparsable TLC verdict line: " + line[:300])
        st = {"module": module, "wall_s": round(dt, 1), "exit": r.returncode}
        m = re.search(r"(\d+) states generated, (\d+) distinct states found", text)
        if m:
            st["generated"], st["distinct"] = int(m.group(1)), int(m.group(2))
        m = re.search(r"depth of the complete state graph search is (\d+)", text)
        if m:
            st["depth"] = int(m.group(1))
        ok = "Model checking completed. No error has been found." in text or \
             (simulate and r.returncode in (0,))
        if r.returncode == 124:
            raise Infra("TLC timeout after %ss on %s" % (timeout, module))
        if not ok:
            tail = "\n".join(l for l in text.splitlines() if not l.startswith('"{'))[-6000:]
            raise Infra("TLC run of %s did not complete cleanly (exit %d):\n%s" % (module, r.returncode, tail))
        if instrument:
            import tlccov
            for cmod, cdef in cover:
                src = open(os.path.join(SPEC, cmod + ".tla")).read().splitlines()
                acc = self.action_cov.setdefault(cmod + "." + cdef, {})
                for a, n in tlccov.action_counts(text, cmod, src, cdef).items():
                    acc[a] = acc.get(a, 0) + n
            self.cov_runs += 1
        if count:
            self.states += st.get("distinct", 0)
            self.transitions += st.get("generated", 0)
        self.tlc_runs.append(st)
        if not self.keep:
            shutil.rmtree(meta, ignore_errors=True)
        return vals, st

    def tlc_family(self, module, out="fam.ndjson", constants=None, timeout=1800):
        """Direction A: TLC evaluates the family defined in spec/<module>.tla and serialises it."""
        wd = self.sub("fam-%s-%d" % (module, len(self.tlc_runs)))
        self.tlc(module, workdir=wd, constants=constants, timeout=timeout, workers=1, count=False)
        p = os.path.join(wd, out)
        if not os.path.exists(p):
            raise Infra("family %s wrote no %s" % (module, out))
        return read_ndjson(p)

    # ---- findings / verdicts -----------------------------------------------------------------
    def classify(self, case_id, sig=""):
        """Returns the known finding matching a failing case, or None."""
        for f in self.findings:
            if f.get("status", "open") != "open":
                continue
            base_id = re.sub(r"@(brackets|lean|var|airy)$", "", case_id)       # a respelled case (progflow.respelled) is the same program
            if any(fnmatch.fnmatchcase(case_id, pat) or fnmatch.fnmatchcase(base_id, pat) for pat in f["match"]):
                if f.get("sig") and not re.search(f["sig"], sig or "", re.S):
                    continue
                return f
        return None

    def report_failure(self, case_id, payload, sig=""):
        f = self.classify(case_id, sig)
        if f is not None:
            self.known.append((f["id"], case_id))
            return False
        os.makedirs(self.replay_dir, exist_ok=True)
        import hashlib
        name = re.sub(r"[^A-Za-z0-9._-]+", "_", case_id)[:120] + "-" + hashlib.sha1(case_id.encode()).hexdigest()[:8] + ".json"
        path = os.path.join(self.replay_dir, name)
        with open(path, "w") as fo:
            json.dump(payload, fo, indent=1)
        self.violations.append((case_id, path, sig))
        return True

    # ---- finish ------------------------------------------------------------------------------
    def finish(self, level="model_checking", rule="", assumptions=(), extra=None):
        seen = {}
        for fid, cid in self.known:
            seen.setdefault(fid, []).append(cid)
        for fid, cids in sorted(seen.items()):
            f = next(x for x in self.findings if x["id"] == fid)
            print("KNOWN-FINDING: property=%s %s: %s (%d case(s), e.g. %s)" %
                  (self.prop, fid, f["what"], len(cids), cids[0]))
        for cid, path, sig in self.violations[:200]:
            print("VIOLATION property=%s replay=%s" % (self.prop, path))
            log("  case", cid, "--", (sig or "")[:300])
        cov = {
            "states": max(self.states, 0), "transitions": max(self.transitions, 0),
            "traces_validated_against_impl": self.traces_validated,
            "evaluations": self.evaluations, "distinct_nontrivial": len(self.distinct),
            "rule": rule, "samples": self.samples[:8] or ["(none)"],
            "tlc_runs": self.tlc_runs, "dropped": self.dropped, "exhaustive_families": self.exhaustive,
            "exhaustive": bool(self.exhaustive) and all(self.exhaustive.values()),
            "known_findings_hit": {k: len(v) for k, v in seen.items()},
        }
        if self.action_cov:
            cov["spec_actions_taken"] = self.action_cov
            cov["spec_actions_never_taken"] = sorted(k + ":" + a for k, d in self.action_cov.items() for a, n in d.items() if n == 0)
            cov["tlc_runs_with_action_coverage"] = self.cov_runs
        if extra:
            cov.update(extra)
        ev = {"property_id": self.prop, "tier": self.tier, "seed": self.seed, "level": level, "coverage": cov,
              "assumptions": list(assumptions), "wall_s": round(time.time() - self.t0, 1),
              "violations": len(self.violations)}
        os.makedirs(os.path.join(self.out_root, "evidence"), exist_ok=True)
        with open(os.path.join(self.out_root, "evidence", self.prop + ".json"), "w") as fo:
            json.dump(ev, fo, indent=1)
        self.cleanup()
        log("%s %s: %d evaluations, %d states, %d traces validated, %d known, %d violations, %.0fs" % (
            self.prop, self.tier, self.evaluations, self.states, self.traces_validated, len(self.known),
            len(self.violations), time.time() - self.t0))
        # vacuity: in the thorough tier every rule of the machine that this property is about must have been exercised by a validated run
        if self.tier == "thorough" and not self.violations:
            for key, acts in MUST_COVER.get(self.prop, {}).items():
                got = self.action_cov.get(key)
                if got is None:
                    continue
                never = [a for a in acts if got.get(a, 0) == 0]
                if never:
                    raise Infra("vacuous conformance run: actions of %s never taken in %s thorough: %s" % (key, self.prop, ", ".join(never)))
        # coverage floor: a run that validated far fewer traces than this check does on the unchanged tree has gone (partly) blind - cases
        # dropped as rejected / unsupported / undefined instead of compared. That is not a verdict (exit 2), never a silent pass.
        if not self.violations:
            fl = load_floors().get(self.prop, {}).get(self.tier)
            if fl and self.traces_validated < fl:
                raise Infra("%s %s validated %d traces, fewer than the floor of %d recorded for the unchanged tree (lib/floors.json): dropped = %r"
                            % (self.prop, self.tier, self.traces_validated, fl, self.dropped))
        return 1 if self.violations else 0


_SCALAR = ["BlockNext", "StmtDefineAssign", "Store", "StmtDesugar", "IfEvalAllConds", "IfDispatch", "SwitchDesugar", "SwitchEnd", "ForInit", "LoopHead",
           "LoopCond", "Break", "Continue", "StmtPrint", "PrintEmit", "ExprLeaf", "ExprPushOperands", "ApplyPure"]
_CALLS = ["StmtFunc", "StmtReturn", "Return", "CallExit", "CallEnter", "StmtExpr", "ExprDrop"]
_SLICES = ["StmtSetIdx", "SetIdxApply", "RangeDesugar", "ApplyLen", "ApplyIndex", "ApplySubstr", "SliceNew", "ApplyCopy"]
_EMIT = ["Simple", "ForStart", "Passive", "Break", "Continue", "ForEnd", "IfStart", "ElseX", "IfEnd", "FuncStart", "Return", "FuncEnd", "Panic", "ProgramEnd"]
_LEX = ["LexBlank", "LexNewline", "LexLineComment", "LexBlockComment", "LexString", "LexRaw", "LexNumber", "LexWord", "LexPunct", "LexError"]
# the rules of the specification each property is about: all of them must be taken by validated runs of the thorough tier
MUST_COVER = {
    "C01": {"TshDyn.Step": _SCALAR + ["StmtPanic", "PanicExit"]},
    "C02": {"TshDyn.Step": _SCALAR + _CALLS},
    "C03": {"TshDyn.Step": _SCALAR + _CALLS + _SLICES},
    "C04": {"TshDyn.Step": _SCALAR + _CALLS + _SLICES + ["StmtWrite", "WriteFile", "ApplyExists", "ApplyRead", "ApplyAppCall"]},
    "C05": {"TshDyn.Step": _SCALAR + _CALLS + _SLICES},
    # C08 is about the paths a string value takes (no jumps, no copy in its families); the base programs of C10 have loops without jumps
    "C08": {"TshDyn.Step": [a for a in _SCALAR + _CALLS + _SLICES if a not in ("Break", "Continue", "ApplyCopy")] + ["StmtWrite", "WriteFile", "ApplyRead", "ApplyInput", "ApplyAppCall"]},
    "C10": {"TshDyn.Step": [a for a in _SCALAR + _CALLS + _SLICES if a not in ("Break", "Continue")]},
    "C11": {"Lexer.Step": _LEX},
    "C16": {"Emit.Event": _EMIT},
    "C17": {"TshDyn.Step": ["StmtWrite", "WriteFile", "ApplyExists", "ApplyRead", "CallEnter", "IfDispatch"]},
    "C18": {"TshDyn.Step": ["ApplyAppCall", "CallEnter", "StmtExpr", "ExprDrop", "StmtDefineAssign"]},
}


def load_floors():
    p = os.path.join(VERIF, "lib", "floors.json")
    if os.path.exists(p):
        with open(p) as f:
            return json.load(f)
    return {}


def read_ndjson(path):
    out = []
    with open(path, errors="surrogateescape") as f:
        for line in f:
            line = line.strip()
            if line:
                out.append(json.loads(line))
    return out


def write_ndjson(path, items):
    with open(path, "w") as f:
        for it in items:
            f.write(json.dumps(it) + "\n")


def load_findings(prop):
    p = os.path.join(VERIF, "KNOWN_FINDINGS.jsonl")
    out = []
    if os.path.exists(p):
        for line in open(p):
            line = line.strip()
            if not line or line.startswith("#"):
                continue
            f = json.loads(line)
            if f.get("property") == prop:
                if isinstance(f.get("match"), str):
                    f["match"] = [f["match"]]
                out.append(f)
    return out


def avoid_tags():
    """Feature tags the random generators must not produce (open findings of any property)."""
    p = os.path.join(VERIF, "KNOWN_FINDINGS.jsonl")
    tags = set()
    if os.path.exists(p):
        for line in open(p):
            line = line.strip()
            if line and not line.startswith("#"):
                f = json.loads(line)
                if f.get("status", "open") == "open":
                    tags.update(f.get("avoid", []))
    return sorted(tags)


def first_diff(a, b):
    la, lb = a.split("\n"), b.split("\n")
    for i in range(max(len(la), len(lb))):
        x = la[i] if i < len(la) else "<end>"
        y = lb[i] if i < len(lb) else "<end>"
        if x != y:
            return "line %d: expected %r, observed %r" % (i + 1, x, y)
    return ""
