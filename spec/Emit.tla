--------------------------------- MODULE Emit ---------------------------------
(***************************************************************************)
(* The emission protocol between the transpiler and a converter, and the   *)
(* structural obligations on what a converter writes (C16; DESIGN.md 3.7). *)
(* A recorded trace is the sequence of Converter method calls of one       *)
(* Transpile run; each event carries the LINE FACTS of the lines that call *)
(* appended to the script: labels defined, labels jumped to, routines      *)
(* called, parentheses opened/closed.  The protocol is name-agnostic: it   *)
(* never looks at how a label is spelled, only at who owns it.             *)
(*   - Break's jump must land on the label that the ForEnd of the          *)
(*     innermost open loop defines; Continue's jump is that loop's head;   *)
(*     Return's jump the return label of the open function; the jumps of   *)
(*     ElseIf/Else/IfEnd land on the label IfEnd defines;                  *)
(*   - no label is defined twice; at the end every jump/call target is     *)
(*     defined, parentheses balance and never go negative, every helper    *)
(*     routine is present exactly when it is called;                       *)
(*   - closing events never meet an empty stack.                            *)
(***************************************************************************)
EXTENDS Integers, Sequences, FiniteSets, TLC, Json
Cases == ndJsonDeserialize("cases.ndjson")
VARIABLES ci, l, cons, defined, targets, called, depth, bad
vars == <<ci, l, cons, defined, targets, called, depth, bad>>
Trace == Cases[ci].events
Ev == Trace[l]
F == Ev.facts
SetOf(s) == {s[i] : i \in 1..Len(s)}
Defs == SetOf(F.defs)
Gotos == SetOf(F.gotos)
Calls == SetOf(F.calls)
NoDupDefs == Cardinality(Defs) = Len(F.defs) /\ Defs \cap defined = {}
Innermost(kind) == LET I == {i \in 1..Len(cons) : cons[i].kind = kind} IN
                   IF I = {} THEN 0 ELSE CHOOSE i \in I : \A j \in I : j <= i
TopC == cons[Len(cons)]
PopC == SubSeq(cons, 1, Len(cons) - 1)
Con(kind, head) == [kind |-> kind, head |-> head, pending |-> {}]

Init == ci \in 1..Len(Cases) /\ l = 1 /\ cons = <<>> /\ defined = {} /\ targets = {} /\ called = {} /\ depth = 0 /\ bad = ""

Common == /\ l' = l + 1
          /\ defined' = defined \cup Defs
          /\ targets' = targets \cup Gotos
          /\ called' = called \cup Calls
          /\ depth' = depth + F.open - F.close
Ok(cond, why) == IF bad = "" /\ (~cond \/ depth + F.minDepth < 0 \/ ~NoDupDefs)
                 THEN bad' = (IF ~NoDupDefs THEN "a label is defined twice" ELSE IF depth + F.minDepth < 0 THEN "a closing parenthesis without an opening one" ELSE why)
                 ELSE bad' = bad

Simple == /\ Ev.m = "Simple" /\ Common /\ UNCHANGED cons
          /\ Ok(Defs = {} /\ Gotos = {} /\ F.open = F.close, "a non-structural call emitted a label, a jump or unbalanced parentheses")
ForStart == /\ Ev.m = "ForStart" /\ Common
            /\ Ok(Cardinality(Defs) = 1 /\ Gotos = {}, "ForStart must define exactly one (fresh) head label")
            /\ cons' = Append(cons, Con("for", IF Defs = {} THEN "" ELSE CHOOSE x \in Defs : TRUE))
Passive(name) == /\ Ev.m = name /\ Common /\ UNCHANGED cons /\ Ok(Defs = {} /\ Gotos = {}, name \o " emitted a label or a jump")
Break == /\ Ev.m = "Break" /\ Common
         /\ LET i == Innermost("for") IN
            /\ Ok(i # 0 /\ Cardinality(Gotos) = 1 /\ Defs = {}, "Break outside a loop, or not exactly one jump")
            /\ cons' = IF i = 0 THEN cons ELSE [cons EXCEPT ![i].pending = @ \cup Gotos]
Continue == /\ Ev.m = "Continue" /\ Common /\ UNCHANGED cons
            /\ LET i == Innermost("for") IN
               Ok(i # 0 /\ Gotos = {cons[i].head}, "Continue must jump to the head of the innermost open loop")
ForEnd == /\ Ev.m = "ForEnd" /\ Common
          /\ Ok(Len(cons) > 0 /\ TopC.kind = "for" /\ TopC.pending \subseteq Defs /\ Gotos = {TopC.head},
                "ForEnd: a break does not land on this loop's end label, or the back-jump is not to this loop's head")
          /\ cons' = IF Len(cons) > 0 THEN PopC ELSE cons
IfStart == /\ Ev.m = "IfStart" /\ Common /\ cons' = Append(cons, Con("if", "")) /\ Ok(Defs = {} /\ Gotos = {}, "IfStart emitted a label or a jump")
ElseX == /\ Ev.m \in {"ElseIfStart", "ElseStart"} /\ Common
         /\ Ok(Len(cons) > 0 /\ TopC.kind = "if" /\ Defs = {} /\ Cardinality(Gotos) = 1, "else outside an if, or not exactly one jump out of the previous branch")
         /\ cons' = IF Len(cons) > 0 THEN [cons EXCEPT ![Len(cons)].pending = @ \cup Gotos] ELSE cons
IfEnd == /\ Ev.m = "IfEnd" /\ Common
         /\ Ok(Len(cons) > 0 /\ TopC.kind = "if" /\ (TopC.pending \cup Gotos) \subseteq Defs,
               "IfEnd: a branch jump does not land on the label this IfEnd defines")
         /\ cons' = IF Len(cons) > 0 THEN PopC ELSE cons
FuncStart == /\ Ev.m = "FuncStart" /\ Common /\ Ok(Cardinality(Gotos) = 1, "FuncStart must jump over the function body")
             /\ cons' = Append(cons, [kind |-> "func", head |-> "", pending |-> Gotos, rets |-> {}])
Return == /\ Ev.m = "Return" /\ Common
          /\ LET i == Innermost("func") IN
             /\ Ok(i # 0 /\ Cardinality(Gotos) = 1 /\ Defs = {}, "Return outside a function, or not exactly one jump")
             /\ cons' = IF i = 0 THEN cons ELSE [cons EXCEPT ![i].pending = @ \cup Gotos]
FuncEnd == /\ Ev.m = "FuncEnd" /\ Common
           /\ Ok(Len(cons) > 0 /\ TopC.kind = "func" /\ TopC.pending \subseteq Defs, "FuncEnd: the skip jump or a return jump does not land on a label this FuncEnd defines")
           /\ cons' = IF Len(cons) > 0 THEN PopC ELSE cons
Panic == /\ Ev.m = "Panic" /\ Common /\ UNCHANGED cons /\ Ok(Defs = {} /\ Cardinality(Gotos) = 1, "Panic must jump to the program's end label")
ProgramEnd == /\ Ev.m = "ProgramEnd" /\ Common /\ UNCHANGED cons
              /\ Ok(cons = <<>>, "ProgramEnd with an open construct")

Event == Simple \/ ForStart \/ Passive("ForIncrementStart") \/ Passive("ForIncrementEnd") \/ Passive("ForCondition")
         \/ Break \/ Continue \/ ForEnd \/ IfStart \/ ElseX \/ IfEnd \/ FuncStart \/ Return \/ FuncEnd \/ Panic \/ ProgramEnd
AtEnd == l > Len(Trace) \/ bad # ""
Next == (l <= Len(Trace) /\ bad = "" /\ Event /\ UNCHANGED ci) \/ (AtEnd /\ UNCHANGED vars)
Spec == Init /\ [][Next]_vars
Helpers == {"_ach", "_frh", "_fwh", "_sls", "_slg", "_sah", "_sch", "_stsh", "_stlh", "_seh", "_ech"}
Final == IF bad # "" THEN bad
         ELSE IF ~(targets \subseteq defined) THEN "a jump to a label that is never defined"
         ELSE IF ~(called \subseteq defined) THEN "a call of a routine the script does not contain"
         ELSE IF depth # 0 THEN "unbalanced parentheses"
         ELSE IF cons # <<>> THEN "a construct is never closed"
         ELSE IF (defined \cap Helpers) # (called \cap Helpers) THEN "a helper routine is present but never called"
         ELSE ""
\* labels are never forgotten and the stack only changes by one construct per event
Monotone == [][defined \subseteq defined' /\ targets \subseteq targets' /\ Len(cons') \in {Len(cons) - 1, Len(cons), Len(cons) + 1}]_vars
Verdict == AtEnd => PrintT(ToJson([id |-> Cases[ci].id, ok |-> (Final = ""), at |-> l - 1, why |-> Final,
                                   ev |-> IF bad # "" THEN Trace[l - 1].m ELSE "end"]))
=============================================================================
