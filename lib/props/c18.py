"""C18 - Command calls get exactly the given arguments; pipes and capture are exact."""
import progflow

RULE = ("direction A: TLC enumerates spec/FamC18.tla: one argument of each of 12 (thorough 20) string classes (plain, blank inside, leading dash, empty, glob, semicolon, "
        "dollar, quote, backslash, newline, tilde, repeated/leading blanks, ...) as literal / variable / computed value, as a statement and captured, at top level and in a "
        "function; every ordered pair of classes; the class in every position of 3..5 arguments; pipelines of 1..3 commands x statement/captured x 6 exit statuses of the "
        "last or first stage x top/function; sequences of calls. The callee is a probe that logs argv and stdin; TLC validates the recorded invocation log, stdout, "
        "captured output and status against TshDyn!ApplyAppCall. Distinct = distinct source text.")
ASSUME = ["the probe program (the harness binary under another name) reports its argv and stdin faithfully", "only the Bash target is executed; the Batch `_ach` path is covered structurally by C16"]


def run(ctx):
    fam = ctx.tlc_family("FamC18", constants={"Tier": '"%s"' % ctx.tier}, timeout=3000)
    ctx.exhaustive["FamC18"] = True
    failures = progflow.judge(ctx, fam, "fam")
    progflow.report(ctx, failures)
    return ctx.finish(rule=RULE, assumptions=ASSUME)
