------------------------------- MODULE FamC11 -------------------------------
(* Direction-A families for C11: all sequences of one or two (thorough: three) lexemes of a catalog with every   *)
(* separator of a catalog in between; all string-literal bodies of bounded length over an alphabet of units in  *)
(* both quote styles; error texts; position texts.                                                              *)
EXTENDS TshAst
CONSTANT Tier
Quick == Tier = "quick"

Lexemes == <<"a", "trueish", "nilx", "format", "falsey", "iff", "printx", "_x1", "X", "true", "false", "nil", "for", "if", "else", "func",
             "range", "len", "int", "error", "7", "007", "42", "-1", "\"s\"", "\"a b\"", "`r`", "`r\nq`", "/* c */", "/* a\nb */", "// c\n", "\n",
             "==", "=", ":=", "-", "--", "-=", "+", "++", "+=", "(", ")", "[", "]", "{", "}", "<", "<=", ">", ">=", "!", "!=", "&&", "||", "|", "/", "/=", "*", "*=", "%", "%=",
             ".", ",", ":", ";", "@">>
Small == <<"a", "trueish", "true", "nil", "7", "-1", "\"s\"", "`r\nq`", "/* c */", "// c\n", "\n", "=", "-", "--", "(", ")", "<", "!", "/", "*", ".">>
Seps == <<"", " ", "\t", "  ", "\n", "\r\n">>
SepName == <<"none", "sp", "tab", "sp2", "lf", "crlf">>
T1 == {[id |-> "C11/one/" \o ToString(i), text |-> Lexemes[i]] : i \in 1..Len(Lexemes)}
T2 == {[id |-> "C11/two/" \o ToString(i) \o "." \o SepName[s] \o "." \o ToString(j), text |-> Lexemes[i] \o Seps[s] \o Lexemes[j]]
       : i \in 1..Len(Lexemes), j \in 1..Len(Lexemes), s \in 1..Len(Seps)}
T3 == IF Quick THEN {}
      ELSE {[id |-> "C11/three/" \o ToString(i) \o "." \o SepName[s] \o "." \o ToString(j) \o "." \o SepName[u] \o "." \o ToString(k),
             text |-> Small[i] \o Seps[s] \o Small[j] \o Seps[u] \o Small[k]]
            : i \in 1..Len(Small), j \in 1..Len(Small), k \in 1..Len(Small), s \in {1, 2, 5}, u \in {1, 2, 5}}

\* string bodies: sequences of units; "~" is the placeholder of a two-byte UTF-8 letter (mapped by the harness)
IUnits == <<"a", "\\\"", "\\\\", "\\n", "\\t", "`", " ", "~", "//", "/*", "\\x41", "\\101", "\\u0041", "'", "$", "\\xff", "\\x80", "\\377", "\\200", "\\u00e9", "\\u00ff", "\\x00", "\\x7f", "\\r", "\\033", "\\a", "\\b", "\\f", "\\v">>
RUnits == <<"a", "\"", "\\", "n", "\n", " ", "~", "//", "\\n">>
RECURSIVE Bodies(_, _)
Bodies(units, n) == IF n = 0 THEN {""} ELSE Bodies(units, n - 1) \cup {b \o units[i] : b \in Bodies(units, n - 1), i \in 1..Len(units)}
MaxBody == IF Quick THEN 2 ELSE 3
StrI == {[id |-> "C11/istr/" \o b, text |-> "\"" \o b \o "\"", nopos |-> TRUE] : b \in Bodies(IUnits, MaxBody)}
StrR == {[id |-> "C11/rstr/" \o b, text |-> "`" \o b \o "`", nopos |-> TRUE] : b \in Bodies(RUnits, MaxBody)}
\* the same bodies followed by a token on the same and on the next line: positions after a string (ASCII bodies only)
StrPos == {[id |-> "C11/strpos/" \o b, text |-> "x := \"" \o b \o "\" + y\nz"] : b \in Bodies(<<"a", "\\\"", "\\n", " ", "//">>, 2)}
          \cup {[id |-> "C11/rawpos/" \o b, text |-> "x := `" \o b \o "` + y\nz"] : b \in Bodies(<<"a", "\"", "\n", " ">>, 2)}

Bad == <<"#", "$", "?", "~", "^", "&", "'", "\\", "\r">>
Errors == {[id |-> "C11/err/unknown/" \o ToString(i) \o "/" \o ToString(p), text |-> (CASE p = 1 -> Bad[i] [] p = 2 -> "a " \o Bad[i] [] p = 3 -> Bad[i] \o " a" [] p = 4 -> "a := 1\n" \o Bad[i] \o "\n")]
           : i \in 1..Len(Bad), p \in 1..4}
          \cup {[id |-> "C11/err/unterminated/" \o ToString(i), text |-> t[i]] : i \in 1..6, t \in {<<"\"abc", "`abc", "x := \"a\\\"", "\"", "`", "a \"b\nc">>}}
          \cup {[id |-> "C11/err/escape/" \o ToString(i), text |-> "\"" \o t[i] \o "\""] : i \in 1..5, t \in {<<"\\q", "\\x4", "\\8", "\\'", "a\\">>}}

\* positions across comments, multi-line tokens and mixed line ends
\* long lines and long files: tokens that start beyond column 255 / 999, rows beyond 999, tokens of hundreds of characters
RECURSIVE RepT(_, _)
RepT(c, n) == IF n = 0 THEN "" ELSE c \o RepT(c, n - 1)
ScaleTexts == <<"x := a" \o RepT(" + a", 70) \o "\ny", "print(\"" \o RepT("w ", 200) \o "\") + z\nq", RepT("i", 300) \o " 12345678901234567890 b", "/* " \o RepT("c ", 150) \o "*/ after := 1\nnext",
                RepT(" ", 255) \o "a b", RepT(" ", 256) \o "a b", RepT("\t", 300) \o "a", RepT("a := 1\n", 105) \o "x := a" \o RepT(" + a", 64) \o "\nz", "a " \o RepT("/**/", 70) \o " b c",
                "s := `" \o RepT("r", 300) \o "` + t", "a" \o RepT("\n", 300) \o "b c", RepT("x1 ", 90) \o "\"unterminated", RepT("(", 130) \o "a" \o RepT(")", 130) \o " b">>
ScaleCases == {[id |-> "C11/scale/" \o ToString(i), text |-> ScaleTexts[i]] : i \in 1..Len(ScaleTexts)}
PosTexts == <<"a /* c */ -1", "f(x) /* c */ -1", "a /* c */-1", "a // c\n-1", "1 /**/ -2", "s[0] /* */ -1", "\"s\" /* c */ -1", "true /* c */ -1", "a /* c */ - 1", "x = /* c */ -1", "a /* c */ /* d */ -1", "`x\r\ny` z", "x := `a\r\n\r\nb` + c\r\nd", "`\r\n`", "a `b\rc` d", "/* a\r\nb */ c", "a // c\r\nb `c\r\nd`\r\ne", "a /* c */ b", "a/* c */b /* d */ c", "/* x\ny */ a b", "a /* x\ny\nz */ b\nc", "`a\nb` c d", "x := `\n\n` y", "a // c\nb", "a\r\nb\r\n\tc", "\n\n  a", "a  \n", "\ta\t\tb", "a\n", "a", "", "\n", " ", "if a {\n\tb++\n}\n",
              "/* one */ a := 1 /* two */", "a /**/ b", "a /***/ b", "x /* * / */ y", "a //\nb", "a // c", "//", "/**/", "a //c\r\nb"," a-1", "a - 1", "a -1", "a- 1", "(a)-1", "f(-1)", "x = -1", "x[-1]", "a--1", "1-1", "\"s\"-1", "true-1", "nil-1",
              "a.b", "1.b", "a..b", "a:=b", "a: =b", "a<=b", "a< =b", "a&&b", "a||b", "a|b", "a!=b", "a! =b", "!a", "!!a", "a+++b", "a---b", "a+=-1", "a==-1", "a*-1">>
Pos == {[id |-> "C11/pos/" \o ToString(i), text |-> PosTexts[i]] : i \in 1..Len(PosTexts)}

All == T1 \cup T2 \cup T3 \cup Errors \cup Pos \cup StrPos \cup ScaleCases
AllStr == StrI \cup StrR
ASSUME ndJsonSerialize("fam.ndjson", SetToSeq(All))
ASSUME ndJsonSerialize("famstr.ndjson", SetToSeq(AllStr))
=============================================================================
