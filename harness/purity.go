package main

// C14 support.
// vh purity <histories.ndjson> <out.ndjson> <scratch>: replays every history of Transpile calls into the real library:
//   mode "same"      - the same transpiler object as the previous call of this process (a fresh converter per call, as the library assumes)
//   mode "newobj"    - a new transpiler object in the same process
//   mode "newproc"   - a new OS process (this binary, `vh purityrun`)
//   mode "relocated" / "relocatedproc" - the call reads a byte-identical copy of the source tree at another location
// and records, per call, the key (content id of the program's tree, target) and the digest of what was returned.
// Several processes per history sample Go's map iteration seeds.

import (
	"crypto/sha256"
	"encoding/json"
	"fmt"
	"os"
	"os/exec"
	"path/filepath"
	"strings"
	"sync"

	"github.com/monstermichl/typeshell/transpiler"
)

var purityTrees = map[string]map[string]string{
	// "silent" programs: no helper routine, no function, no string, a few global lines at most (whatever a conversion appends to shared storage shows later)
	"silent0": {"main.tsh": "// nothing to do\n"},
	"silent1": {"main.tsh": "var retries int = 3\n"},
	"silent3": {"main.tsh": "var a int = 1\nvar b int = 2\nc := a + b\n"},
	// Batch emits some definitions on first use (the LF variable for string defaults / literals with a line break, helper routines): a later program that
	// needs the same thing through another route must still get it
	"strdefA": {"main.tsh": "tags := []string{}\ntags[2] = \"x\"\nprint(len(tags), tags[0], tags[2])\n"},
	"strdefB": {"main.tsh": "var lines []string\nfor i := 0; i < 2; i++ {\n\tlines[i*2] = input()\n}\nprint(len(lines))\n"},
	"strdefC": {"main.tsh": "func pad(n int) []string {\n\tvar r []string\n\tr[n] = itoa(n)\n\treturn r\n}\nt := pad(3)\nprint(len(t))\n"},
	"nlA":     {"main.tsh": "s := \"a\\nb\"\nprint(s, len(s))\n"},
	"nlB":     {"main.tsh": "var b []bool\nb[1] = true\nvar n []int\nn[2] = 5\nprint(len(b), len(n), b[0], n[1])\n"},
	// two DIFFERENT paths with IDENTICAL bytes (a copied module), directly and behind two other imports: whatever tells the copies apart must not depend on where the tree lives
	"copies": {"main.tsh": "import (\n\ta \"one/unit.tsh\"\n\tb \"two/unit.tsh\"\n)\n\nprint(a.Next(), b.Next(), a.Next())\n",
		"one/unit.tsh": "count := 0\nfunc Next() int {\n\tcount++\n\treturn count\n}\nprint(\"unit ready\")\n",
		"two/unit.tsh": "count := 0\nfunc Next() int {\n\tcount++\n\treturn count\n}\nprint(\"unit ready\")\n"},
	"copies2": {"main.tsh": "import (\n\tl \"left.tsh\"\n\tr \"right.tsh\"\n)\n\nprint(l.L(), r.R(), l.L())\n",
		"left.tsh":        "import u \"x/unit.tsh\"\n\nfunc L() string {\n\treturn \"l\" + itoa(u.Next())\n}\n",
		"right.tsh":       "import u \"y/z/unit.tsh\"\n\nfunc R() string {\n\treturn \"r\" + itoa(u.Next())\n}\n",
		"x/unit.tsh":   "var count int = 10\nfunc Next() int {\n\tcount += 2\n\treturn count\n}\n",
		"y/z/unit.tsh": "var count int = 10\nfunc Next() int {\n\tcount += 2\n\treturn count\n}\n"},
	// one caller known to TWO import parsers, with several callees (round 9: the merged callee list took the order of a map iteration and the order of the
	// function definitions in the script followed it): two imports that both call several of their functions at import time; a file with such functions
	// reached along two paths; the same file under two aliases
	"impcalls": {"main.tsh": "import (\n\talpha \"alpha.tsh\"\n\tbeta \"beta.tsh\"\n)\n\nprint(alpha.Alpha(), beta.Beta())\n",
		"alpha.tsh": "func a1() string {\n\treturn \"a1\"\n}\nfunc a2() string {\n\treturn \"a2\"\n}\nfunc a3() string {\n\treturn \"a3\"\n}\nfunc a4() string {\n\treturn \"a4\"\n}\nfunc Alpha() string {\n\treturn a1() + a2() + a3() + a4()\n}\nprint(\"alpha\", a4(), a3(), a2(), a1())\n",
		"beta.tsh":  "func b1() string {\n\treturn \"b1\"\n}\nfunc b2() string {\n\treturn \"b2\"\n}\nfunc b3() string {\n\treturn \"b3\"\n}\nfunc Beta() string {\n\treturn b1() + b2() + b3()\n}\nprint(\"beta\", b1(), b2(), b3())\n"},
	"diamondcalls": {"main.tsh": "import (\n\tl \"left.tsh\"\n\tr \"right.tsh\"\n)\n\nprint(l.L(), r.R())\n",
		"left.tsh":  "import c \"core.tsh\"\n\nfunc L() string {\n\treturn \"l\" + c.All()\n}\nprint(\"left\", c.One(), c.Two())\n",
		"right.tsh": "import c \"core.tsh\"\n\nfunc R() string {\n\treturn \"r\" + c.All() + c.Three()\n}\nprint(\"right\", c.Three(), c.Two())\n",
		"core.tsh":  "func One() string {\n\treturn \"1\"\n}\nfunc Two() string {\n\treturn \"2\"\n}\nfunc Three() string {\n\treturn \"3\"\n}\nfunc tail() string {\n\treturn \".\"\n}\nfunc All() string {\n\treturn One() + Two() + Three() + tail()\n}\nprint(\"core\", All(), tail())\n"},
	"twicecalls": {"main.tsh": "import (\n\tp \"core.tsh\"\n\tq \"core.tsh\"\n)\n\nprint(p.All(), q.One(), q.Three())\n",
		"core.tsh": "func One() string {\n\treturn \"1\"\n}\nfunc Two() string {\n\treturn \"2\"\n}\nfunc Three() string {\n\treturn \"3\"\n}\nfunc All() string {\n\treturn One() + Two() + Three()\n}\nprint(\"core\", Three(), Two(), One(), All())\n"},
	"plain": {"main.tsh": "a := 3\nfor i := 0; i < a; i++ {\n\tif i == 1 {\n\t\tcontinue\n\t}\n\tprint(i)\n}\ns := []int{1, 2}\ns[3] = 4\nprint(len(s), \"x\"[0:1])\n"},
	"dirA": {"main.tsh": "import u \"util.tsh\"\n\nprint(u.Label(1), u.Twice(2))\n",
		"util.tsh": "func Label(n int) string {\n\treturn \"item-\" + itoa(n)\n}\nfunc Twice(n int) int {\n\treturn n * 2\n}\nfunc Unused() int {\n\treturn 0\n}\n"},
	"dirB": {"main.tsh": "import u \"util.tsh\"\n\nprint(u.Label(1), u.Twice(2))\n",
		"util.tsh": "func Label(n int) string {\n\treturn \"[row \" + itoa(n) + \"]\"\n}\nfunc Twice(n int) int {\n\tm := n + n\n\treturn m\n}\n"},
	"stdmany": {"main.tsh": "import (\n\t\"strings\"\n\th \"help.tsh\"\n)\nfunc a1() int {\n\treturn h.One()\n}\nfunc a2() int {\n\treturn a1() + h.Two()\n}\nfunc a3(s string) bool {\n\treturn strings.Contains(s, \"x\") && strings.HasPrefix(s, \"a\")\n}\nfunc a4() string {\n\treturn strings.Join(strings.Split(\"a,b\", \",\"), \"-\")\n}\nprint(a2(), a3(\"ax\"), a4(), strings.Repeat(\"ab\", 2), strings.TrimSpace(\" q \"))\n",
		"help.tsh": "func One() int {\n\treturn 1\n}\nfunc Two() int {\n\treturn One() + 1\n}\nfunc Three() int {\n\treturn 3\n}\n"},
}

// programs that share imported files by path: util.tsh has global variables and top-level code, lib.tsh imports it
var sharedTree = map[string]string{
	"util.tsh": "greeting := \"hello\"\ncount := 0\nfunc Greet(n string) string {\n\tcount++\n\treturn greeting + \" \" + n\n}\nfunc Count() int {\n\treturn count\n}\nprint(\"util ready\")\n",
	"lib.tsh":  "import u \"util.tsh\"\n\nprefix := \"[lib]\"\nfunc Say(n string) string {\n\treturn prefix + u.Greet(n)\n}\nprint(\"lib ready\")\n",
	"shA.tsh":  "import (\n\tu \"util.tsh\"\n\tl \"lib.tsh\"\n)\n\nprint(u.Greet(\"a\"), l.Say(\"b\"), u.Count())\n",
	"shB.tsh":  "import l \"lib.tsh\"\n\nprint(l.Say(\"world\"))\n",
	"shC.tsh":  "import (\n\tl \"lib.tsh\"\n\tu \"util.tsh\"\n)\n\nprint(l.Say(\"c\"), u.Count())\n",
	"shD.tsh":  "import u \"util.tsh\"\n\nprint(u.Greet(\"d\"))\n",
	"shBad.tsh": "import l \"lib.tsh\"\n\nx := 1\nx = l.Say(\"oops\")\n",
	// fails while a function body is being parsed (undefined name in a return), after a function that parsed well
	"shBadFn.tsh": "import l \"lib.tsh\"\n\nfunc fine(n int) int {\n\treturn n + 1\n}\nfunc broken(s string) string {\n\tfor i := 0; i < 2; i++ {\n\t\tif i == 1 {\n\t\t\treturn l.Say(s) + missing\n\t\t}\n\t}\n\treturn s\n}\nprint(fine(1), broken(\"x\"))\n",
}

// programs at one and the same path whose imported file is rewritten between calls (versions 1 and 2)
var mutMain = "import u \"util.tsh\"\n\nprint(u.Label(1), u.Twice(2))\n"
var mutUtil = map[string]string{
	"mut1": "base := 10\nfunc Label(n int) string {\n\treturn \"v1-\" + itoa(n + base)\n}\nfunc Twice(n int) int {\n\treturn n * 2\n}\n",
	"mut2": "base := 20\nfunc Label(n int) string {\n\treturn \"v2-\" + itoa(n + base)\n}\nfunc Twice(n int) int {\n\tm := n + n\n\treturn m\n}\nfunc Extra() int {\n\treturn base\n}\n",
}

// mainFile returns the file to transpile for a program; programs mut1/mut2 (re)write their tree first
func mainFile(root, prog, tag string) string {
	if _, ok := sharedTree[prog+".tsh"]; ok && prog != "util" && prog != "lib" {
		return filepath.Join(root, "shared", prog+".tsh")
	}
	if u, ok := mutUtil[prog]; ok {
		dir := filepath.Join(root, "mut", tag)
		os.MkdirAll(dir, 0o755)
		os.WriteFile(filepath.Join(dir, "main.tsh"), []byte(mutMain), 0o644)
		os.WriteFile(filepath.Join(dir, "util.tsh"), []byte(u), 0o644)
		return filepath.Join(dir, "main.tsh")
	}
	// gen<k>: distinct small programs written on demand (long histories: pools, rings and caches of fixed size)
	if strings.HasPrefix(prog, "gen") {
		dir := filepath.Join(root, "gen", tag, prog)
		os.MkdirAll(dir, 0o755)
		k := strings.TrimPrefix(prog, "gen")
		os.WriteFile(filepath.Join(dir, "main.tsh"), []byte("import \"strings\"\n\nfunc f"+k+"(n int) int {\n\treturn n + "+k+"\n}\nv := f"+k+"("+k+")\nprint(v, strings.Repeat(\"g"+k+"\", 2))\n"), 0o644)
		return filepath.Join(dir, "main.tsh")
	}
	return filepath.Join(root, prog, "main.tsh")
}

func writeTrees(root string) {
	for name, content := range sharedTree {
		p := filepath.Join(root, "shared", name)
		os.MkdirAll(filepath.Dir(p), 0o755)
		os.WriteFile(p, []byte(content), 0o644)
	}
	for prog, files := range purityTrees {
		for name, content := range files {
			p := filepath.Join(root, prog, name)
			os.MkdirAll(filepath.Dir(p), 0o755)
			os.WriteFile(p, []byte(content), 0o644)
		}
	}
}

type pop struct {
	Prog   string `json:"prog"`
	Target string `json:"target"`
	Mode   string `json:"mode"`
}
type pevent struct {
	Key    string `json:"key"`
	Digest string `json:"digest"`
	Mode   string `json:"mode"`
}

func digestOf(script string, err error, panicked bool) string {
	if panicked {
		return "PANIC"
	}
	if err != nil {
		return "ERR"
	}
	sum := sha256.Sum256([]byte(script))
	return fmt.Sprintf("%x", sum[:12])
}

// runSegment executes ops in THIS process; the transpiler object is reused for mode "same".
func runSegment(ops []pop, orig, reloc, tag string) []pevent {
	out := []pevent{}
	t := transpiler.New()
	for _, o := range ops {
		root := orig
		if o.Mode == "relocated" || o.Mode == "relocatedproc" {
			root = reloc
		}
		if o.Mode != "same" {
			t = transpiler.New()
		}
		file := mainFile(root, o.Prog, tag)
		var script string
		var err error
		panicked := false
		func() {
			defer func() {
				if r := recover(); r != nil {
					panicked = true
				}
			}()
			script, err = t.Transpile(file, newConverter(o.Target))
		}()
		out = append(out, pevent{Key: o.Prog + "/" + o.Target, Digest: digestOf(script, err, panicked), Mode: o.Mode})
	}
	return out
}

// cmdPurityRun: vh purityrun <orig> <reloc> <ops-json> [case tag]  (one process = one segment)
func cmdPurityRun(args []string) {
	var ops []pop
	if err := json.Unmarshal([]byte(args[2]), &ops); err != nil {
		fatal("purityrun: %v", err)
	}
	tag := "t"
	if len(args) > 3 {
		tag = args[3]
	}
	b, _ := json.Marshal(runSegment(ops, args[0], args[1], tag))
	os.Stdout.Write(b)
}

func cmdPurity(args []string) {
	cases := readCases(args[0])
	scratch := args[2]
	orig, reloc := filepath.Join(scratch, "tree"), filepath.Join(scratch, "elsewhere", "deeper", "copy")
	writeTrees(orig)
	writeTrees(reloc)
	self, _ := os.Executable()
	var wg sync.WaitGroup
	sem := make(chan struct{}, 16)
	for i := range cases {
		wg.Add(1)
		sem <- struct{}{}
		go func(i int) {
			defer wg.Done()
			defer func() { <-sem }()
			var ops []pop
			b, _ := json.Marshal(cases[i]["ops"])
			json.Unmarshal(b, &ops)
			// split into process segments
			segs := [][]pop{}
			for k, o := range ops {
				if k == 0 || o.Mode == "newproc" || o.Mode == "relocatedproc" {
					segs = append(segs, []pop{})
				}
				segs[len(segs)-1] = append(segs[len(segs)-1], o)
			}
			events := []any{}
			for _, seg := range segs {
				js, _ := json.Marshal(seg)
				outb, err := exec.Command(self, "purityrun", orig, reloc, string(js), fmt.Sprintf("c%d", i)).Output()
				var evs []pevent
				if err != nil || json.Unmarshal(outb, &evs) != nil {
					for _, o := range seg {
						evs = append(evs, pevent{Key: o.Prog + "/" + o.Target, Digest: "CRASH", Mode: o.Mode})
					}
				}
				for _, e := range evs {
					events = append(events, N{"key": e.Key, "digest": e.Digest, "mode": e.Mode})
				}
			}
			cases[i]["events"] = events
		}(i)
	}
	wg.Wait()
	writeCases(args[1], cases)
}
