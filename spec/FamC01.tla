------------------------------- MODULE FamC01 -------------------------------
(* Direction-A families for C01 (scalar expressions and control flow under Bash).  TLC enumerates   *)
(* these sets from the definitions below and serialises them; the harness replays every member into *)
(* the real pipeline and TshRun validates each recorded run.                                        *)
EXTENDS TshAst
CONSTANT Tier
Quick == Tier = "quick"

ArithOps == {"+", "-", "*", "/", "%"}
IntLeaves == {"0", "1", "2", "7", "-1", "-7", MaxInt64, MinInt64}
SmallLeaves == {"0", "1", "2", "7", "-1", "-7"}
Triples == IF Quick
           THEN {<<"7", "3", "2">>, <<"-7", "2", "-3">>, <<MaxInt64, "2", "3">>, <<MinInt64, "-1", "5">>, <<"1", "0", "4">>,
                 <<"100", "-7", "7">>, <<"2", "2", "2">>, <<"-1", "-1", "-1">>, <<"0", "5", "0">>, <<"12", "5", "-5">>}
           ELSE {<<a, b, c>> : a \in IntLeaves, b \in SmallLeaves, c \in IntLeaves}
Shapes == {"flat", "left", "right"}
Shape3(sh, o1, o2, a, b, c) == CASE sh = "flat" -> Flat3(o1, o2, a, b, c) [] sh = "left" -> LeftG3(o1, o2, a, b, c)
                                 [] sh = "right" -> RightG3(o1, o2, a, b, c)

\* (1) arithmetic
Arith1 == {CaseOf("C01/arith1/" \o o \o "/" \o a \o "," \o b, <<Print1(Bin(o, IntL(a), IntL(b)))>>)
           : o \in ArithOps, a \in IntLeaves, b \in IntLeaves}
Arith2 == {CaseOf("C01/arith2/" \o sh \o "/" \o o1 \o o2 \o "/" \o t[1] \o "," \o t[2] \o "," \o t[3],
                  <<Print1(Shape3(sh, o1, o2, IntL(t[1]), IntL(t[2]), IntL(t[3])))>>)
           : sh \in Shapes, o1 \in ArithOps, o2 \in ArithOps, t \in Triples}
ArithVar == {CaseOf("C01/arithvar/" \o o1 \o o2 \o "/" \o t[1] \o "," \o t[2] \o "," \o t[3],
                    <<Def1("a", IntL(t[1])), VarDef(<<"b">>, "int", <<IntL(t[2])>>), Def1("c", IntL(t[3])),
                      Def1("r", Flat3(o1, o2, Var("a"), Var("b"), Var("c"))), PrintS(<<Var("r"), Itoa(Var("r"))>>)>>)
             : o1 \in ArithOps, o2 \in ArithOps, t \in (IF Quick THEN {<<"7", "3", "2">>, <<MinInt64, "-1", "5">>, <<"-7", "2", "-3">>} ELSE Triples)}
\* three operators, thorough only: a o1 b o2 c o3 d as Go parses it, built by precedence climbing over the flat spelling
Arith3 == IF Quick THEN {}
          ELSE {CaseOf("C01/arith3/" \o o1 \o o2 \o o3 \o "/" \o q[1] \o "," \o q[2] \o "," \o q[3] \o "," \o q[4],
                       <<Print1(FlatN(<<IntL(q[1]), IntL(q[2]), IntL(q[3]), IntL(q[4])>>, <<o1, o2, o3>>))>>)
                : o1 \in ArithOps, o2 \in ArithOps, o3 \in ArithOps,
                  q \in {<<"7", "3", "2", "5">>, <<"-7", "2", "-3", "4">>, <<MaxInt64, "2", "3", "-1">>, <<"100", "7", "-7", "3">>}}

\* (2) booleans, comparisons
LogicOps == {"&&", "||"}
Bools == {TRUE, FALSE}
BStr(b) == IF b THEN "T" ELSE "F"
Logic2 == {CaseOf("C01/logic2/" \o sh \o "/" \o o1 \o o2 \o "/" \o BStr(p) \o BStr(q) \o BStr(r),
                  <<Print1(Shape3(sh, o1, o2, BoolL(p), BoolL(q), BoolL(r)))>>)
           : sh \in Shapes, o1 \in LogicOps, o2 \in LogicOps, p \in Bools, q \in Bools, r \in Bools}
LogicNot == {CaseOf("C01/logicnot/" \o o1 \o "/" \o BStr(p) \o BStr(q) \o "/" \o v,
                    <<Def1("p", BoolL(p)), Def1("q", BoolL(q)),
                      Print1(CASE v = "np" -> Lgc(o1, Not(Var("p")), Var("q"))
                               [] v = "nq" -> Lgc(o1, Var("p"), Not(Var("q")))
                               [] v = "ng" -> Not(Grp(Lgc(o1, Var("p"), Var("q"))))
                               [] v = "nn" -> Lgc(o1, Not(Var("p")), Not(Grp(Var("q")))))>>)
             : o1 \in LogicOps, p \in Bools, q \in Bools, v \in {"np", "nq", "ng", "nn"}}
CmpOps == {"==", "!=", "<", "<=", ">", ">="}
IntPairs == {<<"1", "2">>, <<"2", "1">>, <<"2", "2">>, <<"-1", "1">>, <<MinInt64, MaxInt64>>, <<MaxInt64, MaxInt64>>, <<"-7", "-8">>, <<"0", "-0">>}
CmpInt == {CaseOf("C01/cmpint/" \o o \o "/" \o t[1] \o "," \o t[2], <<Def1("a", IntL(t[1])), PrintS(<<CmpE(o, Var("a"), IntL(t[2])), CmpE(o, IntL(t[1]), IntL(t[2]))>>)>>)
           : o \in CmpOps, t \in IntPairs}
Strs == {"", "a", "b", "ab", "a b", "A", "10", "9"}
CmpStr == {CaseOf("C01/cmpstr/" \o o \o "/" \o s \o "," \o u, <<Def1("s", StrL(s)), PrintS(<<CmpE(o, Var("s"), StrL(u)), CmpE(o, StrL(s), StrL(u))>>)>>)
           : o \in {"==", "!="}, s \in Strs, u \in Strs}
CmpBool == {CaseOf("C01/cmpbool/" \o o \o "/" \o BStr(p) \o BStr(q), <<Def1("p", BoolL(p)), PrintS(<<CmpE(o, Var("p"), BoolL(q)), CmpE(o, BoolL(p), BoolL(q))>>)>>)
            : o \in {"==", "!="}, p \in Bools, q \in Bools}
\* negation over every kind of operand: a grouped comparison (every operator x smaller / equal / greater, literals and variables), nested groups,
\* double negation, grouped string and bool comparisons; printed, as an if condition and as a loop condition
Lbl(s) == Print1(StrL(s))
NotForms == {"lit", "var", "grp2", "notnot", "assigned"}
NotExpr(f, o, a, b) == CASE f = "lit" -> Not(Grp(CmpE(o, IntL(a), IntL(b)))) [] f = "var" -> Not(Grp(CmpE(o, Var("a"), Var("b"))))
                         [] f = "grp2" -> Not(Grp(Grp(CmpE(o, Var("a"), IntL(b))))) [] f = "notnot" -> Not(Not(Grp(CmpE(o, Var("a"), Var("b")))))
                         [] f = "assigned" -> Not(Var("c"))
NotCmp == {CaseOf("C01/notcmp/" \o f \o "/" \o o \o "/" \o t[1] \o "," \o t[2],
                  <<Def1("a", IntL(t[1])), Def1("b", IntL(t[2])), Def1("c", CmpE(o, Var("a"), Var("b"))), Print1(NotExpr(f, o, t[1], t[2])),
                    IfElse(NotExpr(f, o, t[1], t[2]), <<Lbl("then")>>, <<Lbl("else")>>),
                    Def1("n", NatLit(0)), For3(Def1("i", IntL(t[1])), Lgc("&&", NotExpr(f, o, t[1], t[2]), CmpE("<", Var("n"), NatLit(3))), Inc("n"), <<Inc("a"), Print1(Var("a"))>>)>>)
           : f \in NotForms, o \in CmpOps, t \in {<<"1", "2">>, <<"2", "1">>, <<"2", "2">>}}
NotOther == {CaseOf("C01/notother/" \o o \o "/" \o s \o "," \o u, <<Def1("s", StrL(s)), PrintS(<<Not(Grp(CmpE(o, Var("s"), StrL(u)))), Not(Grp(CmpE(o, StrL(s), StrL(u))))>>)>>)
             : o \in {"==", "!="}, s \in {"", "a", "a b"}, u \in {"", "a", "a b"}}
            \cup {CaseOf("C01/notother/" \o o \o "/" \o BStr(p) \o BStr(q), <<Def1("p", BoolL(p)), PrintS(<<Not(Grp(CmpE(o, Var("p"), BoolL(q)))), Not(Grp(Lgc("&&", Not(Var("p")), BoolL(q)))), Not(BoolL(q))>>)>>)
                  : o \in {"==", "!="}, p \in Bools, q \in Bools}
\* mixed precedence: comparison operands are arithmetic, logic operands are comparisons:  a + b < c && p || q == r ...
Mixed == {CaseOf("C01/mixed/" \o ao \o co \o lo \o "/" \o t[1] \o "," \o t[2] \o "," \o t[3] \o "/" \o BStr(p),
                 <<Print1(Lgc(lo, CmpE(co, Bin(ao, IntL(t[1]), IntL(t[2])), IntL(t[3])), BoolL(p))),
                   Print1(Lgc(lo, BoolL(p), CmpE(co, IntL(t[3]), Bin(ao, IntL(t[1]), IntL(t[2])))))>>)
          : ao \in {"+", "*", "-"}, co \in {"<", "==", ">="}, lo \in LogicOps, t \in {<<"7", "3", "10">>, <<"2", "2", "4">>, <<"-1", "5", "-5">>}, p \in Bools}
StrConcat == {CaseOf("C01/concat/" \o s \o "," \o u, <<Def1("s", StrL(s)), Def1("t", Bin("+", Var("s"), StrL(u))), PrintS(<<Var("t"), Bin("+", Bin("+", Var("t"), StrL("-")), Var("s"))>>)>>)
              : s \in Strs, u \in Strs}

\* (3) control flow: every nesting of constructs.  A construct is a function from its nesting level d (for fresh
\* counter names) and an inner block to a block.
Ctr(d) == "n" \o ToString(d)
Idx(d) == "i" \o ToString(d)
PrintCtr(d) == PrintS(<<StrL(Ctr(d)), Var(Ctr(d))>>)
PrintIdx(d) == PrintS(<<StrL(Idx(d)), Var(Idx(d))>>)
Lt(v, n) == CmpE("<", Var(v), NatLit(n))
Eq(v, n) == CmpE("==", Var(v), NatLit(n))
ConstructNames == {"ifT", "ifF", "ifelseT", "ifelseF", "elifTF", "elifFT", "elifFF", "elifTT",
                   "swtag", "swtagdef", "swless", "swdefonly", "swempty", "swdeffirst",
                   "forinf", "forcond", "for3", "for3noinit", "for3nopost", "for3nocond", "for3cont", "for3break", "forcondcont", "for3brafter"}
LoopNames == {"forinf", "forcond", "for3", "for3noinit", "for3nopost", "for3nocond", "for3cont", "for3break", "forcondcont", "for3brafter"}
Construct(c, d, b) ==
  CASE c = "ifT" -> <<If1(BoolL(TRUE), b)>>
    [] c = "ifF" -> <<If1(BoolL(FALSE), b), Lbl("after")>>
    [] c = "ifelseT" -> <<IfElse(BoolL(TRUE), b, <<Lbl("else")>>)>>
    [] c = "ifelseF" -> <<IfElse(BoolL(FALSE), <<Lbl("then")>>, b)>>
    [] c = "elifTF" -> <<If(<<Branch(BoolL(TRUE), b), Branch(BoolL(FALSE), <<Lbl("elif")>>)>>, <<Lbl("else")>>)>>
    [] c = "elifFT" -> <<If(<<Branch(BoolL(FALSE), <<Lbl("then")>>), Branch(BoolL(TRUE), b)>>, <<Lbl("else")>>)>>
    [] c = "elifFF" -> <<If(<<Branch(BoolL(FALSE), <<Lbl("then")>>), Branch(BoolL(FALSE), <<Lbl("elif")>>)>>, b)>>
    [] c = "elifTT" -> <<If(<<Branch(BoolL(TRUE), b), Branch(BoolL(TRUE), <<Lbl("elif")>>)>>, <<>>)>>
    [] c = "swtag" -> <<Def1("t" \o ToString(d), NatLit(2)), Switch(Var("t" \o ToString(d)), <<CaseB(NatLit(1), <<Lbl("one")>>), CaseB(NatLit(2), b)>>, <<>>, FALSE)>>
    [] c = "swtagdef" -> <<Switch(NatLit(3), <<CaseB(NatLit(1), <<Lbl("one")>>), CaseB(NatLit(2), <<Lbl("two")>>)>>, b, TRUE)>>
    [] c = "swless" -> <<Switch(NoneN, <<CaseB(BoolL(FALSE), <<Lbl("no")>>), CaseB(CmpE("==", NatLit(1), NatLit(1)), b)>>, <<Lbl("def")>>, TRUE)>>
    [] c = "swdefonly" -> <<Switch(NoneN, <<>>, b, TRUE)>>
    [] c = "swempty" -> <<Switch(NatLit(1), <<>>, <<>>, FALSE)>> \o b
    [] c = "swdeffirst" -> <<SwitchAt(StrL("b"), <<CaseB(StrL("a"), <<Lbl("a")>>), CaseB(StrL("b"), b)>>, <<Lbl("def")>>, TRUE, 0)>>
    [] c = "forinf" -> <<Def1(Ctr(d), NatLit(0)), ForInf(<<Inc(Ctr(d)), If1(CmpE(">", Var(Ctr(d)), NatLit(2)), <<BreakS>>), PrintCtr(d)>> \o b), Lbl("out")>>
    [] c = "forcond" -> <<Def1(Ctr(d), NatLit(0)), ForCond(Lt(Ctr(d), 2), <<Inc(Ctr(d)), PrintCtr(d)>> \o b)>>
    [] c = "for3" -> <<For3(Def1(Idx(d), NatLit(0)), Lt(Idx(d), 2), Inc(Idx(d)), <<PrintIdx(d)>> \o b)>>
    [] c = "for3noinit" -> <<Def1(Idx(d), NatLit(1)), For3(NoneN, Lt(Idx(d), 3), Inc(Idx(d)), <<PrintIdx(d)>> \o b)>>
    [] c = "for3nopost" -> <<For3(Def1(Idx(d), NatLit(0)), Lt(Idx(d), 2), NoneN, <<PrintIdx(d)>> \o b \o <<Compound(Idx(d), "+", NatLit(1))>>)>>
    [] c = "for3nocond" -> <<For3(Def1(Idx(d), NatLit(0)), NoneN, Inc(Idx(d)), <<If1(Eq(Idx(d), 2), <<BreakS>>), PrintIdx(d)>> \o b)>>
    [] c = "for3cont" -> <<For3(Def1(Idx(d), NatLit(0)), Lt(Idx(d), 3), Inc(Idx(d)), <<If1(Eq(Idx(d), 1), <<ContinueS>>), PrintIdx(d)>> \o b)>>
    [] c = "for3break" -> <<For3(Def1(Idx(d), NatLit(0)), Lt(Idx(d), 3), Inc(Idx(d)), <<If1(Eq(Idx(d), 1), <<BreakS>>), PrintIdx(d)>> \o b), Lbl("out")>>
    [] c = "forcondcont" -> <<Def1(Ctr(d), NatLit(0)), ForCond(Lt(Ctr(d), 3), <<Inc(Ctr(d)), If1(Eq(Ctr(d), 2), <<ContinueS>>), PrintCtr(d)>> \o b)>>
    [] c = "for3brafter" -> <<For3(Def1(Idx(d), NatLit(0)), Lt(Idx(d), 3), Inc(Idx(d)), <<PrintIdx(d)>> \o b \o <<If1(Eq(Idx(d), 1), <<BreakS>>), Lbl("tail")>>)>>
Leaf == <<Lbl("L")>>
Nest1 == {CaseOf("C01/nest1/" \o c, Construct(c, 1, Leaf) \o <<Lbl("end")>>) : c \in ConstructNames}
Nest2 == {CaseOf("C01/nest2/" \o c1 \o "/" \o c2, Construct(c1, 1, Construct(c2, 2, Leaf)) \o <<Lbl("end")>>)
          : c1 \in ConstructNames, c2 \in ConstructNames}
\* two constructs in sequence inside a third (label/flag allocation across siblings)
Seq2 == {CaseOf("C01/seq2/" \o c0 \o "/" \o c1 \o "+" \o c2, Construct(c0, 1, Construct(c1, 2, Leaf) \o Construct(c2, 3, Leaf)) \o <<Lbl("end")>>)
         : c0 \in {"ifT", "for3", "forcond"}, c1 \in LoopNames, c2 \in LoopNames}
Nest3 == IF Quick THEN {}
         ELSE {CaseOf("C01/nest3/" \o c1 \o "/" \o c2 \o "/" \o c3, Construct(c1, 1, Construct(c2, 2, Construct(c3, 3, Leaf))) \o <<Lbl("end")>>)
               : c1 \in LoopNames \cup {"elifFT", "swtag"}, c2 \in ConstructNames, c3 \in LoopNames \cup {"ifT", "swless"}}

\* (4) definitions and assignments
TyVals == {<<"int", IntL("5"), IntL("-3")>>, <<"bool", BoolL(TRUE), BoolL(FALSE)>>, <<"string", StrL("x y"), StrL("")>>}
DefForms == {"short", "varT", "varTinit", "varinit", "multi", "multivar", "reassign"}
DefCases == {CaseOf("C01/def/" \o f \o "/" \o tv[1],
                    CASE f = "short" -> <<Def1("a", tv[2]), Print1(Var("a"))>>
                      [] f = "varT" -> <<VarDef(<<"a">>, tv[1], <<>>), Print1(Var("a")), Asg1("a", tv[2]), Print1(Var("a"))>>
                      [] f = "varTinit" -> <<VarDef(<<"a">>, tv[1], <<tv[2]>>), Print1(Var("a"))>>
                      [] f = "varinit" -> <<VarDef(<<"a">>, "", <<tv[3]>>), Print1(Var("a"))>>
                      [] f = "multi" -> <<Def(<<"a", "b">>, <<tv[2], tv[3]>>), PrintS(<<Var("a"), Var("b")>>), Asg(<<"a", "b">>, <<tv[3], tv[2]>>), PrintS(<<Var("a"), Var("b")>>)>>
                      [] f = "multivar" -> <<VarDef(<<"a", "b">>, tv[1], <<>>), PrintS(<<Var("a"), Var("b")>>), VarDef(<<"c", "d">>, tv[1], <<tv[2], tv[3]>>), PrintS(<<Var("c"), Var("d")>>)>>
                      [] f = "reassign" -> <<Def1("a", tv[2]), Def1("b", Var("a")), Asg1("a", tv[3]), PrintS(<<Var("a"), Var("b")>>)>>)
             : f \in DefForms, tv \in TyVals}
CompoundCases == {CaseOf("C01/compound/" \o o \o "/" \o t[1] \o "," \o t[2], <<Def1("a", IntL(t[1])), Compound("a", o, IntL(t[2])), Print1(Var("a")), Compound("a", o, Var("a")), Print1(Var("a"))>>)
                  : o \in {"+", "-", "*"}, t \in {<<"7", "3">>, <<"-7", "2">>, <<MaxInt64, "1">>, <<MinInt64, "1">>}}
              \cup {CaseOf("C01/compound/" \o o \o "/" \o t[1] \o "," \o t[2], <<Def1("a", IntL(t[1])), Compound("a", o, IntL(t[2])), Print1(Var("a"))>>)
                  : o \in {"/", "%"}, t \in {<<"7", "3">>, <<"-7", "2">>, <<MaxInt64, "-1">>, <<"7", "-3">>}}
              \cup {CaseOf("C01/compound/str", <<Def1("s", StrL("a")), Compound("s", "+", StrL("b c")), Print1(Var("s")), Compound("s", "+", Var("s")), Print1(Var("s"))>>)}
IncDecCases == {CaseOf("C01/incdec/" \o v, <<Def1("a", IntL(v)), Inc("a"), Print1(Var("a")), Dec("a"), Dec("a"), Print1(Var("a"))>>) : v \in {"0", "-1", MaxInt64, MinInt64, "41"}}

\* (5) panic, itoa, print
PanicAt == {CaseOf("C01/panic/" \o c, <<Lbl("start")>> \o Construct(c, 1, <<PanicS(StrL("boom " \o c))>>) \o <<Lbl("not reached or skipped")>>) : c \in ConstructNames}
          \cup {CaseOf("C01/panic/top", <<Lbl("a"), PanicS(StrL("stop")), Lbl("b")>>),
                CaseOf("C01/panic/expr", <<Def1("n", NatLit(4)), PanicS(Bin("+", StrL("code "), Itoa(Bin("*", Var("n"), NatLit(2)))))>>)}
ItoaCases == {CaseOf("C01/itoa/" \o v, <<Def1("s", Itoa(IntL(v))), PrintS(<<Var("s"), Bin("+", Var("s"), StrL("!")), Itoa(Bin("+", IntL(v), NatLit(0)))>>)>>) : v \in IntLeaves \cup {"42", "1000000"}}
PrintCases == {CaseOf("C01/print/0", <<PrintS(<<>>), Lbl("x")>>),
               CaseOf("C01/print/4", <<PrintS(<<IntL("1"), BoolL(TRUE), StrL("s"), IntL("-2")>>)>>),
               CaseOf("C01/print/mixed", <<Def1("a", IntL("3")), Def1("b", BoolL(FALSE)), Def1("c", StrL("two words")), PrintS(<<Var("c"), Var("b"), Var("a"), StrL(""), Var("c")>>)>>),
               CaseOf("C01/print/nil", <<VarDef(<<"e">>, "error", <<>>), PrintS(<<CmpE("==", Var("e"), Nil), CmpE("!=", Var("e"), Nil)>>), Asg1("e", StrL("bad")), PrintS(<<Var("e"), CmpE("!=", Var("e"), Nil)>>)>>)}

\* simultaneous assignment with values that are more than a plain variable read: every wrapping of a variable that is also a target of the same
\* statement (parentheses, itoa, an identity operation, negation), swaps, rotations and dependent pairs, as assignment and as partial redefinition
WrapI(w, v) == CASE w = "plain" -> Var(v) [] w = "grp" -> Grp(Var(v)) [] w = "grp2" -> Grp(Grp(Var(v))) [] w = "plus0" -> Bin("+", Var(v), IntL("0")) [] w = "times1" -> Bin("*", IntL("1"), Var(v))
Wraps == {"plain", "grp", "grp2", "plus0", "times1"}
TupleCases ==
  {CaseOf("C01/tuple/swap/" \o w1 \o "-" \o w2, <<Def(<<"a", "b">>, <<IntL("1"), IntL("2")>>), Asg(<<"a", "b">>, <<WrapI(w1, "b"), WrapI(w2, "a")>>), PrintS(<<Var("a"), Var("b")>>)>>) : w1 \in Wraps, w2 \in Wraps}
  \cup {CaseOf("C01/tuple/rot3/" \o w, <<Def(<<"a", "b", "c">>, <<IntL("1"), IntL("2"), IntL("3")>>), Asg(<<"a", "b", "c">>, <<WrapI(w, "b"), WrapI(w, "c"), WrapI(w, "a")>>), PrintS(<<Var("a"), Var("b"), Var("c")>>),
                                           Asg(<<"c", "a", "b">>, <<WrapI(w, "a"), WrapI(w, "b"), WrapI(w, "c")>>), PrintS(<<Var("a"), Var("b"), Var("c")>>)>>) : w \in Wraps}
  \cup {CaseOf("C01/tuple/itoa", <<Def(<<"n", "s">>, <<IntL("7"), StrL("x")>>), Asg(<<"n", "s">>, <<Bin("+", Var("n"), IntL("1")), Itoa(Var("n"))>>), PrintS(<<Var("n"), Var("s")>>),
                                    Asg(<<"s", "n">>, <<Itoa(Var("n")), Bin("*", Var("n"), IntL("2"))>>), PrintS(<<Var("n"), Var("s")>>)>>),
         CaseOf("C01/tuple/fib", <<Def(<<"f0", "f1", "label">>, <<IntL("0"), IntL("1"), StrL("")>>),
                                   For3(Def1("i", IntL("0")), CmpE("<", Var("i"), IntL("5")), Inc("i"), <<Asg(<<"f0", "f1", "label">>, <<Var("f1"), Bin("+", Var("f0"), Var("f1")), Itoa(Var("f0"))>>), PrintS(<<Var("f0"), Var("f1"), Var("label")>>)>>)>>),
         CaseOf("C01/tuple/bools", <<Def(<<"p", "q">>, <<BoolL(TRUE), BoolL(FALSE)>>), Asg(<<"p", "q">>, <<Not(Var("p")), Grp(Var("p"))>>), PrintS(<<Var("p"), Var("q")>>), Asg(<<"q", "p">>, <<Lgc("&&", Var("p"), Var("q")), Not(Grp(Var("q")))>>), PrintS(<<Var("p"), Var("q")>>)>>),
         CaseOf("C01/tuple/strings", <<Def(<<"s", "t">>, <<StrL("a b"), StrL("c")>>), Asg(<<"s", "t">>, <<Bin("+", Var("t"), Var("s")), Grp(Var("s"))>>), PrintS(<<Var("s"), StrL("|"), Var("t")>>)>>),
         CaseOf("C01/tuple/partial-redefinition", <<Def(<<"a", "b">>, <<IntL("1"), IntL("2")>>), Def(<<"b", "c">>, <<Grp(Var("a")), Grp(Var("b"))>>), PrintS(<<Var("a"), Var("b"), Var("c")>>),
                                                    Def(<<"d", "a">>, <<Itoa(Var("a")), Bin("+", Var("a"), IntL("10"))>>), PrintS(<<Var("d"), Var("a")>>)>>),
         CaseOf("C01/tuple/compound-after", <<Def(<<"a", "b">>, <<IntL("5"), IntL("3")>>), Asg(<<"a", "b">>, <<Bin("-", Var("a"), Var("b")), Grp(Bin("+", Var("a"), Var("b")))>>), PrintS(<<Var("a"), Var("b")>>)>>)}
\* a jump of the OUTER loop placed before, after or between loops nested in its body: whatever a back-end keeps per loop must name the loop the
\* statement belongs to, not the one that was converted last
JOuter(form, body) == CASE form = "for3" -> <<For3(Def1("o", IntL("0")), CmpE("<", Var("o"), IntL("4")), Inc("o"), body)>>
                        [] form = "forcond" -> <<Def1("o", IntL("-1")), ForCond(CmpE("<", Var("o"), IntL("3")), <<Inc("o")>> \o body)>>
                        [] form = "range" -> <<RangeS("o", "", StrL("abcd"), body)>>
JInner(form, v) == CASE form = "for3" -> <<For3(Def1(v, IntL("0")), CmpE("<", Var(v), IntL("2")), Inc(v), <<PrintS(<<StrL(v), Var("o"), Var(v)>>)>>)>>
                     [] form = "forcond" -> <<Def1(v, IntL("0")), ForCond(CmpE("<", Var(v), IntL("2")), <<Inc(v), PrintS(<<StrL(v), Var("o"), Var(v)>>)>>)>>
                     [] form = "range" -> <<RangeS(v, "", StrL("xy"), <<PrintS(<<StrL(v), Var("o"), Var(v)>>)>>)>>
JStmt(j) == If1(CmpE("==", Var("o"), IntL("1")), <<IF j = "continue" THEN ContinueS ELSE BreakS>>)
JumpPlaces == {"before", "after", "between", "afterboth"}
OuterJump == {CaseOf("C01/outerjump/" \o fo \o "-" \o fi \o "/" \o j \o "/" \o pl,
                     JOuter(fo, CASE pl = "before" -> <<JStmt(j)>> \o JInner(fi, "i") \o <<Lbl("tail")>>
                                  [] pl = "after" -> JInner(fi, "i") \o <<JStmt(j), Lbl("tail")>>
                                  [] pl = "between" -> JInner(fi, "i") \o <<JStmt(j)>> \o JInner(fi, "k") \o <<Lbl("tail")>>
                                  [] pl = "afterboth" -> JInner(fi, "i") \o JInner("for3", "k") \o <<JStmt(j), Lbl("tail")>>) \o <<Lbl("end")>>)
              : fo \in {"for3", "forcond", "range"}, fi \in {"for3", "forcond", "range"}, j \in {"continue", "break"}, pl \in JumpPlaces}
\* the same expression text evaluated before a loop and again inside it while its operands change: a value is never remembered across statements
REs == <<<<"mul", Bin("*", Var("a"), IntL("2"))>>, <<"add", Bin("+", Var("a"), Var("b"))>>, <<"cmp", CmpE("<", Var("a"), IntL("20"))>>, <<"eq", CmpE("==", Var("a"), Var("b"))>>,
         <<"not", Not(Var("p"))>>, <<"and", Lgc("&&", Var("p"), CmpE(">", Var("a"), IntL("0")))>>, <<"cat", Bin("+", Var("s"), StrL("!"))>>, <<"itoa", Itoa(Var("a"))>>, <<"grp", Grp(Bin("-", Var("a"), Var("b")))>>>>
RLoops == {"forcond", "forinf", "for3bare", "for3"}
Upd == <<Asg1("a", Bin("+", Var("a"), Var("a"))), Asg1("p", Not(Var("p"))), Compound("s", "+", Itoa(Var("a"))), Inc("b")>>
ReLoop(f, e, where) ==
  LET show == <<PrintS(<<e>>)>>
      body == (IF where = "top" THEN show ELSE <<>>) \o Upd \o (IF where = "bottom" THEN show ELSE <<>>) \o <<Inc("n")>>
      cnd == CmpE("<", Var("n"), IntL("3"))
  IN CASE f = "forcond" -> <<ForCond(cnd, body)>> [] f = "forinf" -> <<ForInf(<<If1(Not(Grp(cnd)), <<BreakS>>)>> \o body)>>
       [] f = "for3bare" -> <<For3(NoneN, cnd, NoneN, body)>> [] f = "for3" -> <<For3(Def1("k", IntL("0")), CmpE("<", Var("k"), IntL("3")), Inc("k"), body)>>
Reeval == {CaseOf("C01/reeval/" \o REs[i][1] \o "/" \o f \o "/" \o w,
                  <<Def(<<"a", "b", "p", "s", "n">>, <<IntL("3"), IntL("3"), BoolL(TRUE), StrL("x"), IntL("0")>>), PrintS(<<REs[i][2]>>)>> \o ReLoop(f, REs[i][2], w) \o <<PrintS(<<REs[i][2]>>), Lbl("end")>>)
           : i \in 1..Len(REs), f \in RLoops, w \in {"top", "bottom"}}
          \cup {CaseOf("C01/reeval/cond/" \o f, <<Def1("a", IntL("1")), Print1(CmpE("<", Var("a"), IntL("5")))>> \o
                        (IF f = "forcond" THEN <<ForCond(CmpE("<", Var("a"), IntL("5")), <<Print1(Var("a")), Asg1("a", Bin("+", Var("a"), Var("a")))>>)>>
                         ELSE <<For3(NoneN, CmpE("<", Var("a"), IntL("5")), NoneN, <<Print1(Var("a")), Asg1("a", Bin("+", Var("a"), Var("a")))>>)>>) \o <<Print1(CmpE("<", Var("a"), IntL("5")))>>)
                : f \in {"forcond", "for3bare"}}
          \cup {CaseOf("C01/reeval/ifchain", <<Def1("a", IntL("1")), Print1(Bin("*", Var("a"), IntL("2"))), If(<<Branch(CmpE(">", Bin("*", Var("a"), IntL("2")), IntL("5")), <<Lbl("big")>>)>>, <<Inc("a"), Print1(Bin("*", Var("a"), IntL("2")))>>),
                                                Print1(Bin("*", Var("a"), IntL("2"))), Switch(Bin("*", Var("a"), IntL("2")), <<CaseB(IntL("4"), <<Inc("a"), Print1(Bin("*", Var("a"), IntL("2")))>>)>>, <<Lbl("d")>>, TRUE), Print1(Bin("*", Var("a"), IntL("2")))>>)}
\* continue / break of a loop from every kind of branch body: the jump is found wherever it sits (then, else-if, else, case, default, nested)
JLoop(f, body) == CASE f = "for3" -> <<For3(Def1("i", IntL("0")), CmpE("<", Var("i"), IntL("4")), Inc("i"), body)>>
                    [] f = "range" -> <<RangeS("i", "", StrL("abcd"), body)>>
                    [] f = "for3call" -> <<For3(Def1("i", IntL("0")), CmpE("<", Var("i"), IntL("4")), Asg1("i", Bin("+", Var("i"), IntL("1"))), body)>>
JSites == {"then", "elif", "else", "case", "default", "elseNested", "caseInIf", "elseOfElif"}
JAt(site, j) == LET J == IF j = "continue" THEN ContinueS ELSE BreakS
                    is2 == CmpE("==", Var("i"), IntL("2")) IN
  CASE site = "then" -> <<If1(is2, <<J>>)>>
    [] site = "elif" -> <<If(<<Branch(CmpE("==", Var("i"), IntL("9")), <<Lbl("never")>>), Branch(is2, <<J>>)>>, <<>>)>>
    [] site = "else" -> <<IfElse(CmpE("!=", Var("i"), IntL("2")), <<Lbl("keep")>>, <<J>>)>>
    [] site = "case" -> <<Switch(Var("i"), <<CaseB(IntL("2"), <<J>>)>>, <<Lbl("other")>>, TRUE)>>
    [] site = "default" -> <<Switch(Var("i"), <<CaseB(IntL("0"), <<Lbl("zero")>>), CaseB(IntL("1"), <<Lbl("one")>>), CaseB(IntL("3"), <<Lbl("three")>>)>>, <<J>>, TRUE)>>
    [] site = "elseNested" -> <<IfElse(CmpE("<", Var("i"), IntL("2")), <<Lbl("low")>>, <<IfElse(CmpE(">", Var("i"), IntL("2")), <<Lbl("high")>>, <<J>>)>>)>>
    [] site = "caseInIf" -> <<If1(CmpE(">", Var("i"), IntL("0")), <<Switch(NoneN, <<CaseB(is2, <<J>>)>>, <<>>, FALSE)>>)>>
    [] site = "elseOfElif" -> <<If(<<Branch(CmpE("==", Var("i"), IntL("0")), <<Lbl("zero")>>), Branch(CmpE("==", Var("i"), IntL("1")), <<Lbl("one")>>)>>, <<If1(is2, <<J>>), Lbl("ge2")>>)>>
JumpSites == {CaseOf("C01/jumpsite/" \o f \o "/" \o j \o "/" \o st, JLoop(f, JAt(st, j) \o <<PrintS(<<StrL("body"), Var("i")>>)>>) \o <<Lbl("end")>>)
              : f \in {"for3", "range", "for3call"}, j \in {"continue", "break"}, st \in JSites}
\* every control construct around every kind of simple statement (depth 1 and, for the loop and switch constructs, depth 2): what one construct leaves
\* behind - flags, counters, temporaries - meets what the statement inside reads and writes; all touched variables are printed afterwards
LeafKinds == {"define", "assign", "compound", "incdec", "swap", "strappend", "cmpassign", "logicassign", "callvalue", "callstmt", "itoa", "negate", "nestedif", "nestedswitch", "printexpr", "twostmts"}
LeafOf(k, d) ==
  CASE k = "define" -> <<Def1("loc" \o ToString(d), Bin("+", Var("g"), IntL("1"))), Print1(Var("loc" \o ToString(d)))>>
    [] k = "assign" -> <<Asg1("g", Bin("*", Var("g"), IntL("2")))>> [] k = "compound" -> <<Compound("g", "-", IntL("3"))>> [] k = "incdec" -> <<Inc("g"), Dec("h")>>
    [] k = "swap" -> <<Asg(<<"g", "h">>, <<Var("h"), Var("g")>>)>> [] k = "strappend" -> <<Compound("s", "+", Itoa(Var("g")))>>
    [] k = "cmpassign" -> <<Asg1("b", CmpE("<", Var("g"), Var("h")))>> [] k = "logicassign" -> <<Asg1("b", Lgc("||", Not(Var("b")), CmpE("==", Var("g"), IntL("0"))))>>
    [] k = "callvalue" -> <<Asg1("g", CallE("twice", <<Var("g")>>))>> [] k = "callstmt" -> <<ExprS(CallE("note", <<Var("s")>>))>>
    [] k = "itoa" -> <<Asg1("s", Bin("+", Itoa(Var("h")), Var("s")))>> [] k = "negate" -> <<Asg1("b", Not(Var("b")))>>
    [] k = "nestedif" -> <<IfElse(CmpE(">", Var("g"), Var("h")), <<Asg1("g", Var("h"))>>, <<Asg1("h", Bin("+", Var("g"), IntL("1")))>>)>>
    [] k = "nestedswitch" -> <<Switch(Var("h"), <<CaseB(IntL("7"), <<Inc("h")>>), CaseB(IntL("8"), <<Dec("h")>>)>>, <<Inc("g")>>, TRUE)>>
    [] k = "printexpr" -> <<PrintS(<<Bin("+", Var("g"), Var("h")), Var("b"), Bin("+", Var("s"), StrL("!"))>>)>>
    [] k = "twostmts" -> <<Inc("g"), Asg1("h", Bin("+", Var("g"), Var("h"))), Compound("s", "+", StrL("."))>>
LeafPrelude == <<Def(<<"g", "h", "b", "s">>, <<IntL("5"), IntL("7"), BoolL(TRUE), StrL("s")>>), Func("twice", <<Param("n", "int")>>, <<"int">>, <<RetS(<<Bin("*", Var("n"), IntL("2"))>>)>>),
                 Func("note", <<Param("t", "string")>>, <<>>, <<PrintS(<<StrL("note"), Var("t")>>)>>)>>
LeafDump == <<PrintS(<<Var("g"), Var("h"), Var("b"), Var("s")>>)>>
NestLeaf == {CaseOf("C01/nestleaf/" \o c \o "/" \o k, LeafPrelude \o Construct(c, 1, LeafOf(k, 1)) \o LeafDump) : c \in ConstructNames, k \in LeafKinds}
            \cup {CaseOf("C01/nestleaf2/" \o c1 \o "/" \o c2 \o "/" \o k, LeafPrelude \o Construct(c1, 1, Construct(c2, 2, LeafOf(k, 2))) \o LeafDump)
                  : c1 \in {"for3", "forcond", "swtag", "for3cont", "elifFT"}, c2 \in {"for3", "forinf", "swless", "swdeffirst", "ifelseF", "for3break"}, k \in (IF Quick THEN {"compound", "swap", "callvalue", "strappend", "nestedswitch"} ELSE LeafKinds)}
\* ---- an assignment whose target is an operand of its own right-hand side (round 9: a comparison that writes its result before it reads its operands)
\* target type x expression in which the target occurs on the left, on the right, on both sides or under a wrapper x the value it has before x where
\* the assignment stands (statement, twice in a row, increment of a loop, inside a function on a local and on a global)
SelfExprs == <<
  <<"bool", "eqL", CmpE("==", Var("t"), Var("u"))>>, <<"bool", "eqR", CmpE("==", Var("u"), Var("t"))>>, <<"bool", "neL", CmpE("!=", Var("t"), Var("u"))>>, <<"bool", "neTrue", CmpE("!=", Var("t"), BoolL(TRUE))>>,
  <<"bool", "eqFalse", CmpE("==", BoolL(FALSE), Var("t"))>>, <<"bool", "eqSelf", CmpE("==", Var("t"), Var("t"))>>, <<"bool", "not", Not(Var("t"))>>, <<"bool", "notgrp", Not(Grp(CmpE("==", Var("t"), Var("u"))))>>,
  <<"bool", "andL", Lgc("&&", Var("t"), Var("u"))>>, <<"bool", "orR", Lgc("||", Var("u"), Var("t"))>>, <<"bool", "cmpint", CmpE("==", Var("t"), CmpE("<", Var("n"), IntL("3")))>>,
  <<"bool", "grp", Grp(CmpE("!=", Grp(Var("t")), Var("u")))>>,
  <<"int", "addL", Bin("+", Var("t"), Var("u"))>>, <<"int", "subR", Bin("-", Var("u"), Var("t"))>>, <<"int", "double", Bin("+", Var("t"), Var("t"))>>, <<"int", "mix", Bin("-", Bin("*", Var("t"), IntL("3")), Var("t"))>>,
  <<"int", "divR", Bin("/", IntL("100"), Var("t"))>>, <<"int", "modL", Bin("%", Var("t"), IntL("4"))>>, <<"int", "neg", Bin("-", IntL("0"), Var("t"))>>,
  <<"string", "catL", Bin("+", Var("t"), Var("u"))>>, <<"string", "catR", Bin("+", Var("u"), Var("t"))>>, <<"string", "double", Bin("+", Var("t"), Var("t"))>>, <<"string", "itoa", Bin("+", Var("t"), Itoa(Var("n")))>>,
  <<"string", "wrap", Bin("+", Bin("+", StrL("<"), Var("t")), StrL(">"))>> >>
SelfVals(ty) == CASE ty = "bool" -> <<<<BoolL(TRUE), BoolL(TRUE)>>, <<BoolL(TRUE), BoolL(FALSE)>>, <<BoolL(FALSE), BoolL(TRUE)>>, <<BoolL(FALSE), BoolL(FALSE)>>>>
                  [] ty = "int" -> <<<<IntL("7"), IntL("2")>>, <<IntL("-5"), IntL("9")>>>>
                  [] ty = "string" -> <<<<StrL("ab"), StrL("c d")>>, <<StrL(""), StrL("x")>>>>
SelfWhere == {"stmt", "twice", "postloop", "local", "global", "branch"}
SelfDump == PrintS(<<Var("t"), Var("u"), Var("n")>>)
SelfProg(w, e, v) ==
  LET asg == Asg1("t", e) IN
  CASE w = "stmt"     -> <<Def(<<"t", "u", "n">>, <<v[1], v[2], IntL("2")>>), asg, SelfDump>>
    [] w = "twice"    -> <<Def(<<"t", "u", "n">>, <<v[1], v[2], IntL("2")>>), asg, SelfDump, asg, SelfDump, Asg1("u", Var("t")), asg, SelfDump>>
    [] w = "postloop" -> <<Def(<<"u", "n">>, <<v[2], IntL("2")>>), For3(Def1("t", v[1]), CmpE("<", Var("n"), IntL("5")), asg, <<SelfDump, Inc("n")>>)>>
    [] w = "local"    -> <<Func("f", <<Param("t0", IF v[1].k = "bool" THEN "bool" ELSE IF v[1].k = "int" THEN "int" ELSE "string")>>, <<>>,
                                <<Def(<<"t", "u", "n">>, <<Var("t0"), v[2], IntL("2")>>), asg, SelfDump, asg, SelfDump>>), ExprS(CallE("f", <<v[1]>>))>>
    [] w = "global"   -> <<Def(<<"t", "u", "n">>, <<v[1], v[2], IntL("2")>>), Func("f", <<>>, <<>>, <<asg>>), ExprS(CallE("f", <<>>)), SelfDump, ExprS(CallE("f", <<>>)), SelfDump>>
    [] w = "branch"   -> <<Def(<<"t", "u", "n">>, <<v[1], v[2], IntL("2")>>), IfElse(CmpE("<", Var("n"), IntL("3")), <<asg>>, <<Lbl("no")>>), SelfDump,
                           Switch(Var("n"), <<CaseB(IntL("2"), <<asg>>)>>, <<>>, FALSE), SelfDump>>
SelfAssignLegal == {CaseOf("C01/selfassign/" \o SelfExprs[i][1] \o "/" \o SelfExprs[i][2] \o "/" \o w \o "/" \o ToString(k), SelfProg(w, SelfExprs[i][3], SelfVals(SelfExprs[i][1])[k]))
               : i \in 1..Len(SelfExprs), w \in SelfWhere, k \in 1..2}
               \cup {CaseOf("C01/selfassign/" \o SelfExprs[i][1] \o "/" \o SelfExprs[i][2] \o "/" \o w \o "/" \o ToString(k), SelfProg(w, SelfExprs[i][3], SelfVals(SelfExprs[i][1])[k]))
               : i \in {j \in 1..Len(SelfExprs) : SelfExprs[j][1] = "bool"}, w \in SelfWhere, k \in 3..4}

\* ---- a guard (`if g { break / continue }`) as the LAST statement of a branch that has an else / else-if behind it, after a nested construct that
\* ran earlier in the same branch (round 9, Batch: the nested construct's jump leaves the block, the branch's closing jump was dropped, `) else (` is read as a remark)
GTNested == {"none", "if", "ifelse", "for3", "forcond", "switch", "call"}
GTNest(k) == CASE k = "none" -> <<>> [] k = "if" -> <<If1(CmpE(">=", Var("i"), IntL("0")), <<PrintS(<<StrL("in"), Var("i")>>)>>)>>
               [] k = "ifelse" -> <<IfElse(CmpE("==", Var("i"), IntL("1")), <<Lbl("one")>>, <<Lbl("not one")>>)>>
               [] k = "for3" -> <<For3(Def1("j", IntL("0")), CmpE("<", Var("j"), IntL("2")), Inc("j"), <<PrintS(<<StrL("j"), Var("j")>>)>>)>>
               [] k = "forcond" -> <<Def1("j", IntL("0")), ForCond(CmpE("<", Var("j"), IntL("2")), <<Inc("j")>>), PrintS(<<StrL("j"), Var("j")>>)>>
               [] k = "switch" -> <<Switch(Var("i"), <<CaseB(IntL("0"), <<Lbl("zero")>>), CaseB(IntL("1"), <<Lbl("uno")>>)>>, <<Lbl("many")>>, TRUE)>>
               [] k = "call" -> <<PrintS(<<CallE("twice", <<Var("i")>>)>>)>>
GTTails == {"else", "elif", "elifelse"}
GTJumps == {"break", "continue", "return"}
GTBody(nk, tail, j, gv) ==
  LET J == IF j = "break" THEN BreakS ELSE IF j = "continue" THEN ContinueS ELSE RetS(<<Bin("+", Var("i"), IntL("100"))>>)
      first == GTNest(nk) \o <<If1(CmpE("==", Var("i"), IntL(gv)), <<J>>)>>
      brs == IF tail = "else" THEN <<Branch(CmpE("<", Var("i"), IntL("2")), first)>>
             ELSE <<Branch(CmpE("<", Var("i"), IntL("2")), first), Branch(CmpE("==", Var("i"), IntL("2")), <<PrintS(<<StrL("elif"), Var("i")>>)>>)>>
      els == IF tail = "elif" THEN <<>> ELSE <<PrintS(<<StrL("else"), Var("i")>>)>>
  IN <<If(brs, els), PrintS(<<StrL("after"), Var("i")>>)>>
GTProg(nk, tail, j, gv, lf) ==
  LET body == GTBody(nk, tail, j, gv)
      loop == CASE lf = "for3" -> <<For3(Def1("i", IntL("0")), CmpE("<", Var("i"), IntL("4")), Inc("i"), body)>>
                [] lf = "forcond" -> <<Def1("i", IntL("-1")), ForCond(CmpE("<", Var("i"), IntL("3")), <<Inc("i")>> \o body)>>
      tw == Func("twice", <<Param("n", "int")>>, <<"int">>, <<RetS(<<Bin("*", Var("n"), IntL("2"))>>)>>)
  IN IF j = "return" THEN <<tw, Func("run", <<>>, <<"int">>, loop \o <<Lbl("loop left"), RetS(<<IntL("-1")>>)>>), PrintS(<<StrL("returned"), CallE("run", <<>>)>>), Lbl("end")>>
     ELSE <<tw>> \o loop \o <<Lbl("end")>>
GuardTail == {CaseOf("C01/guardtail/" \o nk \o "/" \o tail \o "/" \o j \o "/" \o gv \o "/" \o lf, GTProg(nk, tail, j, gv, lf))
              : nk \in GTNested, tail \in GTTails, j \in GTJumps, gv \in {"1", "7"}, lf \in {"for3", "forcond"}}

\* ---- strings that LOOK like numbers, booleans or words of the target shells (round 15: the Batch converter folded `"1" + "2"` to 3 at transpile time - both
\* operand texts parse as integers): concatenation, comparison, switch, compound assignment, argument passing and printing of such values, as literals, through
\* variables and through itoa
NumPairs == <<<<"1", "2">>, <<"10", "0">>, <<"007", "1">>, <<"-1", "1">>, <<"08", "09">>, <<"4", "2">>, <<"true", "false">>, <<"on", "off">>, <<"1", "a">>, <<"a", "1">>, <<"", "5">>,
              <<"0", "0">>, <<"2147483647", "1">>, <<"equ", "1">>, <<"1", "1">>, <<"0x10", "16">>, <<"1e3", "1000">>, <<"+1", "1">>>>
NumStrProg(p, w) ==
  LET A == StrL(p[1]) B == StrL(p[2])
      body == <<Def(<<"a", "b">>, <<A, B>>),
                PrintS(<<Bin("+", Var("a"), Var("b")), LenE(Bin("+", Var("a"), Var("b")))>>),
                PrintS(<<Bin("+", A, B), Bin("+", Bin("+", A, B), A)>>),
                PrintS(<<Bin("+", Itoa(NatLit(4)), B), Bin("+", Var("a"), Itoa(NatLit(7))), Bin("+", Itoa(NatLit(4)), Itoa(NatLit(2)))>>),
                PrintS(<<CmpE("==", Var("a"), Var("b")), CmpE("!=", Var("a"), Var("b")), CmpE("==", Var("a"), A), CmpE("==", Bin("+", Var("a"), Var("b")), Bin("+", A, B)), CmpE("==", A, B)>>),
                Switch(Var("a"), <<CaseB(B, <<Print1(StrL("is b"))>>), CaseB(A, <<Print1(StrL("is a"))>>)>>, <<Print1(StrL("neither"))>>, TRUE),
                Def1("c", Var("a")), Compound("c", "+", Var("b")), Compound("c", "+", B), PrintS(<<Var("c"), LenE(Var("c"))>>),
                PrintS(<<CallE("cat", <<Var("a"), Var("b")>>), CallE("cat", <<A, B>>), CallE("cat", <<Itoa(NatLit(1)), Itoa(NatLit(2))>>)>>),
                PrintS(<<StrL("["), Var("a"), StrL("]")>>), PrintS(<<Var("a"), Var("b")>>),
                If1(CmpE("==", Bin("+", A, B), StrL(p[1] \o p[2])), <<Print1(StrL("concat"))>>)>>
  IN <<Func("cat", <<Param("x", "string"), Param("y", "string")>>, <<"string">>, <<RetS(<<Bin("+", Var("x"), Var("y"))>>)>>)>>
     \o (IF w = "top" THEN body ELSE <<Func("run", <<>>, <<>>, body), ExprS(CallE("run", <<>>))>>)
NumStrCases == {CaseOf("C01/numstr/" \o ToString(i) \o "/" \o w, NumStrProg(NumPairs[i], w)) : i \in 1..Len(NumPairs), w \in {"top", "func"}}
All == NumStrCases \cup SelfAssignLegal \cup GuardTail \cup NestLeaf \cup Reeval \cup JumpSites \cup OuterJump \cup TupleCases \cup NotCmp \cup NotOther \cup Arith1 \cup Arith2 \cup ArithVar \cup Arith3 \cup Logic2 \cup LogicNot \cup CmpInt \cup CmpStr \cup CmpBool \cup Mixed \cup StrConcat
       \cup Nest1 \cup Nest2 \cup Seq2 \cup Nest3 \cup DefCases \cup CompoundCases \cup IncDecCases \cup PanicAt \cup ItoaCases \cup PrintCases
ASSUME ndJsonSerialize("fam.ndjson", SetToSeq(All))
=============================================================================
