"""Shared by C06/C07 (and C09 verdicts): programs -> real transpiler verdicts (both targets) -> validation against TshStatic by TLC."""
import os

from vlib import Infra, read_ndjson, write_ndjson


def judge(ctx, cases, tag, chunk=4000):
    wd = ctx.sub("st-" + tag)
    p0, p1 = os.path.join(wd, "c0.ndjson"), os.path.join(wd, "c1.ndjson")
    # a share of the programs once more in another legal spelling (harness/respell.go): the verdict may not depend on it
    import progflow
    extra = progflow.respelled(ctx, cases)
    if extra:
        cases = list(cases) + extra
        ctx.notes["respelled_cases"] = ctx.notes.get("respelled_cases", 0) + len(extra)
    write_ndjson(p0, cases)
    ctx.run_vh("outcome", p0, p1, os.path.join(wd, "scr"))
    ran = read_ndjson(p1)
    failures = []
    for k in range(0, len(ran), chunk):
        part = ran[k:k + chunk]
        slim = []
        for c in part:
            d = {"id": c["id"], "prog": c["prog"], "obs": {"bash": c["obsrec"]["bash"], "batch": c["obsrec"]["batch"]}}
            if "expect" in c:
                d["expect"] = c["expect"]
            slim.append(d)
        p2 = os.path.join(wd, "cases-%d.ndjson" % k)
        write_ndjson(p2, slim)
        verd, _ = ctx.tlc("StaticRun", workdir=ctx.sub("tlc-%s-%d" % (tag, k)), files=[(p2, "cases.ndjson")], timeout=3000)
        by = {v["id"]: v for v in verd}
        for c in part:
            v = by.get(c["id"])
            if v is None:
                raise Infra("no verdict for " + c["id"])
            ctx.evaluations += 1
            getattr(ctx, "static_verdicts", {})[c["id"]] = v
            if v["unspec"]:
                ctx.dropped[v["rule"]] = ctx.dropped.get(v["rule"], 0) + 1
                continue
            ctx.traces_validated += 1
            ctx.distinct.add(c.get("src", c["id"]))
            if len(ctx.samples) < 6 and (ctx.evaluations % 397 == 1):
                ctx.samples.append({"id": c["id"], "source": c.get("src"), "rule": v["rule"] or "accepted", "observed": c["obsrec"]})
            if not v["ok"]:
                o = c["obsrec"]
                sig = "specification: %s (%s); transpiler: bash=%s batch=%s %s" % (
                    "accept" if v["expected"] == "A" else "reject", v["rule"] or "well-typed", o["bash"], o["batch"],
                    o.get("bashErr", "") or o.get("batchErr", ""))
                failures.append((c, v, sig))
    return failures


def report(ctx, failures):
    for c, v, sig in failures:
        ctx.report_failure(c["id"], {"property": ctx.prop, "case": c["id"], "why": sig, "source": c.get("src"), "rule": v["rule"],
                                     "expected": v["expected"], "observed": c["obsrec"], "prog": c.get("prog"),
                                     "reproduce": "tsh -i main.tsh -o . -t bash -t batch"}, sig)
