------------------------------- MODULE FamC08 -------------------------------
(* Direction-A family for C08: every printable ASCII character (and newline, tab) in first, middle, last and only *)
(* position of a string x every data path of the language x origin (literal in the source; obtained at run time  *)
(* from a file, from standard input or from a command's output).  One single-purpose program per case, so that a  *)
(* shell syntax error caused by one character cannot mask another case.  TshDyn is the identity on data.          *)
EXTENDS TshAst
CONSTANT Tier
Quick == Tier = "quick"
I(n) == NatLit(n)
Printable == " !\"#$%&'()*+,-./0123456789:;<=>?@ABCDEFGHIJKLMNOPQRSTUVWXYZ[\\]^_`abcdefghijklmnopqrstuvwxyz{|}~"
Chars == {SubSeq(Printable, i, i) : i \in 1..Len(Printable)} \cup {"\n", "\t"}
CodeOf(c) == IF c = "\n" THEN 10 ELSE IF c = "\t" THEN 9 ELSE 31 + (CHOOSE i \in 1..Len(Printable) : SubSeq(Printable, i, i) = c)
Hex(n) == LET d == "0123456789abcdef" IN SubSeq(d, (n \div 16) + 1, (n \div 16) + 1) \o SubSeq(d, (n % 16) + 1, (n % 16) + 1)
Positions == {"only", "first", "middle", "last"}
Value(c, p) == CASE p = "only" -> c [] p = "first" -> c \o "yz" [] p = "middle" -> "ab" \o c \o "yz" [] p = "last" -> "ab" \o c
IndexIn(p) == CASE p = "only" -> 0 [] p = "first" -> 0 [] p = "middle" -> 2 [] p = "last" -> 2
Paths == {"print", "assign", "concat", "compare", "arg", "ret", "slice", "range", "subscript", "len", "file", "multi"}
Origins == IF Quick THEN {"lit", "inline", "file"} ELSE {"lit", "inline", "raw", "file", "stdin", "stdinp", "cmd"}
\* the whole values are also typed in at a prompt (none, a literal one, one held in a variable), in every tier
SOrigins == Origins \cup {"stdin", "stdinp", "stdinpv"}

\* statements that bring the value into variable s (and a second, equal value into s2)
Obtain(o, v) ==
  CASE o = "lit" -> <<Def1("s", StrL(v)), Def1("s2", StrL(v))>>
    [] o = "inline" -> <<>>
    [] o = "raw" -> <<Def1("s", RawStr(v)), Def1("s2", RawStr(v))>>
    [] o = "file" -> <<Def1("s", ReadE(StrL("in.txt"))), Def1("s2", ReadE(StrL("in.txt")))>>
    [] o = "stdin" -> <<Def1("s", Input(NoneN)), Def1("s2", Input(NoneN))>>
    [] o = "stdinp" -> <<Def1("s", Input(StrL("Name: "))), Def1("s2", Input(StrL(">")))>>
    [] o = "stdinpv" -> <<Def1("pr", StrL(" * value? ")), Def1("s", Input(Var("pr"))), Def1("s2", Input(Bin("+", Var("pr"), StrL("again "))))>>
    \* the probe command `pa` prints "pa", a newline and then copies its standard input: the value arrives as command output
    [] o = "cmd" -> <<Def(<<"s0", "e1", "c1">>, <<App(<<Stage("pa", <<>>)>>)>>), Def1("s", Substr(Var("s0"), I(3), NoneN)), Def1("s2", Substr(Var("s0"), I(3), NoneN))>>
World(o, v) ==
  CASE o = "file" -> [fs |-> <<[path |-> "in.txt", content |-> v \o "\n"]>>, stdin |-> <<>>]
    [] o \in {"stdin", "stdinp", "stdinpv"} -> [fs |-> <<>>, stdin |-> <<v, v>>]
    [] o = "cmd" -> [fs |-> <<>>, stdin |-> <<v>>]
    [] OTHER -> [fs |-> <<>>, stdin |-> <<>>]
\* S and S2 are the expressions that denote the value: variables (origins above) or the literal itself ("inline")
Use(path, p, S, S2) ==
  CASE path = "print" -> <<Print1(S), PrintS(<<StrL("<"), S, StrL(">")>>)>>
    [] path = "assign" -> <<Def1("t", S), VarDef(<<"u">>, "string", <<>>), Asg1("u", Var("t")), Print1(Var("u"))>>
    [] path = "concat" -> <<Def1("t", Bin("+", Bin("+", StrL("<"), S), StrL(">"))), Print1(Var("t")), Compound("t", "+", S), Print1(Var("t"))>>
    [] path = "compare" -> <<PrintS(<<CmpE("==", S, S2), CmpE("!=", S, S2), CmpE("==", S, StrL("other")), CmpE("!=", Bin("+", S, StrL("x")), S2)>>),
                             \* against the empty string, a blank and the value doubled: a value is never "nothing" unless it is empty
                             PrintS(<<CmpE("==", S, StrL("")), CmpE("!=", S, StrL("")), CmpE("==", StrL(""), S), CmpE("==", S, StrL(" ")), CmpE("==", Bin("+", S, S2), S)>>),
                             Switch(S, <<CaseB(StrL(""), <<Print1(StrL("empty"))>>), CaseB(StrL(" "), <<Print1(StrL("blank"))>>)>>, <<Print1(StrL("neither"))>>, TRUE),
                             Switch(S, <<CaseB(StrL("other"), <<Print1(StrL("wrong"))>>), CaseB(S2, <<Print1(StrL("same"))>>)>>, <<Print1(StrL("default"))>>, TRUE)>>
    [] path = "arg" -> <<Func("show", <<Param("p", "string"), Param("q", "string")>>, <<>>, <<Print1(Var("q")), Print1(Var("p"))>>), ExprS(CallE("show", <<S, StrL("q")>>))>>
    [] path = "ret" -> <<Func("give", <<Param("p", "string")>>, <<"string", "string">>, <<RetS(<<Var("p"), StrL("second")>>)>>), Def(<<"r1", "r2">>, <<CallE("give", <<S>>)>>), Print1(Var("r1")), Print1(Var("r2"))>>
    [] path = "slice" -> <<Def1("a", SliceLit("string", <<StrL("zero"), S>>)), SetIdx("a", I(3), S), Print1(IndexE(Var("a"), I(1))), Print1(IndexE(Var("a"), I(3))), Print1(LenE(Var("a"))),
                           RangeS("i", "e", Var("a"), <<PrintS(<<Var("i"), StrL("["), Var("e"), StrL("]")>>)>>)>>
    [] path = "range" -> <<RangeS("i", "ch", S, <<PrintS(<<Var("i"), StrL("["), Var("ch"), StrL("]")>>)>>)>>
    [] path = "subscript" -> <<PrintS(<<StrL("["), IndexE(S, I(IndexIn(p))), StrL("]")>>), PrintS(<<StrL("["), Substr(S, I(IndexIn(p)), I(IndexIn(p) + 1)), StrL("]")>>),
                               Print1(Substr(S, NoneN, I(IndexIn(p) + 1))), Print1(Substr(S, I(IndexIn(p)), NoneN))>>
    [] path = "len" -> <<PrintS(<<LenE(S), LenE(Bin("+", S, S))>>)>>
    [] path = "file" -> <<WriteS(StrL("o.txt"), S), WriteA(StrL("o.txt"), S, BoolL(TRUE)), Print1(ReadE(StrL("o.txt"))), Print1(ExistsE(StrL("o.txt")))>>
    [] path = "multi" -> <<Def(<<"m1", "m2">>, <<S, StrL("k")>>), Asg(<<"m1", "m2">>, <<Var("m2"), Var("m1")>>), PrintS(<<Var("m2")>>), PrintS(<<Var("m1")>>)>>
Mk(c, p, path, o) == [id |-> "C08/" \o path \o "/" \o o \o "/" \o p \o "/x" \o Hex(CodeOf(c)),
                      prog |-> [body |-> Obtain(o, Value(c, p)) \o (IF o = "inline" THEN Use(path, p, StrL(Value(c, p)), StrL(Value(c, p))) ELSE Use(path, p, Var("s"), Var("s2"))), world |-> World(o, Value(c, p))],
                      check |-> <<"fs">>]
\* a newline inside a value obtained from stdin or as the last character of a file is not a value of those origins
LegalPath(path, o) == ~(o = "inline" /\ path = "subscript")          \* a literal cannot be subscripted in the grammar
Legal(c, p, o) == ~(c = "\n" /\ (o \in {"stdin", "stdinp", "stdinpv"} \/ (o \in {"file", "cmd"} /\ p \in {"last", "only"}))) /\ ~(o = "raw" /\ c = "`")

\* whole values named in the property: leading dashes, glob characters, leading/trailing/repeated blanks, things a shell would execute
Specials == <<"-n", "-e", "-E", "-n x", "-", "--", "-ne", "*", " * ", "?", "[a]", "a  b", "   ", " lead", "trail ", "  two  ", "~", "~root", "#c", "a #c", "a;b", "a&b", "a|b", "a>b", "a<b", "(a)", "{a,b}", "!x", "a=b", "x y z", "%s", "\\n",
              "$HOME", "${PATH}", "$(touch CANARY)", "`touch CANARY`", "a;touch CANARY", "&& touch CANARY", "| touch CANARY", "> CANARY", "\"; touch CANARY; \"", "'q'", "it's", "1 -eq 1", "0", "", "-1", "true", " ", "\t", " \t ">>     \* new values are appended: the recorded findings name values by position
MkS(i, path, o) == [id |-> "C08s/" \o path \o "/" \o o \o "/v" \o ToString(i),
                    prog |-> [body |-> Obtain(o, Specials[i]) \o (IF o = "inline" THEN Use(path, "only", StrL(Specials[i]), StrL(Specials[i])) ELSE Use(path, "only", Var("s"), Var("s2"))), world |-> World(o, Specials[i])], check |-> <<"fs">>]
SpecialCases == {MkS(i, path, o) : i \in {j \in 1..Len(Specials) : Specials[j] # ""} , path \in Paths \ {"subscript"}, o \in SOrigins}
                \cup {MkS(i, path, o) : i \in {j \in 1..Len(Specials) : Specials[j] = ""}, path \in Paths \ {"subscript", "range"}, o \in Origins \ {"stdin", "stdinp", "file", "cmd", "inline"}}
\* ---- values with TWO special characters (first and last), as a literal operand next to a variable operand (round 9: a literal ending in "}" after a
\* variable was taken for a plain expansion and left unquoted - it needed "}" last AND a blank or an operator before it).  The characters whose
\* literals are known findings (K03-K06: double quote, dollar, backquote, backslash) are left out, so that every one of these cases must pass.
Punct2 == " !#%&'()*+,-./:;<=>?@[]^_{|}~"
PC2 == {SubSeq(Punct2, i, i) : i \in 1..Len(Punct2)}
Value2(c1, c2) == c1 \o "b" \o c2
Cat2(lit) == <<Def1("v", StrL("x")), Def1("t", Bin("+", Var("v"), lit)), Def1("u", Bin("+", lit, Var("v"))), Print1(Var("t")), Print1(Var("u")), Def1("w", Var("v")), Compound("w", "+", lit), Print1(Var("w")),
               PrintS(<<Bin("+", Var("v"), lit), LenE(Var("t")), CmpE("==", Var("t"), Bin("+", StrL("x"), lit)), CmpE("==", Bin("+", Var("v"), lit), Var("u"))>>),
               Func("id", <<Param("p", "string")>>, <<"string">>, <<RetS(<<Bin("+", Var("p"), lit)>>)>>), Print1(CallE("id", <<Var("v")>>))>>
Mk2(c1, c2, path) == [id |-> "C08p/" \o path \o "/x" \o Hex(CodeOf(c1)) \o "x" \o Hex(CodeOf(c2)),
                      prog |-> [body |-> IF path = "cat2" THEN Cat2(StrL(Value2(c1, c2))) ELSE Use(path, "only", StrL(Value2(c1, c2)), StrL(Value2(c1, c2))), world |-> World("inline", "")], check |-> <<"fs">>]
PairCases == {Mk2(c1, c2, path) : c1 \in PC2, c2 \in PC2, path \in (IF Quick THEN {"cat2"} ELSE {"cat2", "print", "assign", "arg", "compare", "slice"})}
ASSUME ndJsonSerialize("fam.ndjson", SetToSeq(UNION {IF Legal(t[1], t[2], t[3]) THEN {Mk(t[1], t[2], path, t[3]) : path \in {q \in Paths : LegalPath(q, t[3])}} ELSE {}
                                                    : t \in Chars \X Positions \X Origins} \cup SpecialCases \cup PairCases))
=============================================================================
