------------------------------- MODULE LexRun -------------------------------
(* Trace validation for C11: the token list lexer.Tokenize returned for a text (recorded by `vh lex`) must be *)
(* exactly the run of the reference scanner: same error flag, same types, values, rows and columns.           *)
EXTENDS Lexer
Obs == Cases[ci].obs
NoPos == "nopos" \in DOMAIN Cases[ci] /\ Cases[ci].nopos      \* columns are not compared (text holds non-ASCII placeholders)
Strip(ts) == [i \in 1..Len(ts) |-> [t |-> ts[i].t, v |-> ts[i].v]]
Same == IF err THEN Obs.err
        ELSE ~Obs.err /\ (IF NoPos THEN Strip(Result) = Strip(Obs.toks) ELSE Result = Obs.toks)
FirstDiff == IF err \/ Obs.err THEN 0
             ELSE LET n == IF Len(Result) < Len(Obs.toks) THEN Len(Result) ELSE Len(Obs.toks)
                      D == {i \in 1..n : Result[i] # Obs.toks[i]}
                  IN IF D = {} THEN n + 1 ELSE CHOOSE i \in D : \A j \in D : i <= j
Verdict == Done => PrintT(ToJson([id |-> Cases[ci].id, ok |-> (unspec \/ Same), unspec |-> unspec, err |-> err, toks |-> Result, at |-> FirstDiff]))
=============================================================================
