SPECIFICATION FamSpec
CONSTANT Tier = "quick"
