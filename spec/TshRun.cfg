SPECIFICATION Spec
CONSTANTS
  W = 64
INVARIANTS Verdict NeverStuck Balanced RefsValid LineStore
PROPERTIES FrameIsolation WriteLocal
CHECK_DEADLOCK TRUE
