SPECIFICATION Spec
INVARIANT Verdict
PROPERTY FrameDiscipline
CHECK_DEADLOCK TRUE
