------------------------------- MODULE FamSyn -------------------------------
(* Direction-A family of SPELLINGS: legal ways of writing a program that the renderer of the other families never produces.   *)
(* A case is an abstract-syntax program (what TshDyn runs) together with a source TEXT that spells the same program with an    *)
(* optional syntactic element added or left out - Go's grammar allows an empty or a parenthesised result list, a trailing       *)
(* comma in result and parameter lists, parentheses around conditions, switch tags, returned values and operands.  The harness *)
(* transpiles and runs the TEXT, TLC validates the observation against the program: the spelling must be accepted and mean the  *)
(* same (round 11: a "stricter" result-list parser refused `func f() ()` and `(int, int,)`).  The catalog was calibrated on the *)
(* unchanged tree: Go spellings that TypeShell's grammar does not share (trailing comma in call arguments and slice literals,   *)
(* `a, b int` parameter groups, several values per case, `;` between statements, `{}` on one line, line breaks inside           *)
(* expressions, `const`) are refused by it and are not part of the family.  Ids: syn/<property>/<name>.                         *)
EXTENDS TshAst
CONSTANT Tier
N(i) == NatLit(i)
V(n) == Var(n)
S(s) == StrL(s)
P(es) == PrintS(es)
CaseSrc(id, body, src) == [id |-> id, prog |-> ProgOf(body), src |-> src]
Cases == {
  CaseSrc("syn/C02/empty-result-list", <<Func("hit", <<>>, <<>>, <<P(<<S("hit")>>)>>), ExprS(CallE("hit", <<>>)), ExprS(CallE("hit", <<>>))>>,
          "func hit() () {\n\tprint(\"hit\")\n}\nhit()\nhit()\n"),
  CaseSrc("syn/C02/single-result-in-brackets", <<Func("f", <<Param("n", "int")>>, <<"int">>, <<RetS(<<Bin("+", V("n"), N(4))>>)>>), P(<<CallE("f", <<N(1)>>)>>)>>,
          "func f(n int) (int) {\n\treturn n + 4\n}\nprint(f(1))\n"),
  CaseSrc("syn/C02/result-list-trailing-comma", <<Func("f", <<>>, <<"int", "string">>, <<RetS(<<N(4), S("s")>>)>>), Def(<<"a", "b">>, <<CallE("f", <<>>)>>), P(<<V("a"), V("b")>>)>>,
          "func f() (int, string,) {\n\treturn 4, \"s\"\n}\na, b := f()\nprint(a, b)\n"),
  CaseSrc("syn/C02/parameter-list-trailing-comma", <<Func("f", <<Param("a", "int"), Param("b", "int")>>, <<"int">>, <<RetS(<<Bin("+", V("a"), V("b"))>>)>>), P(<<CallE("f", <<N(1), N(2)>>)>>)>>,
          "func f(a int, b int,) int {\n\treturn a + b\n}\nprint(f(1, 2))\n"),
  CaseSrc("syn/C02/both-trailing-commas", <<Func("dm", <<Param("a", "int"), Param("b", "int")>>, <<"int", "int">>, <<RetS(<<Bin("/", V("a"), V("b")), Bin("%", V("a"), V("b"))>>)>>),
                                            Def(<<"q", "r">>, <<CallE("dm", <<N(17), N(5)>>)>>), P(<<V("q"), V("r")>>), Asg(<<"q", "r">>, <<CallE("dm", <<V("r"), V("q")>>)>>), P(<<V("q"), V("r")>>)>>,
          "func dm(a int, b int,) (int, int,) {\n\treturn a / b, a % b\n}\nq, r := dm(17, 5)\nprint(q, r)\nq, r = dm(r, q)\nprint(q, r)\n"),
  CaseSrc("syn/C02/returned-values-in-brackets", <<Func("f", <<Param("a", "int")>>, <<"int", "int">>, <<RetS(<<Grp(V("a")), Grp(Bin("+", V("a"), N(1)))>>)>>), Def(<<"x", "y">>, <<CallE("f", <<N(1)>>)>>), P(<<V("x"), V("y")>>)>>,
          "func f(a int) (int, int) {\n\treturn (a), (a + 1)\n}\nx, y := f(1)\nprint(x, y)\n"),
  CaseSrc("syn/C01/condition-in-brackets", <<Def1("a", N(3)), IfElse(Grp(CmpE("<", V("a"), N(5))), <<P(<<S("lt")>>)>>, <<P(<<S("ge")>>)>>), Def1("i", N(0)), ForCond(Grp(CmpE("<", V("i"), N(3))), <<Inc("i")>>), P(<<V("i")>>)>>,
          "a := 3\nif (a < 5) {\n\tprint(\"lt\")\n} else {\n\tprint(\"ge\")\n}\ni := 0\nfor (i < 3) {\n\ti++\n}\nprint(i)\n"),
  CaseSrc("syn/C01/switch-tag-in-brackets", <<Def1("a", N(2)), Switch(Grp(V("a")), <<CaseB(Grp(N(2)), <<P(<<S("two")>>)>>)>>, <<P(<<S("other")>>)>>, TRUE)>>,
          "a := 2\nswitch (a) {\ncase (2):\n\tprint(\"two\")\ndefault:\n\tprint(\"other\")\n}\n"),
  CaseSrc("syn/C01/operands-in-brackets", <<Def1("x", Grp(N(5))), P(<<Grp(V("x")), Grp(Grp(Bin("+", Grp(V("x")), Grp(N(1))))), Not(Grp(Not(BoolL(TRUE))))>>)>>,
          "x := (5)\nprint((x), (((x) + (1))), !(!true))\n"),
  \* comparison operators share one precedence level and associate to the left (Go): a chain without brackets means ((a op b) op c) (F58)
  CaseSrc("syn/C01/compare-chain-bool", <<Def(<<"a", "b">>, <<BoolL(TRUE), BoolL(FALSE)>>),
                                          P(<<CmpE("==", CmpE("==", V("a"), V("b")), BoolL(FALSE)), CmpE("==", CmpE("!=", V("a"), V("b")), BoolL(TRUE)), CmpE("!=", CmpE("==", V("b"), V("b")), V("a"))>>)>>,
          "a, b := true, false\nprint(a == b == false, a != b == true, b == b != a)\n"),
  CaseSrc("syn/C01/compare-chain-int-first", <<Def1("x", N(5)), P(<<CmpE("==", CmpE("<", N(1), N(2)), BoolL(TRUE)), CmpE("!=", CmpE(">", V("x"), N(7)), BoolL(FALSE)), CmpE("==", CmpE("==", CmpE("==", N(1), N(2)), BoolL(FALSE)), BoolL(TRUE))>>),
                                               IfElse(CmpE("==", CmpE(">", V("x"), N(1)), BoolL(TRUE)), <<P(<<S("y")>>)>>, <<P(<<S("n")>>)>>)>>,
          "x := 5\nprint(1 < 2 == true, x > 7 != false, 1 == 2 == false == true)\nif x > 1 == true {\n\tprint(\"y\")\n} else {\n\tprint(\"n\")\n}\n"),
  CaseSrc("syn/C01/compare-chain-string", <<Def1("s", S("ab")), P(<<CmpE("==", CmpE("==", V("s"), S("ab")), BoolL(TRUE)), CmpE("==", CmpE("!=", V("s"), S("")), CmpE("==", V("s"), S("x")))>>)>>,
          "s := \"ab\"\nprint(s == \"ab\" == true, s != \"\" == (s == \"x\"))\n"),
  CaseSrc("syn/C01/escape-spellings", <<Def1("s", S("ABC* z\t!")), P(<<V("s"), LenE(V("s")), CmpE("==", V("s"), S("ABC* z\t!"))>>)>>,
          "s := \"\\101\\x42\\u0043\\052 z\\t\\041\"\nprint(s, len(s), s == \"ABC* z\\t!\")\n"),
  CaseSrc("syn/C01/var-forms", <<VarDef(<<"a", "b">>, "int", <<N(1), N(2)>>), VarDef(<<"c">>, "", <<N(5)>>), VarDef(<<"e">>, "error", <<Nil>>), P(<<V("a"), V("b"), V("c"), CmpE("==", V("e"), Nil)>>)>>,
          "var a, b int = 1, 2\nvar c = 5\nvar e error = nil\nprint(a, b, c, e == nil)\n"),
  CaseSrc("syn/C03/typed-slice-definitions", <<VarDef(<<"s">>, "[]int", <<>>), VarDef(<<"t">>, "[]string", <<SliceLit("string", <<S("a")>>)>>), P(<<LenE(V("s")), LenE(V("t"))>>), RangeS("i", "", V("t"), <<P(<<V("i")>>)>>)>>,
          "var s []int\nvar t []string = []string{\"a\"}\nprint(len(s), len(t))\nfor i := range t {\n\tprint(i)\n}\n")}
ASSUME ndJsonSerialize("fam.ndjson", SetToSeq(Cases))
=============================================================================
