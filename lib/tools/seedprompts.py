import json,sys,subprocess,os
rnd=sys.argv[1]; theme=open(sys.argv[2]).read(); props=sys.argv[3:]
P={json.loads(l)['id']:json.loads(l) for l in open('/verif/properties.jsonl')}
for pid in props:
    sid='S-%s-%s'%(pid,rnd)
    wt='/tmp/wt/'+sid
    if not os.path.exists(wt):
        subprocess.run(['git','-C','/repo','worktree','add','--detach',wt,'HEAD'],check=True,capture_output=True)
    out='/tmp/seedout/'+sid
    os.makedirs(out,exist_ok=True)
    txt=f"""You are helping to evaluate a verification tool by writing a realistic, subtle regression for an open-source project. Work ONLY inside the git worktree {wt} (a checkout of monstermichl/TypeShell, a small Go-like language that is transpiled to Bash or Windows Batch; Go module github.com/monstermichl/typeshell) and the output directory {out}. Do not read or write /verif, /repo, or other directories under /tmp/wt or /tmp/seedout. There is no network. In every shell call first run: export GOFLAGS=-mod=mod GOPROXY=off GOSUMDB=off GOTOOLCHAIN=local

PROPERTY (id {pid}) that TypeShell is supposed to satisfy:
{json.dumps(P[pid],indent=1)}

TASK: make a change to the TypeShell sources in {wt} that BREAKS this property, yet still compiles (`go build ./...`) and passes the whole existing test suite unchanged (`cd {wt}/tests && go test -vet=off -count=1 ./...` must print ok; do not edit the tests). The change must look like something a maintainer could plausibly commit (refactoring, optimisation, clean-up, feature, bug fix that goes too far) - no dead giveaway comments, no random behaviour, no time bombs.

THEME OF THIS ROUND - the change must obey it:
{theme}

In all cases the change must need something specific to manifest; ordinary use (the programs in tests/, examples/, the README) must behave exactly as before. Read the code first (lexer/, parser/, transpiler/, converters/bash, converters/batch, std/, tsh.go, README.md) and find a place where such a change is natural.

DELIVER in {out}:
1. patch.diff - `git -C {wt} diff` of your change (only source files of the project; apply-able with `patch -p1` at the tree root).
2. demo.sh - a bash script called as `bash demo.sh <path of a TypeShell source tree>`; it builds what it needs from that tree into a temp dir (the tsh binary looks for the bundled library `std/` next to its executable, so copy `<tree>/std` next to the binary you build; a Go test program with a `replace` directive is fine too), exercises the property, exits 0 when the property holds on everything it tries and 1 when it is violated (2 for set-up problems). It must exit 0 on the ORIGINAL tree (git stash / a second copy: check this!) and 1 on your changed tree. It should include control programs that behave identically before and after. Only /bin/bash, coreutils and the go toolchain are available (no cmd.exe: for a Batch-only effect argue from the emitted script text in the demo).
3. notes.md - what the change is, what exactly is needed for it to manifest, why the existing tests do not notice, and which clause of the property is broken. Be precise about the smallest program that exposes it.

Before you finish: confirm build, confirm the test suite passes with the change, confirm demo.sh exits 0 on a pristine copy (`git -C {wt} stash; ...; git -C {wt} stash pop` or `git worktree`-independent copy made with `git -C {wt} archive HEAD | tar -x -C <tmpdir>`) and 1 on the changed tree. Remove your temp files. Your final message: one paragraph summarising the change and the trigger."""
    open('/tmp/prompts/%s.txt'%sid,'w').write(txt)
    print(sid)
