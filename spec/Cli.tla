--------------------------------- MODULE Cli ---------------------------------
(* C19: the tsh command as a transition on (output directory, input file).  One recorded invocation per case:         *)
(*   argv      the arguments, with $IN / $OUT standing for the input file and output directory paths                  *)
(*   inKind    "file" | "missing" | "dir";  outKind  "dir" | "missing" | "file"                                       *)
(*   lib       [bash |-> digest or "ERR", batch |-> ...]   what the LIBRARY returns for the input (fresh process)       *)
(*   name      [bash |-> file name expected for that target, batch |-> ...]   (<input without extension>.<ext>)          *)
(*   before, after   the output directory as sequences of [name, digest];  exit;  inputSame                              *)
(* Run(argv) must satisfy the outcome relation below, whatever the order and multiplicity of the options.               *)
EXTENDS Integers, Sequences, FiniteSets, TLC, Json
Cases == ndJsonDeserialize("cases.ndjson")
VARIABLE ci
Init == ci \in 1..Len(Cases)
Next == UNCHANGED ci
Spec == Init /\ [][Next]_ci
C == Cases[ci]
Argv == C.argv
Switches == {"-i", "--in", "-o", "--out", "-t", "--type"}
Even == Len(Argv) % 2 = 0
Sw(k) == Argv[2 * k - 1]
Val(k) == Argv[2 * k]
NP == Len(Argv) \div 2
KnownSwitches == \A k \in 1..NP : Sw(k) \in Switches
Ins == {k \in 1..NP : Sw(k) \in {"-i", "--in"}}
Outs == {k \in 1..NP : Sw(k) \in {"-o", "--out"}}
Ts == {k \in 1..NP : Sw(k) \in {"-t", "--type"}}
RECURSIVE TargetSeq(_)
TargetSeq(k) == IF k > NP THEN <<>> ELSE (IF k \in Ts THEN <<Val(k)>> ELSE <<>>) \o TargetSeq(k + 1)
Targets == TargetSeq(1)                                   \* in the order given, with repetitions
KnownTargets == \A i \in 1..Len(Targets) : Targets[i] \in {"bash", "batch"}
\* the values of the last -i / -o win (an option may be repeated)
LastOf(S) == CHOOSE k \in S : \A j \in S : j <= k
WellFormed == Even /\ KnownSwitches /\ Ins # {} /\ Outs # {} /\ Ts # {} /\ KnownTargets
              /\ (\A k \in Ins : Val(k) \in {"$IN", "$MISSING", "$INDIR"}) /\ (\A j \in Outs : Val(j) \in {"$OUT", "$NOOUT", "$OUTFILE"})
Usable == WellFormed /\ Val(LastOf(Ins)) = "$IN" /\ C.inKind = "file" /\ Val(LastOf(Outs)) = "$OUT" /\ C.outKind = "dir"
           /\ (\A k \in Ins : Val(k) = "$IN") /\ (\A j \in Outs : Val(j) = "$OUT")      \* every named input/output must exist (tsh checks each)
Dir(d) == [n \in {d[i].name : i \in 1..Len(d)} |-> (CHOOSE e \in {d[i] : i \in 1..Len(d)} : e.name = n).digest]
Before == Dir(C.before)
After == Dir(C.after)
Unchanged(n) == (n \in DOMAIN Before <=> n \in DOMAIN After) /\ (n \in DOMAIN Before => Before[n] = After[n])
Lib(t) == C.lib[t]
NameOf(t) == C.name[t]
Requested == {Targets[i] : i \in 1..Len(Targets)}
FailIdx == {i \in 1..Len(Targets) : Lib(Targets[i]) = "ERR"}
AllOk == FailIdx = {}
FirstFail == CHOOSE i \in FailIdx : \A j \in FailIdx : i <= j
ExpectedNames == {NameOf(t) : t \in Requested}
Success == /\ C.exit = 0
           /\ \A t \in Requested : NameOf(t) \in DOMAIN After /\ After[NameOf(t)] = Lib(t)        \* exactly the library's bytes
           /\ \A n \in (DOMAIN Before \cup DOMAIN After) \ ExpectedNames : Unchanged(n)             \* nothing else is touched
Failure == /\ C.exit # 0
           /\ IF ~Usable THEN \A n \in DOMAIN Before \cup DOMAIN After : Unchanged(n)
              ELSE /\ \A i \in FirstFail..Len(Targets) : Lib(Targets[i]) = "ERR" => Unchanged(NameOf(Targets[i]))   \* no new or changed file for a failing target
                   /\ \A n \in (DOMAIN Before \cup DOMAIN After) \ ExpectedNames : Unchanged(n)
Ok == C.inputSame /\ (IF Usable /\ AllOk THEN Success ELSE Failure)
Verdict == PrintT(ToJson([id |-> C.id, ok |-> Ok, usable |-> Usable, wellformed |-> WellFormed, expect |-> (IF Usable /\ AllOk THEN "success" ELSE "failure"),
                          targets |-> Targets]))
=============================================================================
