SPECIFICATION Spec
INVARIANTS Verdict Accounted Positions Deterministic
CHECK_DEADLOCK TRUE
