"""python3 lib/mkfloors.py <log files...> : derive lib/floors.json (60 % of the traces validated on the unchanged tree, per property and tier)
from the summary lines 'Cxx tier: ... N traces validated' of runs on the unchanged tree; the minimum over all given runs is used."""
import json
import os
import re
import sys

pat = re.compile(r"^(C\d\d) (quick|thorough): .* (\d+) traces validated, \d+ known, 0 violations")
low = {}
for fn in sys.argv[1:]:
    for line in open(fn, errors="replace"):
        m = pat.match(line.strip())
        if m:
            k = (m.group(1), m.group(2))
            low[k] = min(low.get(k, 10 ** 12), int(m.group(3)))
path = os.path.join(os.path.dirname(os.path.abspath(__file__)), "floors.json")
floors = json.load(open(path)) if os.path.exists(path) else {}
for (p, t), n in sorted(low.items()):
    floors.setdefault(p, {})[t] = int(n * 0.6)
json.dump(floors, open(path, "w"), indent=1, sort_keys=True)
print(json.dumps(floors))
