#!/bin/bash
# proc.sh <round> <prop>... : verify, store, check
r=$1; shift
cd /verif
for s in "$@"; do
  id=S-$s-$r
  v=$(bin/seedtool verify /tmp/seedout/$id 2>&1 | tail -1)
  if [ "$v" != VERIFIED ]; then echo "$id NOT VERIFIED: $v"; continue; fi
  mkdir -p seeded/$id; cp /tmp/seedout/$id/patch.diff /tmp/seedout/$id/demo.sh /tmp/seedout/$id/notes.md seeded/$id/
  bin/seedtool check $id $s quick 2>&1 | head -3
done
