"""C13 - Transpilation is total: a script or an error, never a crash or a hang."""
import os
import random

from vlib import Infra, read_ndjson, write_ndjson

RULE = ("(0) spec/Totality.tla, the outcome protocol, is model-checked exhaustively (safety and termination under fairness). "
        "(a) direction A: TLC enumerates all strings of length <= 3 (thorough 4) over 16 lexically interesting characters (spec/FamC13.tla); the reference "
        "scanner decides which are lexical errors; (b) every single-token edit (delete, duplicate, swap, replace by each of 51 catalog tokens) of the 47 base "
        "programs of spec/FamC12.tla, every k-th in quick; (c) all 729 import graphs over three files with self/mutual imports and missing files, judged by "
        "spec/TshModules.tla (cyclic or missing => error, else a script); (d) seeded random texts; (e) the well-formed programs of the direction-A families of C01-C04, C08, C10, C16-C18 (every construct, builtin, argument class incl. empty and nil arguments, nesting shape). Every call runs for both targets in a worker subprocess "
        "(stack cap, address-space cap, deadline); TLC validates the recorded outcome against the protocol (spec/TotalRun.tla). Distinct = distinct input.")
ASSUME = ["a dead worker process or an exceeded deadline is recorded as the outcome of that single input (one input at a time per worker)",
          "arbitrary bytes are represented by an alphabet of ASCII characters plus one two-byte UTF-8 letter (TLC strings are not byte strings)"]


def total(ctx, cases, tag, scan):
    wd = ctx.sub("tot-" + tag)
    p0, p1 = os.path.join(wd, "c0.ndjson"), os.path.join(wd, "c1.ndjson")
    write_ndjson(p0, cases)
    ctx.run_vh("total", p0, p1, os.path.join(wd, "scr"), timeout=7200)
    ran = read_ndjson(p1)
    slim = []
    for c in ran:
        d = {"id": c["id"], "mode": c["mode"], "text": c["text"] if scan else "", "expect": c.get("expect", "any"), "obs": {
            t: {k: c["obs"][t].get(k, False) for k in ("kind", "script", "msg")} for t in ("bash", "batch")}}
        slim.append(d)
    p2 = os.path.join(wd, "cases.ndjson")
    write_ndjson(p2, slim)
    verd, _ = ctx.tlc("TotalRun", workdir=ctx.sub("tlc-" + tag), files=[(p2, "cases.ndjson")], timeout=3000)
    by = {v["id"]: v for v in verd}
    for c in ran:
        v = by.get(c["id"])
        if v is None:
            raise Infra("no verdict for " + c["id"])
        ctx.evaluations += 1
        ctx.traces_validated += 1
        ctx.distinct.add(c["id"])
        if not v["ok"]:
            o = c["obs"]
            s = "bash: %s %s | batch: %s %s%s" % (o["bash"]["kind"], o["bash"].get("detail", ""), o["batch"]["kind"], o["batch"].get("detail", ""),
                                                 " | the specification requires an error" if v["mustfail"] else "")
            ctx.report_failure(c["id"], {"property": "C13", "case": c["id"], "why": s, "text": c.get("text"), "files": c.get("files"),
                                         "prog": c.get("prog"), "observed": o, "reproduce": "transpiler.New().Transpile(file, converter) for both converters"}, s)
    if len(ctx.samples) < 8:
        ctx.samples += [{"id": c["id"], "input": (c.get("text") or c.get("prog"))if len(str(c.get("text") or c.get("prog"))) < 500 else "(long)", "outcome": c["obs"]} for c in ran[:2]]


def run(ctx):
    quick = ctx.tier == "quick"
    _, st = ctx.tlc("Totality", workers=4)
    wd = ctx.sub("fam")
    ctx.tlc("FamC13", workdir=wd, constants={"Tier": '"%s"' % ctx.tier}, workers=1, count=False)
    ctx.exhaustive["bytes"] = True
    ctx.exhaustive["import graphs"] = True
    total(ctx, read_ndjson(os.path.join(wd, "fam.ndjson")), "bytes", True)
    total(ctx, read_ndjson(os.path.join(wd, "famgraph.ndjson")), "graphs", False)
    total(ctx, read_ndjson(os.path.join(wd, "famnear.ndjson")), "near", False)
    # token edits of the C12 base programs (segmented by the reference scanner)
    bases = ctx.tlc_family("FamC12", constants={"Tier": '"quick"'})
    for b in bases:
        b["mode"] = "pieces"
    pb = os.path.join(wd, "bases.ndjson")
    write_ndjson(pb, bases)
    seg, _ = ctx.tlc("Layout", workdir=ctx.sub("tlc-pieces"), files=[(pb, "cases.ndjson")])
    segs = {v["id"]: v for v in seg}
    pp, pe = os.path.join(wd, "pieces.ndjson"), os.path.join(wd, "edits.ndjson")
    write_ndjson(pp, [dict(b, pieces=segs[b["id"]]["pieces"]) for b in bases if not segs[b["id"]]["err"]])
    ctx.run_vh("edits", pp, pe, 12 if quick else 1)
    total(ctx, read_ndjson(pe), "edits", False)
    # (e) well-formed programs: the direction-A families of the other properties (every construct, builtin, argument class, nesting shape, renaming)
    progs = []
    # FamC06/FamC07 hold the ill-typed and ill-scoped programs too: every typed position x every offered expression (calls without / with several results,
    # command calls, slices, nil, parenthesised forms), value lists, returns at every depth, every definition and use site
    # FamC09: multi-file programs - every import graph over main + 3 files with globals, import-time code and repeated imports of one file
    for fam, stride in (("FamC01", 9), ("FamC02", 2), ("FamC03", 5), ("FamC04", 2), ("FamC06", 2), ("FamC07", 3), ("FamC08", 23), ("FamC09", 1), ("FamC10", 11), ("FamC16", 1), ("FamC17", 3), ("FamC18", 1)):
        cs = ctx.tlc_family(fam, constants={"Tier": '"quick"'}, timeout=3000)
        cs.sort(key=lambda c: c["id"])
        for c in cs[::(stride if quick else 1)]:
            progs.append({"id": "C13/prog/" + c["id"], "mode": "proto", "expect": "any", "prog": c["prog"], "text": ""})
    import progflow
    pairs = sorted(progflow.pair_cases(ctx), key=lambda c: c["id"])
    for c in pairs[::(7 if quick else 1)]:
        progs.append({"id": "C13/prog/" + c["id"], "mode": "proto", "expect": "any", "prog": c["prog"], "text": ""})
    total(ctx, progs, "progs", False)
    # seeded random texts
    rnd = random.Random(ctx.seed)
    alpha = list(" \n\t\"`'\\/*-+=!<>&|(){}[],;:.@#$~") + list("abxyz019_") + ["if ", "for ", "func ", "print(", ":= ", "import ", "/*", "*/", "//"]
    texts = []
    for i in range(300 if quick else 5000):
        texts.append({"id": "C13/random/s%d/%d" % (ctx.seed, i), "mode": "lex", "text": "".join(rnd.choice(alpha) for _ in range(rnd.randint(1, 40)))})
    total(ctx, texts, "random", True)
    return ctx.finish(rule=RULE, assumptions=ASSUME)
