------------------------------- MODULE FamC07 -------------------------------
(* Direction-A family for C07: every ordered pair (definition site, use site) of a variable over the block      *)
(* structure of one skeleton program (top level before/after, if / else-if / else bodies, nested block, loop     *)
(* header and body, range variables and body, sibling switch cases, parameter, function body, block in a         *)
(* function), the same for functions, every placement of break/continue/return/func, and redefinition variants.  *)
(* Expected verdicts come from TshStatic!Check (spec/StaticRun.tla).                                              *)
EXTENDS TshAst
CONSTANT Tier
I(n) == IntL(n)
DefSites == {"T0", "IF", "IFNEST", "ELIF", "ELSE", "FORINIT", "FORBODY", "RANGEVAL", "RANGEIDX", "RANGEBODY", "CASE1", "CASE2", "DEFAULT", "PARAM", "FUNCBODY", "FUNCIF", "T1", "T2"}
UseSites == {"T0", "IF", "IFNEST", "IFCOND", "ELIF", "ELIFCOND", "ELSE", "FORCOND", "FORPOST", "FORBODY", "RANGEBODY", "RANGEOPND", "CASE1", "CASE2", "CASEEXPR", "DEFAULT", "FUNCBODY", "FUNCIF", "FUNCRET", "T1", "CALLARG", "T2"}
\* definition forms: v := 1 | var v int = 1 | var v int | v, w2 := 1, 2 | v, w2 := two() | var v, w2 = two() | v := one()
Forms == IF Tier = "quick" THEN {"short", "callmulti", "varcall"} ELSE {"short", "vartyped", "vardecl", "multi", "callmulti", "varcall", "callsingle"}
DefVF(F) == CASE F = "short" -> Def1("v", I("1")) [] F = "vartyped" -> VarDef(<<"v">>, "int", <<I("1")>>) [] F = "vardecl" -> VarDef(<<"v">>, "int", <<>>)
              [] F = "multi" -> Def(<<"v", "w2">>, <<I("1"), I("2")>>) [] F = "callmulti" -> Def(<<"v", "w2">>, <<CallE("two", <<>>)>>)
              [] F = "varcall" -> VarDef(<<"v", "w2">>, "", <<CallE("two", <<>>)>>) [] F = "callsingle" -> Def1("v", CallE("one", <<>>))
UseV == Print1(Var("v"))
VEq == CmpE("==", Var("v"), Var("v"))
Skeleton(D, U, order, F) ==
  LET DefV == DefVF(F)
      S(site) == IF D = site /\ U = site THEN (IF order = "du" THEN <<DefV, UseV>> ELSE <<UseV, DefV>>)
                 ELSE IF D = site THEN <<DefV>> ELSE IF U = site THEN <<UseV>> ELSE <<>>
      c == IF D = "FORINIT" THEN "v" ELSE "k"
      And(e, site) == IF U = site THEN Lgc("&&", e, VEq) ELSE e
  IN <<Func("two", <<>>, <<"int", "int">>, <<RetS(<<I("1"), I("2")>>)>>), Func("one", <<>>, <<"int">>, <<RetS(<<I("1")>>)>>),
       Def1("xb", BoolL(TRUE)), Def1("xi", I("1")), Def1("si", SliceLit("int", <<I("4"), I("5")>>))>>
     \o S("T0")
     \o <<If(<<Branch(And(Var("xb"), "IFCOND"), S("IF") \o <<If1(Var("xb"), S("IFNEST"))>>),
               Branch(And(Not(Var("xb")), "ELIFCOND"), S("ELIF"))>>, S("ELSE") \o <<Print1(StrL("else"))>>),
          For3(Def1(c, I("0")), And(CmpE("<", Var(c), I("1")), "FORCOND"),
               IF U = "FORPOST" THEN Asg1(c, Bin("+", Bin("+", Var(c), I("1")), Bin("-", Var("v"), Var("v")))) ELSE Inc(c), S("FORBODY")),
          RangeS(IF D = "RANGEIDX" THEN "v" ELSE "ri", IF D = "RANGEVAL" THEN "v" ELSE "rv",
                 IF U = "RANGEOPND" THEN SliceLit("int", <<Var("v")>>) ELSE Var("si"), S("RANGEBODY")),
          Switch(Var("xi"), <<CaseB(I("1"), S("CASE1") \o <<Print1(StrL("c1"))>>),
                              CaseB(IF U = "CASEEXPR" THEN Var("v") ELSE I("2"), S("CASE2") \o <<Print1(StrL("c2"))>>)>>, S("DEFAULT") \o <<Print1(StrL("d"))>>, TRUE),
          Func("f", <<Param(IF D = "PARAM" THEN "v" ELSE "pp", "int")>>, <<"int">>,
               S("FUNCBODY") \o <<If1(Var("xb"), S("FUNCIF"))>> \o <<RetS(<<IF U = "FUNCRET" THEN Var("v") ELSE I("0")>>)>>)>>
     \o S("T1")
     \o <<Def1("res", CallE("f", <<IF U = "CALLARG" THEN Var("v") ELSE I("7")>>))>>
     \o S("T2")
\* sites where a statement can be placed (a loop header, a range clause or a parameter list admit one form only)
StmtSites == DefSites \ {"FORINIT", "RANGEVAL", "RANGEIDX", "PARAM"}
VarPairs == {CaseOf("C07/var/" \o D \o "-" \o U, Skeleton(D, U, "du", "short")) : D \in DefSites, U \in UseSites}
            \cup {CaseOf("C07/var/" \o D \o "-" \o U \o "/" \o F, Skeleton(D, U, "du", F)) : D \in StmtSites, U \in UseSites, F \in Forms \ {"short"}}
            \cup {CaseOf("C07/var/" \o D \o "-" \o D \o "/usefirst", Skeleton(D, D, "ud", "short")) : D \in DefSites \cap UseSites}
            \cup {CaseOf("C07/var/none-" \o U, Skeleton("NONE", U, "du", "short")) : U \in UseSites}
\* a legal redefinition after / beside the block that held the first definition, for every form of both definitions
Redef2 == {CaseOf("C07/redef2/" \o D \o "/" \o F \o "-" \o G, Skeleton(D, "NONE", "du", F) \o <<DefVF(G), UseV>>) : D \in StmtSites \ {"T2"}, F \in Forms, G \in Forms}

\* functions: definition site x call site
FDefSites == {"T0", "T1", "T2", "IF", "FOR", "CASE", "INFUNC"}
FUseSites == {"T0", "T1", "T2", "IF", "FOR", "CASE", "INFUNC", "INSELF", "INEARLIER"}
DefG == Func("g", <<>>, <<"int">>, <<RetS(<<I("1")>>)>>)
DefGSelf == Func("g", <<>>, <<"int">>, <<RetS(<<CallE("g", <<>>)>>)>>)
UseG == Print1(CallE("g", <<>>))
FSkeleton(D, U, order) ==
  LET S(site) == IF D = site /\ U = site THEN (IF order = "du" THEN <<DefG, UseG>> ELSE <<UseG, DefG>>)
                 ELSE IF D = site THEN <<DefG>> ELSE IF U = site THEN <<UseG>> ELSE <<>>
  IN <<Def1("xb", BoolL(TRUE)), Func("early", <<>>, <<>>, (IF U = "INEARLIER" THEN <<UseG>> ELSE <<>>) \o <<Print1(StrL("early"))>>)>>
     \o (IF U = "INSELF" /\ D = "T0" THEN <<DefGSelf>> ELSE S("T0"))
     \o <<If1(Var("xb"), S("IF") \o <<Print1(I("1"))>>),
          For3(Def1("k", I("0")), CmpE("<", Var("k"), I("1")), Inc("k"), S("FOR") \o <<Print1(I("2"))>>),
          Switch(NoneN, <<CaseB(Var("xb"), S("CASE") \o <<Print1(I("3"))>>)>>, <<>>, FALSE),
          Func("h", <<>>, <<>>, S("INFUNC") \o <<Print1(I("4"))>>)>>
     \o S("T1") \o <<ExprS(CallE("h", <<>>)), ExprS(CallE("early", <<>>))>> \o S("T2")
FuncPairs == {CaseOf("C07/func/" \o D \o "-" \o U, FSkeleton(D, U, "du")) : D \in FDefSites, U \in FUseSites}
             \cup {CaseOf("C07/func/" \o D \o "-" \o D \o "/usefirst", FSkeleton(D, D, "ud")) : D \in FDefSites \cap FUseSites}
             \cup {CaseOf("C07/func/none-" \o U, FSkeleton("NONE", U, "du")) : U \in FUseSites \ {"INSELF"}}

\* placement of break / continue / return / func in every context and nesting
Jumps == {"break", "continue", "return", "return1", "func"}
JStmt(j) == CASE j = "break" -> <<BreakS>> [] j = "continue" -> <<ContinueS>> [] j = "return" -> <<RetS(<<>>)>> [] j = "return1" -> <<RetS(<<I("1")>>)>>
              [] j = "func" -> <<Func("inner", <<>>, <<>>, <<Print1(I("9"))>>)>>
Ctxs == {"top", "if", "else", "for", "forcond", "forinf", "range", "switch", "switchdefault", "forif", "forswitch", "switchfor", "ifswitch", "switchif", "ifif",
         "funcvoid", "funcint", "funcvoidif", "funcintif", "funcvoidfor", "funcintfor", "funcintswitch", "funcvoidforswitch"}
Lp(b) == For3(Def1("k", I("0")), CmpE("<", Var("k"), I("1")), Inc("k"), b)
Sw(b) == Switch(NoneN, <<CaseB(BoolL(TRUE), b)>>, <<>>, FALSE)
Place(c, j) ==
  LET b == JStmt(j)
      tail == <<Print1(I("0"))>>
      FV(body) == <<Func("w", <<>>, <<>>, body), ExprS(CallE("w", <<>>))>>
      FI(body) == <<Func("w", <<>>, <<"int">>, body \o <<RetS(<<I("2")>>)>>), Print1(CallE("w", <<>>))>>
  IN CASE c = "top" -> b \o tail
       [] c = "if" -> <<If1(BoolL(TRUE), b)>> [] c = "else" -> <<IfElse(BoolL(FALSE), tail, b)>> [] c = "ifif" -> <<If1(BoolL(TRUE), <<If1(BoolL(TRUE), b)>>)>>
       [] c = "for" -> <<Lp(b)>> [] c = "forcond" -> <<Def1("n", I("0")), ForCond(CmpE("<", Var("n"), I("1")), <<Inc("n")>> \o b)>>
       [] c = "forinf" -> <<Def1("n", I("0")), ForInf(<<Inc("n"), If1(CmpE(">", Var("n"), I("1")), <<BreakS>>)>> \o b)>>
       [] c = "range" -> <<RangeS("i", "", StrL("ab"), b)>>
       [] c = "switch" -> <<Sw(b)>> [] c = "switchdefault" -> <<Switch(I("1"), <<>>, b, TRUE)>>
       [] c = "forif" -> <<Lp(<<If1(BoolL(TRUE), b)>>)>> [] c = "forswitch" -> <<Lp(<<Sw(b)>>)>> [] c = "switchfor" -> <<Sw(<<Lp(b)>>)>>
       [] c = "ifswitch" -> <<If1(BoolL(TRUE), <<Sw(b)>>)>> [] c = "switchif" -> <<Sw(<<If1(BoolL(TRUE), b)>>)>>
       [] c = "funcvoid" -> FV(b) [] c = "funcint" -> FI(b) [] c = "funcvoidif" -> FV(<<If1(BoolL(TRUE), b)>>) [] c = "funcintif" -> FI(<<If1(BoolL(TRUE), b)>>)
       [] c = "funcvoidfor" -> FV(<<Lp(b)>>) [] c = "funcintfor" -> FI(<<Lp(b)>>) [] c = "funcintswitch" -> FI(<<Sw(b)>>) [] c = "funcvoidforswitch" -> FV(<<Lp(<<Sw(b)>>)>>)
PlaceCases == {CaseOf("C07/place/" \o j \o "/" \o c, Place(c, j)) : j \in Jumps, c \in Ctxs}

\* redefinition, duplicate names, missing return
Redef ==
  {CaseOf("C07/redef/short-twice", <<Def1("a", I("1")), Def1("a", I("2"))>>),
   CaseOf("C07/redef/var-after-short", <<Def1("a", I("1")), VarDef(<<"a">>, "int", <<>>)>>),
   CaseOf("C07/redef/short-after-var", <<VarDef(<<"a">>, "int", <<>>), Def1("a", I("2"))>>),
   CaseOf("C07/redef/inner-block", <<Def1("a", I("1")), If1(BoolL(TRUE), <<Def1("a", I("2"))>>)>>),
   CaseOf("C07/redef/sibling-blocks", <<If1(BoolL(TRUE), <<Def1("a", I("1"))>>), If1(BoolL(TRUE), <<Def1("a", I("2")), Print1(Var("a"))>>)>>),
   CaseOf("C07/redef/after-block", <<If1(BoolL(TRUE), <<Def1("a", I("1"))>>), Def1("a", I("2")), Print1(Var("a"))>>),
   CaseOf("C07/redef/loopvar-twice", <<For3(Def1("i", I("0")), CmpE("<", Var("i"), I("1")), Inc("i"), <<>>), For3(Def1("i", I("0")), CmpE("<", Var("i"), I("1")), Inc("i"), <<>>)>>),
   CaseOf("C07/redef/loopvar-in-body", <<For3(Def1("i", I("0")), CmpE("<", Var("i"), I("1")), Inc("i"), <<Def1("i", I("5"))>>)>>),
   CaseOf("C07/redef/loopvar-outer", <<Def1("i", I("9")), For3(Def1("i", I("0")), CmpE("<", Var("i"), I("1")), Inc("i"), <<>>)>>),
   CaseOf("C07/redef/rangevar-outer", <<Def1("i", I("9")), RangeS("i", "", StrL("a"), <<>>)>>),
   CaseOf("C07/redef/range-same-names", <<RangeS("i", "i", StrL("a"), <<>>)>>),
   CaseOf("C07/redef/param-global", <<Def1("a", I("1")), Func("f", <<Param("a", "int")>>, <<>>, <<Print1(Var("a"))>>)>>),
   CaseOf("C07/redef/param-later-global", <<Func("f", <<Param("a", "int")>>, <<>>, <<Print1(Var("a"))>>), Def1("a", I("1")), ExprS(CallE("f", <<Var("a")>>))>>),
   CaseOf("C07/redef/param-twice", <<Func("f", <<Param("a", "int"), Param("a", "int")>>, <<>>, <<Print1(Var("a"))>>)>>),
   CaseOf("C07/redef/param-twice-types", <<Func("f", <<Param("a", "int"), Param("b", "string"), Param("a", "string")>>, <<>>, <<Print1(Var("b"))>>)>>),
   CaseOf("C07/redef/local-param", <<Func("f", <<Param("a", "int")>>, <<>>, <<Def1("a", I("2"))>>)>>),
   CaseOf("C07/redef/local-global-in-func", <<Def1("a", I("1")), Func("f", <<>>, <<>>, <<Def1("a", I("2"))>>)>>),
   CaseOf("C07/redef/local-like-later-global", <<Func("f", <<>>, <<>>, <<Def1("a", I("2")), Print1(Var("a"))>>), Def1("a", I("1")), ExprS(CallE("f", <<>>)), Print1(Var("a"))>>),
   CaseOf("C07/redef/func-twice", <<Func("f", <<>>, <<>>, <<Print1(I("1"))>>), Func("f", <<>>, <<>>, <<Print1(I("2"))>>)>>),
   CaseOf("C07/redef/func-twice-sig", <<Func("f", <<>>, <<>>, <<Print1(I("1"))>>), Func("f", <<Param("a", "int")>>, <<"int">>, <<RetS(<<Var("a")>>)>>)>>),
   CaseOf("C07/redef/multi-none-new", <<Def(<<"a", "b">>, <<I("1"), I("2")>>), Def(<<"a", "b">>, <<I("3"), I("4")>>)>>),
   CaseOf("C07/redef/multi-one-new", <<Def(<<"a", "b">>, <<I("1"), I("2")>>), Def(<<"a", "c">>, <<I("3"), I("4")>>), PrintS(<<Var("a"), Var("c")>>)>>),
   CaseOf("C07/redef/var-multi-one-old", <<Def1("a", I("1")), VarDef(<<"a", "b">>, "int", <<>>)>>),
   \* inside a function a short definition with at least one new name declares all its names there: a global of the same name is untouched
   CaseOf("C07/redef/multi-shadows-global", <<Def1("count", I("1")), Func("f", <<>>, <<>>, <<Def(<<"count", "extra">>, <<I("40"), I("2")>>), Print1(Bin("+", Var("count"), Var("extra")))>>), ExprS(CallE("f", <<>>)), Print1(Var("count"))>>),
   CaseOf("C07/redef/multi-shadows-global-call", <<Def1("count", I("1")), Func("pair", <<>>, <<"int", "int">>, <<RetS(<<I("8"), I("9")>>)>>),
                                                   Func("f", <<>>, <<>>, <<Def(<<"count", "step">>, <<CallE("pair", <<>>)>>), Asg1("count", Bin("+", Var("count"), Var("step"))), Print1(Var("count"))>>),
                                                   ExprS(CallE("f", <<>>)), Print1(Var("count")), ExprS(CallE("f", <<>>)), Print1(Var("count"))>>),
   CaseOf("C07/redef/multi-shadows-global-type", <<Def1("a", I("1")), Func("f", <<>>, <<>>, <<Def(<<"a", "b">>, <<StrL("s"), I("2")>>), PrintS(<<Var("a"), Var("b")>>)>>), ExprS(CallE("f", <<>>)), Print1(Var("a"))>>),
   CaseOf("C07/redef/multi-shadows-global-in-block", <<Def1("a", I("1")), Func("f", <<>>, <<>>, <<If1(BoolL(TRUE), <<Def(<<"a", "b">>, <<I("5"), I("2")>>), PrintS(<<Var("a"), Var("b")>>)>>), Print1(Var("a"))>>), ExprS(CallE("f", <<>>)), Print1(Var("a"))>>),
   CaseOf("C07/redef/multi-assigns-global-at-top", <<Def1("a", I("1")), Def(<<"a", "b">>, <<I("5"), I("2")>>), PrintS(<<Var("a"), Var("b")>>)>>),
   CaseOf("C07/redef/multi-assigns-param", <<Func("f", <<Param("s", "string")>>, <<"string">>, <<Def(<<"s", "c">>, <<Bin("+", Var("s"), StrL("!")), I("1")>>), RetS(<<Bin("+", Var("s"), Itoa(Var("c")))>>)>>), Print1(CallE("f", <<StrL("x")>>))>>),
   CaseOf("C07/redef/multi-outer-name-in-block", <<Def1("a", I("1")), If1(BoolL(TRUE), <<Def(<<"a", "b">>, <<I("5"), I("2")>>), PrintS(<<Var("a"), Var("b")>>)>>), Print1(Var("a"))>>),
   CaseOf("C07/redef/multi-loopvar-in-body", <<For3(Def1("i", I("0")), CmpE("<", Var("i"), I("2")), Inc("i"), <<Def(<<"i", "j">>, <<Bin("+", Var("i"), I("1")), I("2")>>), PrintS(<<Var("i"), Var("j")>>)>>)>>),
   CaseOf("C07/caller-locals", <<Func("callee", <<>>, <<>>, <<Print1(Var("loc"))>>), Func("caller", <<>>, <<>>, <<Def1("loc", I("1")), ExprS(CallE("callee", <<>>))>>), ExprS(CallE("caller", <<>>))>>),
   CaseOf("C07/caller-params", <<Func("callee", <<>>, <<>>, <<Print1(Var("p"))>>), Func("caller", <<Param("p", "int")>>, <<>>, <<ExprS(CallE("callee", <<>>))>>), ExprS(CallE("caller", <<I("1")>>))>>),
   CaseOf("C07/missing-return/none", <<Func("f", <<>>, <<"int">>, <<Print1(I("1"))>>)>>),
   CaseOf("C07/missing-return/empty", <<Func("f", <<>>, <<"int">>, <<>>)>>),
   CaseOf("C07/missing-return/only-in-if", <<Func("f", <<>>, <<"int">>, <<If1(BoolL(TRUE), <<RetS(<<I("1")>>)>>)>>)>>),
   CaseOf("C07/missing-return/then-stmt", <<Func("f", <<>>, <<"int">>, <<RetS(<<I("1")>>), Print1(I("2"))>>)>>),
   CaseOf("C07/missing-return/ok", <<Func("f", <<>>, <<"int">>, <<If1(BoolL(TRUE), <<RetS(<<I("1")>>)>>), RetS(<<I("2")>>)>>), Print1(CallE("f", <<>>))>>),
   CaseOf("C07/assign-undefined", <<Asg1("a", I("1"))>>), CaseOf("C07/incdec-undefined", <<Inc("a")>>), CaseOf("C07/compound-undefined", <<Compound("a", "+", I("1"))>>),
   CaseOf("C07/setidx-undefined", <<SetIdx("a", I("0"), I("1"))>>), CaseOf("C07/copy-undefined", <<Def1("s", SliceLit("int", <<>>)), Def1("n", CopyE("a", Var("s")))>>),
   CaseOf("C07/assign-blocklocal-after", <<If1(BoolL(TRUE), <<Def1("a", I("1"))>>), Asg1("a", I("2"))>>)}

\* every loop shape (with and without a definition in its header) x form of a definition in its body x what the enclosing block does with that
\* name afterwards x where the loop stands: a body's names end with the body, whatever the header looks like
LoopShapes == {"for3def", "for3asg", "for3noinit", "for3nopost", "forcond", "forinf", "range"}
LoopOf(shape, body) ==
  CASE shape = "for3def" -> <<For3(Def1("k", I("0")), CmpE("<", Var("k"), I("2")), Inc("k"), body)>>
    [] shape = "for3asg" -> <<For3(Asg1("xi", I("0")), CmpE("<", Var("xi"), I("2")), Inc("xi"), body)>>
    [] shape = "for3noinit" -> <<Asg1("xi", I("0")), For3(NoneN, CmpE("<", Var("xi"), I("2")), Inc("xi"), body)>>
    [] shape = "for3nopost" -> <<For3(Asg1("xi", I("0")), CmpE("<", Var("xi"), I("2")), NoneN, body \o <<Inc("xi")>>)>>
    [] shape = "forcond" -> <<Asg1("xi", I("0")), ForCond(CmpE("<", Var("xi"), I("2")), body \o <<Inc("xi")>>)>>
    [] shape = "forinf" -> <<ForInf(body \o <<BreakS>>)>>
    [] shape = "range" -> <<RangeS("ri", "rv", Var("si"), body)>>
Afters == {"none", "use", "assign", "redef", "again", "useinlater"}
AfterOf(a, shape, F, G) ==
  CASE a = "none" -> <<>> [] a = "use" -> <<UseV>> [] a = "assign" -> <<Asg1("v", I("5"))>> [] a = "redef" -> <<DefVF(G), UseV>>
    [] a = "again" -> LoopOf(shape, <<DefVF(G), UseV>>) [] a = "useinlater" -> LoopOf(shape, <<UseV>>)
Places == {"top", "func", "if", "loop"}
PlaceOf(pl, ss) ==
  CASE pl = "top" -> ss [] pl = "func" -> <<Func("ctxf", <<>>, <<>>, ss), ExprS(CallE("ctxf", <<>>))>> [] pl = "if" -> <<If1(Var("xb"), ss)>>
    [] pl = "loop" -> <<For3(Def1("o", I("0")), CmpE("<", Var("o"), I("1")), Inc("o"), ss)>>
LoopScope == {CaseOf("C07/loopscope/" \o sh \o "/" \o F \o "-" \o G \o "/" \o a \o "/" \o pl,
                     <<Func("two", <<>>, <<"int", "int">>, <<RetS(<<I("1"), I("2")>>)>>), Func("one", <<>>, <<"int">>, <<RetS(<<I("1")>>)>>),
                       Def1("xb", BoolL(TRUE)), Def1("xi", I("0")), Def1("si", SliceLit("int", <<I("4"), I("5")>>))>>
                     \o PlaceOf(pl, LoopOf(sh, <<DefVF(F), UseV>>) \o AfterOf(a, sh, F, G)) \o <<Print1(StrL("end"))>>)
              : sh \in LoopShapes, F \in Forms, G \in {"short", "callmulti"}, a \in Afters, pl \in Places}

\* what is checked where a function body ENDS, in every spelling of the text (round 15: a blank or comment line in front of the closing brace switched the checks off)
EndKinds == {"empty", "empty-two", "none", "only-in-if", "then-stmt", "two-for-one", "none-for-one", "string-for-int", "ok", "ok-void", "value-in-void"}
EndBody(kd) ==
  CASE kd = "none" -> <<Func("f", <<>>, <<"int">>, <<Print1(I("1"))>>)>>
    [] kd = "empty" -> <<Func("f", <<>>, <<"int">>, <<>>)>>               \* round 16: an empty body took a fast path that skipped the end-of-body checks
    [] kd = "empty-two" -> <<Func("f", <<Param("a", "int")>>, <<"int", "string">>, <<>>)>>
    [] kd = "only-in-if" -> <<Func("f", <<>>, <<"int">>, <<If1(BoolL(TRUE), <<RetS(<<I("1")>>)>>)>>)>>
    [] kd = "then-stmt" -> <<Func("f", <<>>, <<"int">>, <<RetS(<<I("1")>>), Print1(I("2"))>>)>>
    [] kd = "two-for-one" -> <<Func("f", <<>>, <<"int">>, <<Print1(I("1")), RetS(<<I("1"), I("2")>>)>>)>>
    [] kd = "none-for-one" -> <<Func("f", <<>>, <<"int">>, <<Print1(I("1")), RetS(<<>>)>>)>>
    [] kd = "string-for-int" -> <<Func("f", <<>>, <<"int">>, <<Print1(I("1")), RetS(<<StrL("s")>>)>>)>>
    [] kd = "ok" -> <<Func("f", <<>>, <<"int">>, <<If1(BoolL(TRUE), <<RetS(<<I("1")>>)>>), RetS(<<I("2")>>)>>), Print1(CallE("f", <<>>))>>
    [] kd = "ok-void" -> <<Func("f", <<>>, <<>>, <<Print1(I("1"))>>), ExprS(CallE("f", <<>>))>>
    [] kd = "value-in-void" -> <<Func("f", <<>>, <<>>, <<Print1(I("1")), RetS(<<I("1")>>)>>)>>
EndCases == {[id |-> "C07/endbody/" \o kd \o "/" \o pl \o "/" \o sp, prog |-> ProgOf(IF pl = "first" THEN EndBody(kd) \o <<Print1(StrL("end"))>> ELSE <<Def1("g0", I("0")), Func("other", <<>>, <<>>, <<Print1(StrL("o"))>>)>> \o EndBody(kd)), spell |-> sp]
             : kd \in EndKinds, pl \in {"first", "last"}, sp \in {"plain", "airy", "brackets", "lean"}}
All == EndCases \cup LoopScope \cup VarPairs \cup FuncPairs \cup PlaceCases \cup Redef \cup Redef2
ASSUME ndJsonSerialize("fam.ndjson", SetToSeq(All))
=============================================================================
