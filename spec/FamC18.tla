------------------------------- MODULE FamC18 -------------------------------
(* Direction-A family for C18: command calls with argument lists over 10 classes of strings (literal, held in a  *)
(* variable, computed), pipelines of 1..3 commands, exit statuses, as a statement or captured, at top level and   *)
(* inside a function.  The callee is the probe the harness installs: it logs its argv and standard input, prints  *)
(* "<name>[a1]...[an]" and its input, and exits with the status named by a first argument "x<digits>".  TshDyn's  *)
(* ApplyAppCall states the expectation (argv exact, pipe order, capture exact).                                   *)
EXTENDS TshAst
CONSTANT Tier
Quick == Tier = "quick"
Classes == <<"plain", "two words", "-x", "", "*", "a;b", "$x", "q\"q", "b\\s", "l1\nl2", "~", "a  b", " lead", "k=v", "(p)", "a|b", "a&b", "'s'", "#h", "x7">>
CName == <<"plain", "blank", "dash", "empty", "star", "semi", "dollar", "dquote", "bslash", "newline", "tilde", "blank2", "lead", "assign", "paren", "pipe", "amp", "squote", "hash", "x7">>
NCl == IF Quick THEN 12 ELSE Len(Classes)
Lit(i) == StrL(Classes[i])
\* argument forms: literal, variable holding the literal, computed by concatenation
\*                 result of a user function, the same in parentheses, a slice element
ArgE(i, form) == CASE form = "lit" -> Lit(i) [] form = "var" -> Var("v" \o ToString(i)) [] form = "cat" -> Bin("+", Lit(i), StrL(""))
                   [] form = "call" -> CallE("give", <<Lit(i)>>) [] form = "grp" -> Grp(CallE("give", <<Var("v" \o ToString(i))>>))
                   [] form = "elem" -> IndexE(Var("sl"), NatLit(1))
PreOf(i) == <<Def1("v" \o ToString(i), Lit(i)),           \* only the variable the case uses
              Func("give", <<Param("p", "string")>>, <<"string">>, <<RetS(<<Var("p")>>)>>), Def1("sl", SliceLit("string", <<StrL("zero"), Lit(i)>>))>>
Dump(stmts, ctx) == IF ctx = "top" THEN stmts ELSE <<Func("run", <<>>, <<>>, stmts), ExprS(CallE("run", <<>>))>>
\* the working directory holds two files so that an unquoted glob character would show
World == [fs |-> <<[path |-> "afile", content |-> "x\n"], [path |-> "bfile", content |-> "y\n"]>>, stdin |-> <<>>]
MkP(id, ctx, pre, ss) == [id |-> id, prog |-> [body |-> pre \o Dump(ss, ctx), world |-> World], check |-> <<"alog">>]
Mk(id, ctx, ss) == MkP(id, ctx, <<>>, ss)
Forms == {"lit", "var", "cat", "call", "grp", "elem"}
\* one argument of every class and form, as a statement and captured
One == {MkP("C18/one/" \o CName[i] \o "/" \o f \o "/" \o u \o "/" \o ctx, ctx, PreOf(i),
           IF u = "stmt" THEN <<ExprS(App(<<Stage("pa", <<ArgE(i, f)>>)>>)), Print1(StrL("after"))>>
           ELSE <<Def(<<"o", "e", "c">>, <<App(<<Stage("pa", <<ArgE(i, f)>>)>>)>>), PrintS(<<StrL("["), Var("o"), StrL("]"), Var("e"), Var("c")>>)>>)
        : i \in 1..NCl, f \in Forms, u \in {"stmt", "cap"}, ctx \in {"top", "func"}}
\* two arguments: every ordered pair of classes (literal form), plain companions in every position of 3..5 arguments
Two == {Mk("C18/two/" \o CName[i] \o "-" \o CName[j], "top", <<ExprS(App(<<Stage("pa", <<Lit(i), Lit(j)>>)>>)), Print1(StrL("end"))>>) : i \in 1..NCl, j \in 1..NCl}
Many == {MkP("C18/many/" \o ToString(n) \o "/" \o ToString(k) \o "/" \o CName[i] \o "/" \o f, "top", PreOf(i),
            <<ExprS(App(<<Stage("pa", [m \in 1..n |-> IF m = k THEN ArgE(i, f) ELSE StrL("p" \o ToString(m))])>>)), Print1(StrL("end"))>>)
         : n \in 3..5, k \in 1..5, i \in 1..NCl, f \in {"lit", "var", "call"}}
ManyLegal == {c \in Many : TRUE}
\* pipelines of length 1..3, statement and captured, with every exit status of the last (and of an earlier) stage
Codes == <<"x0", "x1", "x7", "x255", "x256", "x42">>
Pipes == {Mk("C18/pipe/" \o ToString(n) \o "/" \o u \o "/" \o Codes[ci] \o "/" \o ctx \o "/" \o w, ctx,
             LET chain == [m \in 1..n |-> Stage("p" \o ToString(m), IF m = n /\ w = "last" THEN <<StrL(Codes[ci]), StrL("arg " \o ToString(m))>>
                                                                      ELSE IF m = 1 /\ w = "first" THEN <<StrL(Codes[ci])>> ELSE <<StrL("a" \o ToString(m)), StrL("b c")>>)]
             IN IF u = "stmt" THEN <<ExprS(App(chain)), Print1(StrL("after"))>>
                ELSE <<Def(<<"o", "e", "c">>, <<App(chain)>>), PrintS(<<StrL("["), Var("o"), StrL("]"), Var("e"), Var("c")>>),
                       VarDef(<<"o2", "e2">>, "string", <<>>), VarDef(<<"c2">>, "int", <<>>), Asg(<<"o2", "e2", "c2">>, <<App(chain)>>), PrintS(<<Var("o2"), Var("c2")>>)>>)
          : n \in 1..3, u \in {"stmt", "cap"}, ci \in 1..Len(Codes), ctx \in {"top", "func"}, w \in {"last", "first"}}
\* sequences: captured then statement, statement then captured, computed arguments (itoa, concatenation of variables), zero arguments
Seqs ==
  {Mk("C18/seq/cap-stmt", "top", <<Def(<<"o", "e", "c">>, <<App(<<Stage("pa", <<StrL("x3"), StrL("one")>>)>>)>>), ExprS(App(<<Stage("pb", <<Var("o"), Itoa(Var("c"))>>)>>)), PrintS(<<Var("c")>>)>>),
   Mk("C18/seq/stmt-cap", "func", <<ExprS(App(<<Stage("pa", <<StrL("first")>>)>>)), Def(<<"o", "e", "c">>, <<App(<<Stage("pb", <<StrL("x9")>>)>>)>>), PrintS(<<Var("o"), Var("c")>>)>>),
   Mk("C18/seq/noargs", "top", <<ExprS(App(<<Stage("pa", <<>>)>>)), ExprS(App(<<Stage("pa", <<>>), Stage("pb", <<>>), Stage("pc", <<>>)>>)), Def(<<"o", "e", "c">>, <<App(<<Stage("pa", <<>>)>>)>>), PrintS(<<Var("o"), Var("c")>>)>>),
   Mk("C18/seq/computed", "top", <<Def1("n", NatLit(41)), Def1("s", StrL("two words")), ExprS(App(<<Stage("pa", <<Itoa(Bin("+", Var("n"), NatLit(1))), Bin("+", Var("s"), StrL("!")), Bin("+", StrL("pre-"), Itoa(Var("n")))>>)>>))>>),
   Mk("C18/seq/callargs-pipe-stmt", "top", <<Func("give", <<Param("p", "string")>>, <<"string">>, <<RetS(<<Bin("+", StrL("g "), Var("p"))>>)>>), Def1("v", StrL("x y")),
        ExprS(App(<<Stage("pa", <<StrL("k"), CallE("give", <<Var("v")>>)>>), Stage("pb", <<CallE("give", <<StrL("2")>>), StrL("z")>>), Stage("pc", <<Grp(CallE("give", <<StrL("3")>>))>>)>>)), Print1(StrL("end"))>>),
   MkP("C18/seq/callargs-pipe-cap", "func", <<Func("give", <<Param("p", "string")>>, <<"string">>, <<RetS(<<Bin("+", StrL("g "), Var("p"))>>)>>)>>,
        <<Def(<<"o", "e", "c">>, <<App(<<Stage("pa", <<CallE("give", <<StrL("1")>>)>>), Stage("pb", <<StrL("x5"), CallE("give", <<StrL("2")>>)>>)>>)>>), PrintS(<<Var("o"), Var("c")>>)>>),
   Mk("C18/seq/loop", "top", <<For3(Def1("i", NatLit(0)), CmpE("<", Var("i"), NatLit(3)), Inc("i"), <<Def(<<"o", "e", "c">>, <<App(<<Stage("pa", <<Bin("+", StrL("x"), Itoa(Var("i")))>>)>>)>>), PrintS(<<Var("o"), Var("c")>>)>>)>>),
   Mk("C18/seq/capture-multiline", "top", <<Def(<<"o", "e", "c">>, <<App(<<Stage("pa", <<StrL("l1")>>), Stage("pb", <<StrL("l2")>>)>>)>>), PrintS(<<StrL("["), Var("o"), StrL("]"), LenE(Var("o"))>>)>>),
   Mk("C18/seq/cond-on-code", "func", <<Def(<<"o", "e", "c">>, <<App(<<Stage("pa", <<StrL("x2")>>)>>)>>), IfElse(CmpE("==", Var("c"), NatLit(2)), <<Print1(StrL("two"))>>, <<PrintS(<<StrL("other"), Var("c")>>)>>)>>)}
\* run-time histories: every sequence of three command calls out of five kinds (captured / statement, succeeding / failing, a captured pipe whose first stage fails);
\* what a call leaves behind (status registers, temporaries) must not reach the next one
HKinds == <<"capok", "capfail", "stmtok", "stmtfail", "pipecap">>
HCall(k, i) == LET sfx == ToString(i) IN
  CASE k = "capok"    -> <<Asg(<<"o", "e", "c">>, <<App(<<Stage("pa", <<StrL("ok" \o sfx)>>)>>)>>), PrintS(<<StrL("["), Var("o"), StrL("]"), Var("c")>>)>>
    [] k = "capfail"  -> <<Asg(<<"o", "e", "c">>, <<App(<<Stage("pa", <<StrL("x3"), StrL("bad" \o sfx)>>)>>)>>), PrintS(<<StrL("["), Var("o"), StrL("]"), Var("c")>>)>>
    [] k = "stmtok"   -> <<ExprS(App(<<Stage("pb", <<StrL("s" \o sfx)>>)>>)), PrintS(<<StrL("after"), Var("c")>>)>>
    [] k = "stmtfail" -> <<ExprS(App(<<Stage("pb", <<StrL("x1"), StrL("s" \o sfx)>>)>>)), PrintS(<<StrL("after"), Var("c")>>)>>
    [] k = "pipecap"  -> <<Asg(<<"o", "e", "c">>, <<App(<<Stage("pa", <<StrL("x5"), StrL("first")>>), Stage("pc", <<StrL("last" \o sfx)>>)>>)>>), PrintS(<<StrL("["), Var("o"), StrL("]"), Var("c")>>)>>
HPre == <<VarDef(<<"o", "e">>, "string", <<>>), VarDef(<<"c">>, "int", <<>>)>>
Hist3 == {Mk("C18/hist/" \o HKinds[a] \o "-" \o HKinds[b] \o "-" \o HKinds[d] \o "/" \o ctx, ctx, HPre \o HCall(HKinds[a], 1) \o HCall(HKinds[b], 2) \o HCall(HKinds[d], 3) \o <<Print1(StrL("end"))>>)
          : a \in 1..5, b \in 1..5, d \in 1..5, ctx \in (IF Quick THEN {"func"} ELSE {"top", "func"})}
\* ONE call site executed again and again with a different exit status each time (round 10: a status register written only on failure and never reset):
\* every sequence of four statuses out of {0, 3} x the site in a loop / in a function called four times x captured by := / by = / as the last stage of a pipe
RECURSIVE BSeqs(_)
BSeqs(n) == IF n = 0 THEN {<<>>} ELSE {<<x>> \o q : x \in {0, 3}, q \in BSeqs(n - 1)}
RECURSIVE BName(_)
BName(q) == IF q = <<>> THEN "" ELSE ToString(q[1]) \o BName(Tail(q))
SiteCall(form, codeE) ==
  LET arg == Bin("+", StrL("x"), Itoa(codeE)) IN
  CASE form = "define" -> <<Def(<<"o", "e", "c">>, <<App(<<Stage("pa", <<arg, StrL("v")>>)>>)>>), PrintS(<<StrL("["), Var("o"), StrL("]"), Var("c")>>)>>
    [] form = "assign" -> <<Asg(<<"go", "ge", "gc">>, <<App(<<Stage("pa", <<arg>>)>>)>>), PrintS(<<StrL("["), Var("go"), StrL("]"), Var("gc")>>)>>
    [] form = "pipe"   -> <<Def(<<"o", "e", "c">>, <<App(<<Stage("pb", <<StrL("first")>>), Stage("pa", <<arg>>)>>)>>), PrintS(<<StrL("["), Var("o"), StrL("]"), Var("c")>>)>>
    [] form = "cond"   -> <<Def(<<"o", "e", "c">>, <<App(<<Stage("pa", <<arg>>)>>)>>), IfElse(CmpE("==", Var("c"), NatLit(0)), <<Print1(StrL("ok"))>>, <<PrintS(<<StrL("failed"), Var("c")>>)>>)>>
SitePre(q) == <<Def1("codes", SliceLit("int", [i \in 1..Len(q) |-> NatLit(q[i])])), VarDef(<<"go", "ge">>, "string", <<>>), VarDef(<<"gc">>, "int", <<>>)>>
SiteProg(q, form, where) ==
  IF where = "loop" THEN SitePre(q) \o <<For3(Def1("i", NatLit(0)), CmpE("<", Var("i"), NatLit(Len(q))), Inc("i"), SiteCall(form, IndexE(Var("codes"), Var("i"))))>>
  ELSE SitePre(q) \o <<Func("try", <<Param("code", "int")>>, <<>>, SiteCall(form, Var("code")))>> \o [i \in 1..Len(q) |-> ExprS(CallE("try", <<NatLit(q[i])>>))]
SiteHist == {Mk("C18/site/" \o form \o "/" \o where \o "/" \o BName(q), "top", SiteProg(q, form, where) \o <<Print1(StrL("end"))>>)
             : q \in BSeqs(4), form \in {"define", "assign", "pipe", "cond"}, where \in {"loop", "func"}}
\* the program named by a STRING LITERAL holding a path (README: @`helper\dir.bat`("/b")): interpreted and raw spelling, a blank in a directory name,
\* as a statement, captured, as a stage of a pipe, at top level and in a function
LitStage(n, raw, as) == [name |-> n, lit |-> TRUE, raw |-> raw, args |-> as]
LitNames == <<"tools/pa", "./pb", "my tools/pc", "a/b/c/pa">>
LitCases == {Mk("C18/litname/" \o ToString(i) \o "/" \o u \o "/" \o ctx \o (IF raw THEN "/raw" ELSE ""), ctx,
                IF u = "stmt" THEN <<ExprS(App(<<LitStage(LitNames[i], raw, <<StrL("one"), StrL("two words")>>)>>)), Print1(StrL("after"))>>
                ELSE IF u = "cap" THEN <<Def(<<"o", "e", "c">>, <<App(<<LitStage(LitNames[i], raw, <<StrL("x4"), StrL("v")>>)>>)>>), PrintS(<<StrL("["), Var("o"), StrL("]"), Var("c")>>)>>
                ELSE <<Def(<<"o", "e", "c">>, <<App(<<Stage("pa", <<StrL("first")>>), LitStage(LitNames[i], raw, <<StrL("mid")>>), Stage("pc", <<StrL("last")>>)>>)>>), PrintS(<<StrL("["), Var("o"), StrL("]"), Var("c")>>)>>)
             : i \in 1..Len(LitNames), u \in {"stmt", "cap", "pipe"}, ctx \in {"top", "func"}, raw \in BOOLEAN}
\* the blank identifier among the three targets of a capture, once and several times (round 12: "a name may not be defined twice" forgot that `_` may)
BlankForms == <<<<"_", "_", "c">>, <<"o", "_", "_">>, <<"o", "_", "c">>, <<"_", "e", "c">>, <<"_", "_", "_">>>>
BlankCases == {Mk("C18/blank/" \o ToString(i) \o "/" \o df \o "/" \o ctx, ctx,
                  LET call == App(<<Stage("pa", <<StrL("x6"), StrL("two words")>>)>>)
                      t == BlankForms[i]
                      shown == [j \in 1..3 |-> IF t[j] = "_" THEN StrL("-") ELSE Var(t[j])]
                  IN <<IF df = "short" THEN Def(t, <<call>>) ELSE VarDef(t, "", <<call>>)>> \o <<PrintS(<<StrL("[")>> \o shown \o <<StrL("]")>>)>>)
               : i \in 1..4, df \in {"short", "var"}, ctx \in {"top", "func"}}
              \cup {Mk("C18/blank/pipe/" \o ctx, ctx, <<Def(<<"_", "_", "code">>, <<App(<<Stage("pa", <<StrL("a")>>), Stage("pb", <<StrL("x9")>>)>>)>>), PrintS(<<Var("code")>>)>>) : ctx \in {"top", "func"}}
ASSUME ndJsonSerialize("fam.ndjson", SetToSeq(One \cup Two \cup {c \in Many : TRUE} \cup Pipes \cup Seqs \cup Hist3 \cup SiteHist \cup LitCases \cup BlankCases))
=============================================================================
