"""C19 - The tsh command writes exactly the library's output, or nothing."""
import os

from vlib import Infra, read_ndjson, write_ndjson

RULE = ("direction A: TLC enumerates spec/FamC19.tla: every order of the option pairs for 6 target lists (single, both orders, a target twice, three targets) in short and long "
        "spelling x output directory {empty, holding older longer outputs}; 5 input names (several dots, no extension, a blank, sub-directories) x 5 program kinds (accepted; lexical, "
        "syntax, type, conversion error) x 3 target lists; 25 ill-formed or unusable option lists (missing/unknown/dangling options, unknown targets, missing input, input is a "
        "directory, missing output directory). The real tsh binary runs once per case; spec/Cli.tla decides well-formedness from argv and validates exit status, the output "
        "directory delta against the library's bytes (fresh call on a copy), and that the input is unchanged. Distinct = distinct invocation.")
ASSUME = ["the library result used as the standard is computed by the harness process on a copy of the input", "file identity is compared by SHA-256 digest"]


def run(ctx):
    fam = ctx.tlc_family("FamC19", constants={"Tier": '"%s"' % ctx.tier}, timeout=3000)
    ctx.exhaustive["FamC19"] = True
    wd = ctx.sub("cli")
    p0, p1 = os.path.join(wd, "c0.ndjson"), os.path.join(wd, "cases.ndjson")
    write_ndjson(p0, fam)
    ctx.run_vh("cli", p0, p1, os.path.join(wd, "scr"), ctx.tsh, timeout=7200)
    ran = read_ndjson(p1)
    verd, _ = ctx.tlc("Cli", workdir=ctx.sub("tlc-cli"), files=[(p1, "cases.ndjson")], timeout=3000)
    by = {v["id"]: v for v in verd}
    for c in ran:
        v = by.get(c["id"])
        if v is None:
            raise Infra("no verdict for " + c["id"])
        ctx.evaluations += 1
        ctx.traces_validated += 1
        ctx.distinct.add(c["id"])
        if len(ctx.samples) < 5 and ctx.evaluations % 211 == 1:
            ctx.samples.append({"argv": c["argv"], "input": c["input"], "kind": c["kind"], "expect": v["expect"], "exit": c["exit"], "after": c["after"]})
        if not v["ok"]:
            s = "tsh %s (input %s, program kind %s, output dir %s): the specification expects %s; exit %s, before %s, after %s, library %s, input unchanged %s" % (
                " ".join(c["argv"]), c["input"], c["kind"], c["outState"], v["expect"], c["exit"], c["before"], c["after"], c["lib"], c["inputSame"])
            ctx.report_failure(c["id"], {"property": "C19", "case": c["id"], "why": s, "argv": c["argv"], "observed": {k: c[k] for k in ("exit", "before", "after", "lib", "name", "inputSame")},
                                         "reproduce": "run tsh with argv ($IN = an input file of the given kind, $OUT = an output directory in the given state)"}, s)
    return ctx.finish(rule=RULE, assumptions=ASSUME)
