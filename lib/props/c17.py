"""C17 - write, read and exists behave as a line store over the file system."""
import corpus
import progflow

RULE = ("direction A: TLC enumerates spec/FamC17.tla: all histories of one and two operations (three over a reduced alphabet) from write / append (flag literal, "
        "variable, comparison, parameter; true and false) / read / exists over 4 paths (plain, second file, a path with a blank, a path in a sub-directory) and 3 "
        "(thorough 6) contents, at top level and inside a function, plus loop / variable-path / computed-path / read-back shapes. Every read and exists result is printed; "
        "stdout, status, stderr and the final directory contents are validated against TshDyn's fs. TLC checks WriteLocal (a write changes exactly one path) and "
        "LineStore on every transition/state. Direction B: seeded random histories of 6-14 statements (harness/genworld.go) over 8 paths (literal, variable, computed), contents from variables, concatenation, itoa and earlier reads, run-time flags, loops, branches, functions called twice, input(). Distinct = distinct source text with a defined meaning.")
ASSUME = ["spec/TshDyn.tla WriteFile/ApplyRead/ApplyExists state the line-store semantics", "only /bin/bash 5.2 and a POSIX file system are observed"]


def run(ctx):
    fam = ctx.tlc_family("FamC17", constants={"Tier": '"%s"' % ctx.tier}, timeout=3000)
    ctx.exhaustive["FamC17"] = True
    failures = progflow.judge(ctx, fam, "fam")
    # exists / read next to a later operand that changes the file (spec/FamC04.tla WorldOrder): the answer is the one at the point of evaluation
    order = [c for c in ctx.tlc_family("FamC04", constants={"Tier": '"quick"'}) if "/world/" in c["id"] or "write/args" in c["id"]]
    failures += progflow.judge(ctx, order, "order")
    failures += corpus.judge(ctx, "C17")
    # direction B: random histories (harness/genworld.go): writes/appends with run-time flags and paths, guarded reads, exists, input(), in loops, branches and functions
    gen = progflow.generate(ctx, "files", 120 if ctx.tier == "quick" else 3000)
    failures += progflow.judge(ctx, gen, "gen")
    # beyond the small scope: sizes that cross the one-digit / two-digit boundary of names, counters and indices (spec/FamScale.tla)
    failures += progflow.judge(ctx, progflow.scale_cases(ctx, "C17"), "scale")
    # every ordered pair of feature snippets x every composition mode (spec/FamPairs.tla): the pairs whose highest property is this one
    failures += progflow.judge(ctx, progflow.pair_cases(ctx, "C17"), "pairs")
    progflow.report(ctx, failures)
    return ctx.finish(rule=RULE, assumptions=ASSUME)
