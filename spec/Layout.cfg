SPECIFICATION Spec
CONSTANT TrackPieces = TRUE
INVARIANTS Verdict Accounted Positions
CHECK_DEADLOCK TRUE
