------------------------------- MODULE FamC14 -------------------------------
(* Direction-A family for C14: all histories of up to N calls over a catalog of programs x 2 targets x how the call   *)
(* is made (same transpiler object, new object, new process) - and, in thorough, from a relocated copy of the tree.    *)
EXTENDS TshAst
CONSTANT Tier
Quick == Tier = "quick"
\* see harness/purity.go for the source trees: shA..shBad are main files in ONE directory sharing lib.tsh -> util.tsh (globals, top-level code) by path,
\* mut1/mut2 are one and the same path whose imported file is rewritten (two versions) before the call,
\* copies/copies2 import two different paths with identical bytes (directly / behind two other imports); impcalls/diamondcalls/twicecalls: one caller
\* with several callees known to two import parsers (import-time calls in two files, a file reached along two paths, one file under two aliases)
Progs == <<"plain", "dirA", "dirB", "stdmany", "shA", "shB", "shC", "shD", "shBad", "shBadFn", "mut1", "mut2", "strdefA", "strdefB", "strdefC", "nlA", "nlB", "silent0", "silent1", "silent3">>
Core == {"plain", "dirA", "dirB", "stdmany"}
Targets == <<"bash", "batch">>
Modes == IF Quick THEN <<"same", "newobj", "newproc">> ELSE <<"same", "newobj", "newproc", "relocated", "relocatedproc">>
Op == [prog : {Progs[i] : i \in 1..Len(Progs)}, target : {"bash", "batch"}, mode : {Modes[i] : i \in 1..Len(Modes)}]
OpName(o) == o.prog \o "." \o o.target \o "." \o o.mode
\* copied modules: single calls in every mode, pairs among themselves; single calls from a relocated byte-identical copy of the tree
\* (same process / fresh process) are part of every tier, for every program
CopyProgs == {"copies", "copies2", "impcalls", "diamondcalls", "twicecalls"}
OpC == [prog : CopyProgs, target : {"bash", "batch"}, mode : {Modes[i] : i \in 1..Len(Modes)}]
RelocOp == [prog : {Progs[i] : i \in 1..Len(Progs)} \cup CopyProgs, target : {"bash", "batch"}, mode : {"relocated", "relocatedproc"}]
H1 == {<<a>> : a \in Op \cup OpC \cup RelocOp}
H2 == {<<a, b>> : a \in Op, b \in Op} \cup {<<a, b>> : a \in OpC, b \in OpC \cup RelocOp}
\* length 3: the first two calls in the same process on different programs, then any third call
Op3 == IF Quick THEN {o \in Op : o.prog \in Core \/ o.target = "bash"} ELSE Op
H3 == {<<a, b, c>> : a \in {o \in Op3 : o.mode = "same"}, b \in {o \in Op3 : o.mode \in {"same", "newobj"}}, c \in {o \in Op3 : o.mode = "same" /\ (Quick \/ o.prog \in Core \/ o.target = "bash")}}
\* long histories in one process: the first program again after N other, distinct programs (gen1 ... genN are written by the harness)
LongN == IF Quick THEN {20, 300} ELSE {20, 100, 255, 256, 257, 300, 600}
LongHist == {[id |-> "C14/long/" \o first \o "." \o tg \o "." \o md \o "/" \o ToString(n),
              ops |-> <<[prog |-> first, target |-> tg, mode |-> "same"]>> \o [i \in 1..n |-> [prog |-> "gen" \o ToString(i), target |-> (IF i % 2 = 0 THEN "bash" ELSE "batch"), mode |-> md]]
                      \o <<[prog |-> first, target |-> tg, mode |-> md], [prog |-> "gen1", target |-> "batch", mode |-> md], [prog |-> "gen" \o ToString(n), target |-> (IF n % 2 = 0 THEN "bash" ELSE "batch"), mode |-> md]>>]
             : first \in {"plain", "stdmany", "shA"}, tg \in {"bash", "batch"}, md \in {"same", "newobj"}, n \in LongN}
Name(h) == JoinS([i \in 1..Len(h) |-> OpName(h[i])], "-")
Hist == {[id |-> "C14/h/" \o Name(h), ops |-> h] : h \in H1 \cup H2 \cup H3}
ASSUME ndJsonSerialize("fam.ndjson", SetToSeq(Hist \cup LongHist))
=============================================================================
