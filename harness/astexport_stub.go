//go:build !astexport

package main

// The exporter of the real parser's syntax tree (astexport.go) reads the tree through the parser package's getters. It is the only part of the
// harness that depends on more than the entry points (Tokenize, Transpile, the Converter interface): when a change to the repository alters those
// getters, the harness is built without it and the programs taken from the repository's own tests are left out of the run (lib/corpus.py).
func init() {
	commands["repotests"] = func(args []string) { fatal("repotests is not available in this build") }
	commands["astexport"] = func(args []string) { fatal("astexport is not available in this build (the parser's tree API differs from what harness/astexport.go expects)") }
}
