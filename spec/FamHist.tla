------------------------------ MODULE FamHist -------------------------------
(* Direction-A family of RUN-TIME HISTORIES: the same few constructs executed again and again along different dynamic paths.   *)
(* The other families execute each construct once or twice; what an emitted script keeps at run time (first-iteration flags,     *)
(* result registers, temporaries, mangled locals, slice storage) can go wrong only on a later visit - the third call of a          *)
(* function after earlier calls took other branches, a loop entered again after it was left by break, the fourth iteration.       *)
(*   hist/calls/<kind>/<args>   one function of five kinds (branches with block-local definitions; a loop whose exit depends on   *)
(*                              the argument; a local slice grown by the argument; two results; a nested helper call) called      *)
(*                              with EVERY sequence of three / four arguments out of {0, 1, 2}; results and a global tally        *)
(*                              printed after every call                                                                            *)
(*   hist/loops/<form>/<jump>/<pattern>   an inner loop of three forms run four times by an outer loop; on each run it is left     *)
(*                              by break / skips by continue at the iteration the pattern names (or not at all) - every pattern   *)
(*                              over {none, 0, 1, 2}^3 plus a fixed fourth run                                                     *)
(*   hist/iter/<form>           loops of six iterations whose body takes a different branch on every iteration modulo three        *)
EXTENDS TshAst
CONSTANT Tier
Quick == Tier = "quick"
N(i) == NatLit(i)
V(n) == Var(n)
S(s) == StrL(s)
P(es) == PrintS(es)

\* ---- calls -------------------------------------------------------------------------------------------------------------------
Callee(kind) ==
  CASE kind = "branch" ->
         <<Func("f", <<Param("n", "int")>>, <<"int">>,
                <<Compound("tally", "+", N(1)),
                  If(<<Branch(CmpE("==", V("n"), N(0)), <<Def1("a", Bin("+", V("tally"), N(10))), RetS(<<V("a")>>)>>),
                       Branch(CmpE("==", V("n"), N(1)), <<Def1("b", Bin("*", V("tally"), N(100))), Def1("a", Bin("+", V("b"), N(1))), RetS(<<V("a")>>)>>)>>,
                     <<Def1("c", S("two")), RetS(<<Bin("+", LenE(V("c")), V("tally"))>>)>>),
                  RetS(<<N(0)>>)>>)>>
    [] kind = "loop" ->
         <<Func("f", <<Param("n", "int")>>, <<"int">>,
                <<Def1("acc", N(0)), For3(Def1("i", N(0)), CmpE("<", V("i"), N(3)), Inc("i"), <<If1(CmpE("==", V("i"), V("n")), <<BreakS>>), Compound("acc", "+", Bin("+", V("i"), N(1)))>>),
                  Def1("w", N(0)), ForCond(CmpE("<", V("w"), V("n")), <<Inc("w"), Compound("tally", "+", N(1))>>), RetS(<<Bin("+", Bin("*", V("acc"), N(10)), V("w"))>>)>>)>>
    [] kind = "slice" ->
         <<Func("f", <<Param("n", "int")>>, <<"int">>,
                <<Def1("loc", SliceLit("int", <<N(7)>>)), SetIdx("loc", V("n"), Bin("+", V("n"), N(20))), SetIdx("keep", LenE(V("keep")), LenE(V("loc"))), Compound("tally", "+", IndexE(V("loc"), V("n"))),
                  RetS(<<Bin("+", LenE(V("loc")), Bin("*", LenE(V("keep")), N(10)))>>)>>)>>
    [] kind = "multi" ->
         <<Func("g", <<Param("n", "int")>>, <<"int", "string">>, <<IfElse(CmpE("==", V("n"), N(1)), <<RetS(<<N(11), S("one")>>)>>, <<>>), RetS(<<Bin("*", V("n"), N(2)), Bin("+", S("n"), Itoa(V("n")))>>)>>),
           Func("f", <<Param("n", "int")>>, <<"int">>, <<Def(<<"x", "y">>, <<CallE("g", <<V("n")>>)>>), Compound("tally", "+", LenE(V("y"))), RetS(<<Bin("+", V("x"), LenE(V("y")))>>)>>)>>
    [] kind = "nested" ->
         <<Func("h", <<Param("n", "int")>>, <<"int">>, <<If1(CmpE(">", V("n"), N(0)), <<Def1("t", Bin("*", V("n"), N(3))), RetS(<<V("t")>>)>>), RetS(<<N(5)>>)>>),
           Func("f", <<Param("n", "int")>>, <<"int">>, <<Def1("t", Bin("+", CallE("h", <<V("n")>>), CallE("h", <<Bin("-", V("n"), N(1))>>))), Compound("tally", "+", V("t")), RetS(<<Bin("+", V("t"), CallE("h", <<N(0)>>))>>)>>)>>
    [] kind = "nestret" ->        \* nested loops left by a return from the INNER loop (n = 0: at once, n = 1: in the second round of the outer loop, n = 2: never)
         <<Func("f", <<Param("n", "int")>>, <<"int">>,
                <<Compound("tally", "+", N(1)),
                  For3(Def1("r", N(0)), CmpE("<", V("r"), N(3)), Inc("r"), <<For3(Def1("c", N(0)), CmpE("<", V("c"), N(2)), Inc("c"), <<If1(CmpE("==", Bin("+", Bin("*", V("r"), N(2)), V("c")), Bin("*", V("n"), N(3))), <<RetS(<<Bin("+", Bin("*", V("r"), N(10)), V("c"))>>)>>)>>)>>),
                  RetS(<<IntL("-1")>>)>>)>>
    [] kind = "nestretp" ->       \* the same with condition and increment of the outer loop made visible (evaluation order, C04)
         <<Func("next", <<Param("i", "int")>>, <<"int">>, <<P(<<S("inc"), V("i")>>), RetS(<<Bin("+", V("i"), N(1))>>)>>),
           Func("below", <<Param("i", "int"), Param("m", "int")>>, <<"bool">>, <<P(<<S("cond"), V("i")>>), RetS(<<CmpE("<", V("i"), V("m"))>>)>>),
           Func("f", <<Param("n", "int")>>, <<"int">>,
                <<Compound("tally", "+", N(1)),
                  For3(Def1("r", N(0)), CallE("below", <<V("r"), N(3)>>), Asg1("r", CallE("next", <<V("r")>>)), <<For3(Def1("c", N(0)), CmpE("<", V("c"), N(2)), Inc("c"), <<If1(CmpE("==", Bin("+", Bin("*", V("r"), N(2)), V("c")), Bin("*", V("n"), N(3))), <<RetS(<<Bin("+", Bin("*", V("r"), N(10)), V("c"))>>)>>)>>)>>),
                  RetS(<<IntL("-1")>>)>>)>>
Kinds == {"branch", "loop", "slice", "multi", "nested", "nestret", "nestretp"}
RECURSIVE Seqs(_, _)
Seqs(n, A) == IF n = 0 THEN {<<>>} ELSE {<<x>> \o s : x \in A, s \in Seqs(n - 1, A)}
RECURSIVE Digits(_)
Digits(s) == IF s = <<>> THEN "" ELSE ToString(s[1]) \o Digits(Tail(s))
CallProg(kind, args) == <<Def1("tally", N(0)), Def1("keep", SliceLit("int", <<>>))>> \o Callee(kind)
                        \o [i \in 1..Len(args) |-> P(<<S("call"), N(i), CallE("f", <<N(args[i])>>), V("tally")>>)]
                        \o <<P(<<S("sum"), Bin("+", CallE("f", <<N(args[1])>>), CallE("f", <<N(args[Len(args)])>>)), LenE(V("keep"))>>)>>
Calls == {CaseOf("hist/calls/" \o k \o "/" \o Digits(a), CallProg(k, a)) : k \in Kinds, a \in Seqs(3, {0, 1, 2}) \cup (IF Quick THEN {<<0, 1, 0, 1>>, <<2, 2, 0, 2>>, <<1, 0, 0, 1>>} ELSE Seqs(4, {0, 1, 2}))}

\* ---- loops entered again --------------------------------------------------------------------------------------------------------
\* pat[k] = 9 means "no jump on run k"
Pre(nest) == CASE nest = "none" -> <<>>
                [] nest = "cond" -> <<Def1("m", V("j")), ForCond(CmpE(">", V("m"), N(0)), <<Asg1("m", Bin("-", V("m"), N(2)))>>)>>
                [] nest = "inf"  -> <<Def1("m", N(0)), ForInf(<<Inc("m"), If1(CmpE(">", V("m"), V("j")), <<BreakS>>)>>)>>
                [] nest = "for3" -> <<Def1("m", N(0)), For3(Def1("q", N(0)), CmpE("<", V("q"), V("j")), Inc("q"), <<Compound("m", "+", V("q"))>>)>>
InnerN(form, jump, nest) ==
  LET J == IF jump = "break" THEN BreakS ELSE ContinueS
      body == Pre(nest) \o <<If1(CmpE("==", V("j"), IndexE(V("pat"), V("k"))), <<J>>)>> \o (IF nest = "none" THEN <<P(<<S("in"), V("k"), V("j")>>)>> ELSE <<P(<<S("in"), V("k"), V("j"), V("m")>>)>>) IN
  CASE form = "for3"  -> <<For3(Def1("j", N(0)), CmpE("<", V("j"), N(3)), Inc("j"), body)>>
    [] form = "while" -> <<Def1("j", IntL("-1")), ForCond(CmpE("<", V("j"), N(2)), <<Inc("j")>> \o body)>>
    [] form = "range" -> <<RangeS("j", "", SliceLit("int", <<N(5), N(6), N(7)>>), body)>>
Inner(form, jump) == InnerN(form, jump, "none")
LoopProgN(form, jump, nest, pat) == <<Def1("pat", SliceLit("int", [i \in 1..Len(pat) |-> N(pat[i])] \o <<N(1)>>)),
                                      For3(Def1("k", N(0)), CmpE("<", V("k"), N(Len(pat) + 1)), Inc("k"), InnerN(form, jump, nest) \o <<P(<<S("run"), V("k")>>)>>)>>
\* the jump stands BEHIND another loop of the same body (round 10: one field remembered whether "the" open loop has a flag, an inner loop overwrote it)
LoopsNested == {CaseOf("hist/loopsnest/" \o f \o "/" \o j \o "/" \o ne \o "/" \o Digits(p), LoopProgN(f, j, ne, p))
                : f \in {"for3", "while", "range"}, j \in {"break", "continue"}, ne \in {"cond", "inf", "for3"}, p \in Seqs(3, {9, 1}) \cup {<<2, 0, 2>>, <<0, 9, 0>>}}
LoopProg(form, jump, pat) == <<Def1("pat", SliceLit("int", [i \in 1..Len(pat) |-> N(pat[i])] \o <<N(1)>>)),
                               For3(Def1("k", N(0)), CmpE("<", V("k"), N(Len(pat) + 1)), Inc("k"), Inner(form, jump) \o <<P(<<S("run"), V("k")>>)>>)>>
Loops == {CaseOf("hist/loops/" \o f \o "/" \o j \o "/" \o Digits(p), LoopProg(f, j, p)) : f \in {"for3", "while", "range"}, j \in {"break", "continue"}, p \in Seqs(3, {9, 0, 1, 2})}
\* the same inside a function that is called twice
LoopsFn == {CaseOf("hist/loopsfn/" \o f \o "/" \o j \o "/" \o Digits(p),
                   <<Def1("pat", SliceLit("int", [i \in 1..Len(p) |-> N(p[i])] \o <<N(1)>>)),
                     Func("run", <<Param("k", "int")>>, <<>>, Inner(f, j) \o <<P(<<S("run"), V("k")>>)>>)>>
                   \o [i \in 1..4 |-> ExprS(CallE("run", <<N(i - 1)>>))])
            : f \in {"for3", "while", "range"}, j \in {"break", "continue"}, p \in (IF Quick THEN {<<9, 0, 9>>, <<1, 9, 1>>, <<0, 0, 2>>, <<2, 9, 0>>} ELSE Seqs(3, {9, 0, 1, 2}))}

\* ---- many iterations ------------------------------------------------------------------------------------------------------------
IterBody == <<Switch(Bin("%", V("i"), N(3)), <<CaseB(N(0), <<Compound("s", "+", S("a"))>>), CaseB(N(1), <<Def1("loc", Bin("*", V("i"), V("i"))), Compound("acc", "+", V("loc"))>>)>>, <<SetIdx("xs", LenE(V("xs")), V("i"))>>, TRUE),
              P(<<V("i"), V("s"), V("acc"), LenE(V("xs"))>>)>>
IterProg(form) == <<Def(<<"s", "acc">>, <<S(""), N(0)>>), Def1("xs", SliceLit("int", <<>>))>> \o
                  (CASE form = "for3" -> <<For3(Def1("i", N(0)), CmpE("<", V("i"), N(6)), Inc("i"), IterBody)>>
                     [] form = "while" -> <<Def1("i", IntL("-1")), ForCond(CmpE("<", V("i"), N(5)), <<Inc("i")>> \o IterBody)>>
                     [] form = "forever" -> <<Def1("i", IntL("-1")), ForInf(<<Inc("i"), If1(CmpE(">", V("i"), N(5)), <<BreakS>>)>> \o IterBody)>>
                     [] form = "range" -> <<RangeS("i", "", SliceLit("string", <<S("p"), S("q"), S("r"), S("s"), S("t"), S("u")>>), IterBody)>>)
Iters == {CaseOf("hist/iter/" \o f, IterProg(f)) : f \in {"for3", "while", "forever", "range"}}
ASSUME ndJsonSerialize("fam.ndjson", SetToSeq(Calls \cup Loops \cup LoopsFn \cup LoopsNested \cup Iters))
=============================================================================
