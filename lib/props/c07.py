"""C07 - Names resolve lexically; out-of-scope or misplaced constructs are rejected."""
import staticflow

RULE = ("direction A: TLC enumerates spec/FamC07.tla: every ordered pair (definition site, use site) of a variable over 18 definition and 22 use sites "
        "of one skeleton program (top level before/after, if/else-if/else bodies and conditions, nested block, loop header/condition/post/body, range "
        "variables/operand/body, sibling switch cases and case expression, parameter, function body, block in a function, return value, call argument), "
        "both orders at the same site, 7 x 9 sites for function definitions and calls (incl. self-call and call from an earlier function), every placement "
        "of break/continue/return/func in 23 contexts, 36 redefinition / duplicate-name / missing-return / caller-local variants. The verdict of the real "
        "transpiler for both targets is validated by TLC against spec/TshStatic.tla. Distinct = distinct source text with a specified verdict.")
ASSUME = ["spec/TshStatic.tla: a block is checked in a copy of the context and its definitions are discarded at its end; a function body sees the globals defined before it",
          "a bare `return` is unspecified and not compared"]


def run(ctx):
    fam = ctx.tlc_family("FamC07", constants={"Tier": '"%s"' % ctx.tier})
    ctx.exhaustive["FamC07"] = True
    failures = staticflow.judge(ctx, fam, "fam")
    staticflow.report(ctx, failures)
    return ctx.finish(rule=RULE, assumptions=ASSUME)
