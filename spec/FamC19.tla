------------------------------- MODULE FamC19 -------------------------------
(* Direction-A family for C19: every order of the option pairs for several target multisets and both spellings of the   *)
(* switches, ill-formed option lists, input names, program kinds (accepted; lexical, syntax, type, conversion error),   *)
(* and output directories that are empty or hold older (longer) outputs.                                                *)
EXTENDS TshAst
CONSTANT Tier
Quick == Tier = "quick"
RECURSIVE Perms(_)
Perms(S) == IF S = {} THEN {<<>>} ELSE UNION {{<<x>> \o p : p \in Perms(S \ {x})} : x \in S}
\* an option list is a sequence of pairs; identical pairs are made distinguishable by an index while permuting
RECURSIVE Flat(_)
Flat(ps) == IF ps = <<>> THEN <<>> ELSE <<ps[1][1], ps[1][2]>> \o Flat(Tail(ps))
TargetLists == <<<<"bash">>, <<"batch">>, <<"bash", "batch">>, <<"batch", "bash">>, <<"bash", "bash">>, <<"batch", "batch", "bash">>>>
PairsFor(tl, long) == {<<IF long THEN "--in" ELSE "-i", "$IN", 0>>, <<IF long THEN "--out" ELSE "-o", "$OUT", 0>>}
                      \cup {<<IF long /\ i = 1 THEN "--type" ELSE "-t", tl[i], i>> : i \in 1..Len(tl)}
Orders(tl, long) == {Flat(p) : p \in Perms(PairsFor(tl, long))}
Names == <<"p.tsh", "a.b.tsh", "noext", "my prog.tsh", "sub/dir/q.tsh">>
Kinds == <<"ok", "lex", "syntax", "type", "conv">>
Mk(id, argv, name, kind, outState, inKind, outKind) == [id |-> id, argv |-> argv, input |-> name, kind |-> kind, outState |-> outState, inKind |-> inKind, outKind |-> outKind, pathForm |-> "abs", outName |-> "out"]
ArgName(a) == JoinS(a, " ")
OrderCases == UNION {{Mk("C19/order/" \o ArgName(a) \o "/" \o st, a, "p.tsh", "ok", st, "file", "dir") : a \in Orders(TargetLists[i], long)}
                     : i \in 1..Len(TargetLists), long \in {TRUE, FALSE}, st \in {"empty", "older"}}
NameCases == {Mk("C19/name/" \o Names[n] \o "/" \o Kinds[k] \o "/" \o st \o "/" \o ToString(i), Flat(<<<<"-i", "$IN">>, <<"-o", "$OUT">>>>) \o Flat([j \in 1..Len(TargetLists[i]) |-> <<"-t", TargetLists[i][j]>>]),
                 Names[n], Kinds[k], st, "file", "dir")
              : n \in 1..Len(Names), k \in 1..Len(Kinds), st \in {"empty", "older"}, i \in {1, 3, 4}}
\* the output name is the input's base name without its LAST extension, whatever characters the name ends in
MoreNames == <<"tests.tsh", "dash.tsh", "x.tsh.tsh", "build.sh.tsh", "run.bat.tsh", "t.tsh", "s.tsh", "h.tsh", "hhh.tsh", "a..tsh", "bat.tsh", "ss.h.tsh", "UP.TSH", "prog.txt", "tsh.tsh", ".hidden.tsh",
               "find_windows.tsh", "x.sh", "x.bat", "deep/er/tests.tsh", "with space/hosts.tsh">>
MoreNameCases == {Mk("C19/name2/" \o MoreNames[n] \o "/" \o ToString(i), Flat(<<<<"-i", "$IN">>, <<"-o", "$OUT">>>>) \o Flat([j \in 1..Len(TargetLists[i]) |-> <<"-t", TargetLists[i][j]>>]),
                     MoreNames[n], "ok", "empty", "file", "dir") : n \in 1..Len(MoreNames), i \in {3, 4}}
Bad == <<<<>>, <<"-i", "$IN">>, <<"-i", "$IN", "-o", "$OUT">>, <<"-o", "$OUT", "-t", "bash">>, <<"-i", "$IN", "-t", "bash">>, <<"-i", "$IN", "-o", "$OUT", "-t", "fish">>,
          <<"-i", "$IN", "-o", "$OUT", "-t", "bash", "-t", "fish">>, <<"-i", "$IN", "-o", "$OUT", "-t", "bash", "-x", "y">>, <<"-x", "y", "-i", "$IN", "-o", "$OUT", "-t", "bash">>,
          <<"-i", "$IN", "-o", "$OUT", "-t", "bash", "-t">>, <<"-i", "$IN", "-o", "$OUT", "-t">>, <<"-i", "$IN", "-o", "$OUT", "-t", "bash", "extra">>, <<"-i">>, <<"-t", "bash">>,
          <<"-i", "$MISSING", "-o", "$OUT", "-t", "bash">>, <<"-i", "$INDIR", "-o", "$OUT", "-t", "bash">>, <<"-i", "$IN", "-o", "$NOOUT", "-t", "bash">>, <<"-i", "$IN", "-o", "$OUTFILE", "-t", "bash">>,
          <<"-i", "$MISSING", "-i", "$IN", "-o", "$OUT", "-t", "bash">>, <<"-i", "$IN", "-i", "$IN", "-o", "$OUT", "-o", "$OUT", "-t", "batch">>, <<"--in", "$IN", "--out", "$OUT", "--type", "bash", "--type", "batch">>,
          <<"-I", "$IN", "-o", "$OUT", "-t", "bash">>, <<"-i", "$IN", "-o", "$OUT", "-t", "Bash">>, <<"-i", "$IN", "-o", "$OUT", "-t", "">>, <<"-i", "$IN", "-o", "$OUT", "-t", "bash", "-t", "bash", "-t", "bash">>>>
\* programs with imports (a local file with globals and import-time code + std; an imported file with a type error) for every target list, in two option orders
RECURSIVE Rev(_)
Rev(q) == IF q = <<>> THEN <<>> ELSE Rev(Tail(q)) \o <<q[1]>>
ImpCases == {Mk("C19/imp/" \o kd \o "/" \o nm \o "/" \o st \o "/" \o ToString(i) \o (IF fwd THEN "" ELSE "r"),
                Flat(LET ps == <<<<"-i", "$IN">>, <<"-o", "$OUT">>>> \o [j \in 1..Len(TargetLists[i]) |-> <<"-t", TargetLists[i][j]>>] IN IF fwd THEN ps ELSE Rev(ps)), nm, kd, st, "file", "dir")
             : kd \in {"okimp", "impbad"}, nm \in {"p.tsh", "sub/dir/q.tsh"}, st \in {"empty", "older"}, i \in 1..Len(TargetLists), fwd \in BOOLEAN}
\* programs with nothing to execute (only uncalled functions, only comments, only an unused import, no bytes at all, blank lines)
QuietCases == {Mk("C19/quiet/" \o kd \o "/" \o st \o "/" \o ToString(i), Flat(<<<<"-i", "$IN">>, <<"-o", "$OUT">>>> \o [j \in 1..Len(TargetLists[i]) |-> <<"-t", TargetLists[i][j]>>]), "p.tsh", kd, st, "file", "dir")
               : kd \in {"funcsonly", "comment", "importonly", "empty", "blank"}, st \in {"empty", "older"}, i \in 1..Len(TargetLists)}
\* the way the two paths are written (round 13: environment): relative, with ./ and a trailing separator, through .., from inside the input's directory;
\* output directories whose names hold a blank, an extension of the outputs, several dots
PathForms == {"rel", "dot", "trail", "up", "cwdin"}
OutNames == {"my out", "out.sh", "o.u.t", "p"}
PathCases == {[Mk("C19/path/" \o pf \o "/" \o nm \o "/" \o kd \o "/" \o st \o "/" \o ToString(i), Flat(<<<<"-i", "$IN">>, <<"-o", "$OUT">>>> \o [j \in 1..Len(TargetLists[i]) |-> <<"-t", TargetLists[i][j]>>]), nm, kd, st, "file", "dir")
                EXCEPT !.pathForm = pf] : pf \in PathForms, nm \in {"p.tsh", "sub/dir/q.tsh", "my prog.tsh"}, kd \in {"ok", "type", "okimp"}, st \in {"empty", "older"}, i \in {1, 3}}
OutNameCases == {[Mk("C19/outname/" \o on \o "/" \o pf \o "/" \o kd \o "/" \o st, <<"-i", "$IN", "-o", "$OUT", "-t", "bash", "-t", "batch">>, "p.tsh", kd, st, "file", "dir")
                   EXCEPT !.pathForm = pf, !.outName = on] : on \in OutNames, pf \in {"abs", "rel", "dot"}, kd \in {"ok", "type"}, st \in {"empty", "older"}}
BadCases == {Mk("C19/bad/" \o ToString(i) \o "/" \o st, Bad[i], "p.tsh", "ok", st, "file", "dir") : i \in 1..Len(Bad), st \in {"empty", "older"}}
ASSUME ndJsonSerialize("fam.ndjson", SetToSeq(OrderCases \cup NameCases \cup MoreNameCases \cup BadCases \cup ImpCases \cup QuietCases \cup PathCases \cup OutNameCases))
=============================================================================
