----------------------------- MODULE EmitAllocInd -----------------------------
(* The label counters of spec/EmitAllocBatch.tla with labels as numbers, for an UNBOUNDED argument: TLC explores every skeleton of  *)
(* up to 8-10 events; Apalache (apalache-mc, typed TLA+) shows here that IndInv is an inductive invariant - it holds initially      *)
(* (--init=Init --length=0), is preserved by every step from ANY state that satisfies it (--init=IndInit --length=1), and implies   *)
(* Fresh (no label is defined twice) - so label freshness holds for programs of ANY length (any number of loops and ifs, one after  *)
(* the other or nested up to MaxDepth).  The interleaving of loops and ifs is abstracted away (ForEnd / IfEnd are enabled whenever   *)
(* their own stack is non-empty), which only adds behaviours.  Functions are left out: their labels carry the function's name,      *)
(* which the parser keeps unique.  lib/allocflow.py runs the three checks as part of C16 and records the outcome in the evidence;   *)
(* replacing the end-label numbering by the nesting depth (the original tree's defect F07) makes the inductive step fail.            *)
EXTENDS Integers, Sequences, FiniteSets, Apalache
CONSTANT
  \* @type: Int;
  MaxDepth
VARIABLES
  \* @type: Int;
  forCounter,
  \* @type: Int;
  ifCounter,
  \* @type: Seq(Int);
  fors,
  \* @type: Seq(Int);
  endLabels,
  \* @type: Seq(Int);
  ifs,
  \* @type: Set(Int);
  defF,
  \* @type: Set(Int);
  defE,
  \* @type: Set(Int);
  defI,
  \* @type: Bool;
  bad

CInit == MaxDepth = 3
Init == forCounter = 0 /\ ifCounter = 0 /\ fors = <<>> /\ endLabels = <<>> /\ ifs = <<>> /\ defF = {} /\ defE = {} /\ defI = {} /\ bad = FALSE

ForStart == /\ Len(fors) < MaxDepth
            /\ forCounter' = forCounter + 1
            /\ fors' = Append(fors, forCounter)
            /\ endLabels' = Append(endLabels, forCounter' - 1)
            /\ bad' = (bad \/ forCounter \in defF)
            /\ defF' = defF \union {forCounter}
            /\ UNCHANGED <<ifCounter, ifs, defE, defI>>
ForEnd == /\ Len(fors) > 0
          /\ bad' = (bad \/ endLabels[Len(endLabels)] \in defE)
          /\ defE' = defE \union {endLabels[Len(endLabels)]}
          /\ endLabels' = SubSeq(endLabels, 1, Len(endLabels) - 1)
          /\ fors' = SubSeq(fors, 1, Len(fors) - 1)
          /\ UNCHANGED <<forCounter, ifCounter, ifs, defF, defI>>
IfStart == /\ Len(ifs) < MaxDepth
           /\ ifCounter' = ifCounter + 1
           /\ ifs' = Append(ifs, ifCounter)
           /\ UNCHANGED <<forCounter, fors, endLabels, defF, defE, defI, bad>>
IfEnd == /\ Len(ifs) > 0
         /\ bad' = (bad \/ ifs[Len(ifs)] \in defI)
         /\ defI' = defI \union {ifs[Len(ifs)]}
         /\ ifs' = SubSeq(ifs, 1, Len(ifs) - 1)
         /\ UNCHANGED <<forCounter, ifCounter, fors, endLabels, defF, defE>>
Next == ForStart \/ ForEnd \/ IfStart \/ IfEnd

IndInv ==
  /\ forCounter >= 0 /\ ifCounter >= 0 /\ ~bad
  /\ Len(fors) <= MaxDepth /\ Len(ifs) <= MaxDepth /\ Len(endLabels) = Len(fors)
  /\ \A i \in DOMAIN fors : endLabels[i] = fors[i]
  /\ \A n \in defF : n >= 0 /\ n < forCounter
  /\ \A n \in defE : n >= 0 /\ n < forCounter
  /\ \A n \in defI : n >= 0 /\ n < ifCounter
  /\ \A i \in DOMAIN fors : fors[i] >= 0 /\ fors[i] < forCounter /\ fors[i] \in defF /\ fors[i] \notin defE
  /\ \A i \in DOMAIN ifs : ifs[i] >= 0 /\ ifs[i] < ifCounter /\ ifs[i] \notin defI
  /\ \A i \in DOMAIN fors : \A j \in DOMAIN fors : i < j => fors[i] < fors[j]
  /\ \A i \in DOMAIN ifs : \A j \in DOMAIN ifs : i < j => ifs[i] < ifs[j]
IndInit ==
  /\ forCounter = Gen(1) /\ ifCounter = Gen(1)
  /\ fors = Gen(3) /\ endLabels = Gen(3) /\ ifs = Gen(3)
  /\ defF = Gen(6) /\ defE = Gen(6) /\ defI = Gen(6) /\ bad = Gen(1)
  /\ IndInv
Fresh == ~bad
=============================================================================
