"""C07 - Names resolve lexically; out-of-scope or misplaced constructs are rejected."""
import progflow
import staticflow
from props import c09

RULE = ("direction A: TLC enumerates spec/FamC07.tla: every ordered pair (definition site, use site) of a variable over 18 definition and 22 use sites "
        "of one skeleton program (top level before/after, if/else-if/else bodies and conditions, nested block, loop header/condition/post/body, range "
        "variables/operand/body, sibling switch cases and case expression, parameter, function body, block in a function, return value, call argument), "
        "both orders at the same site, 7 x 9 sites for function definitions and calls (incl. self-call and call from an earlier function), every placement "
        "of break/continue/return/func in 23 contexts, 36 redefinition / duplicate-name / missing-return / caller-local variants. The verdict of the real "
        "transpiler for both targets is validated by TLC against spec/TshStatic.tla; every accepted program is then run (Bash) and its trace validated against spec/TshDyn.tla. Distinct = distinct source text with a specified verdict.")
ASSUME = ["spec/TshStatic.tla: a block is checked in a copy of the context and its definitions are discarded at its end; a function body sees the globals defined before it",
          "a bare `return` is unspecified and not compared"]


def run(ctx):
    fam = ctx.tlc_family("FamC07", constants={"Tier": '"%s"' % ctx.tier})
    fam += progflow.scale_cases(ctx, "C07")          # scopes nested up to 12 deep, many sibling blocks, many variables and functions
    ctx.exhaustive["FamC07"] = True
    ctx.static_verdicts = {}
    failures = staticflow.judge(ctx, fam, "fam")
    staticflow.report(ctx, failures)
    # the accepted programs are also run: every use site prints, so a name that resolves to the wrong declaration (or a construct that is accepted
    # but emitted as something else) shows in the output prescribed by TshDyn
    acc = [c for c in fam if ctx.static_verdicts.get(c["id"], {}).get("expected") == "A" and not ctx.static_verdicts[c["id"]]["unspec"]]
    res = progflow.validate(ctx, acc, "dyn")
    bad = []
    for cid, (c, v) in res.items():
        ctx.evaluations += 1
        if not c["obs"].get("accepted"):
            continue                      # reported above
        if v["st"].startswith("undef") or v["st"] == "diverge":
            ctx.dropped["dyn-" + v["st"]] = ctx.dropped.get("dyn-" + v["st"], 0) + 1
            continue
        if v["st"].startswith("stuck"):
            raise Exception("TshStatic accepts %s but TshDyn cannot run it: %s" % (cid, v["st"]))
        ctx.traces_validated += 1
        if not v["ok"]:
            bad.append((c, v, progflow.signature(c, v)))
    progflow.report(ctx, bad)
    # the same rules across import boundaries: one broken construct per imported file, unknown aliases, private names (spec/FamC09.tla, linked by TshModules)
    imp = [c for c in ctx.tlc_family("FamC09", constants={"Tier": '"quick"'}, timeout=3000) if "/libneg/" in c["id"] or "/neg/" in c["id"] or "/nameshape/" in c["id"]]
    c09.judge_cases(ctx, imp, "implink")
    return ctx.finish(rule=RULE, assumptions=ASSUME)
