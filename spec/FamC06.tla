------------------------------- MODULE FamC06 -------------------------------
(* Direction-A family for C06: every typed position of the grammar x every offered type (int, bool, string,     *)
(* []int, []bool, []string, no-value, multi-value; several spellings each) x every enclosing context.  Each case *)
(* is a minimal program with exactly one position plugged; the expected verdict is TshStatic!Check, computed by   *)
(* TLC when it validates the recorded outcome (spec/StaticRun.tla).                                               *)
EXTENDS TshAst
CONSTANT Tier
Quick == Tier = "quick"
I(n) == IntL(n)
CaseX(id, body, exp) == [id |-> id, prog |-> ProgOf(body), expect |-> exp]
Prelude ==
  <<Def1("xi", I("1")), Def1("xb", BoolL(TRUE)), Def1("xs", StrL("s")),
    Def1("si", SliceLit("int", <<I("1"), I("2")>>)), Def1("sb", SliceLit("bool", <<BoolL(TRUE)>>)), Def1("ss", SliceLit("string", <<StrL("a")>>)),
    Func("v0", <<>>, <<>>, <<Print1(StrL("v0"))>>),
    Func("m2", <<>>, <<"int", "int">>, <<RetS(<<I("1"), I("2")>>)>>),
    Func("fnI", <<Param("a", "int")>>, <<"int">>, <<RetS(<<Var("a")>>)>>),
    Func("fs", <<Param("a", "string")>>, <<"string">>, <<RetS(<<Var("a")>>)>>),
    Func("f2", <<Param("a", "int"), Param("b", "string")>>, <<"int">>, <<RetS(<<Var("a")>>)>>),
    Func("fsl", <<Param("a", "[]int")>>, <<"[]int">>, <<RetS(<<Var("a")>>)>>)>>

\* offered expressions: <<type name, spelling name, expression>>
OffersAll == {<<"int", "lit", I("5")>>, <<"int", "var", Var("xi")>>, <<"int", "call", CallE("fnI", <<I("1")>>)>>, <<"int", "expr", Bin("+", Var("xi"), I("1"))>>, <<"int", "len", LenE(Var("xs"))>>,
              <<"bool", "lit", BoolL(TRUE)>>, <<"bool", "var", Var("xb")>>, <<"bool", "cmp", CmpE("<", Var("xi"), I("2"))>>, <<"bool", "not", Not(Var("xb"))>>,
              <<"string", "lit", StrL("t")>>, <<"string", "var", Var("xs")>>, <<"string", "itoa", Itoa(Var("xi"))>>, <<"string", "nil", Nil>>, <<"string", "idx", IndexE(Var("xs"), I("0"))>>,
              <<"sliceint", "lit", SliceLit("int", <<I("1")>>)>>, <<"sliceint", "var", Var("si")>>, <<"sliceint", "call", CallE("fsl", <<Var("si")>>)>>,
              <<"slicebool", "var", Var("sb")>>, <<"slicestring", "var", Var("ss")>>, <<"slicestring", "lit", SliceLit("string", <<>>)>>,
              <<"void", "call", CallE("v0", <<>>)>>, <<"multi", "call", CallE("m2", <<>>)>>,
              \* the same behind parentheses: a group has the type (and the value count) of what it holds
              <<"void", "grp", Grp(CallE("v0", <<>>))>>, <<"multi", "grp", Grp(CallE("m2", <<>>))>>, <<"int", "grpcall", Grp(CallE("fnI", <<I("1")>>))>>, <<"string", "grp", Grp(Var("xs"))>>,
              \* a command call delivers three values (stdout, stderr, status), a pipeline likewise
              <<"multi", "app", App(<<Stage("pa", <<StrL("a")>>)>>)>>, <<"multi", "pipe", Grp(App(<<Stage("pa", <<>>), Stage("pb", <<StrL("b")>>)>>))>>}
Offers == IF Quick THEN {o \in OffersAll : o[2] \in {"var", "call", "grp", "app"} /\ ~(o[1] = "int" /\ o[2] = "call") /\ ~(o[1] = "sliceint" /\ o[2] = "call")} \cup {<<"string", "nil", Nil>>}
          ELSE OffersAll

NotT(e) == [k |-> "not", e |-> e, tight |-> TRUE]     \* written directly in front of its operand, also when that is a negation: !!x (F59, round 14)
PosNames == {"not", "notnot", "notnotnot", "notnotCond", "notnotCase", "notGrpNot", "andL", "andR", "orL", "orR", "subL", "subR", "mulL", "mulR", "divL", "divR", "modL", "modR", "addIntL", "addIntR", "addStrL", "addStrR",
             "eqIntL", "eqIntR", "eqStrL", "eqStrR", "eqBoolL", "eqBoolR", "ltL", "ltR", "geL", "geR",
             "ifCond", "elifCond", "forCond", "for3Cond", "caseInt", "caseStr", "caseBool", "caseTagless", "switchTagVsInt",
             "idxSlice", "idxString", "substrLo", "substrHi", "substrOf", "indexOf", "setIdxIndex", "setIdxInt", "setIdxStr", "setIdxBool", "setIdxTarget",
             "elemInt", "elemStr", "elemBool", "argInt", "argStr", "arg2", "argSlice",
             "defInt", "defStr", "defBool", "defSliceInt", "defError", "defShort", "defVarUntyped", "asgInt", "asgStr", "asgBool", "asgSlice",
             "cmpPlusInt", "cmpPlusStr", "cmpMinus", "cmpMul", "len", "itoa", "exists", "read", "input", "writePath", "writeData", "writeAppend", "copySrc", "print", "range",
             "def2", "def3", "asg2", "def2Old", "def2OldL", "def2OldCall", "def2OldCallL", "exprStmt", "groupInt", "nestedArith", "nestedLogic"}
FuncPosNames == {"retTop", "retIf", "retElse", "retFor", "retSwitch", "ret2nd", "retVoid", "retStr", "retInNestedIfFor", "def2Param", "def2ParamL", "def2ParamCall", "def2Local", "def2LocalL", "asgParam", "def2ParamSlice"}

Pos(p, h) ==
  CASE p = "not" -> <<Def1("r", Not(h))>>
    [] p = "notnot" -> <<Def1("r", NotT(NotT(h)))>>
    [] p = "notnotnot" -> <<Def1("r", NotT(NotT(NotT(h))))>>
    [] p = "notnotCond" -> <<If1(NotT(NotT(h)), <<Asg1("xi", I("2"))>>)>>
    [] p = "notnotCase" -> <<Switch(NoneN, <<CaseB(NotT(NotT(h)), <<Asg1("xi", I("2"))>>)>>, <<>>, FALSE)>>
    [] p = "notGrpNot" -> <<Def1("r", Not(Grp(NotT(NotT(h)))))>>
    [] p = "andL" -> <<Def1("r", Lgc("&&", h, Var("xb")))>> [] p = "andR" -> <<Def1("r", Lgc("&&", Var("xb"), h))>>
    [] p = "orL" -> <<Def1("r", Lgc("||", h, Var("xb")))>> [] p = "orR" -> <<Def1("r", Lgc("||", Var("xb"), h))>>
    [] p = "subL" -> <<Def1("r", Bin("-", h, Var("xi")))>> [] p = "subR" -> <<Def1("r", Bin("-", Var("xi"), h))>>
    [] p = "mulL" -> <<Def1("r", Bin("*", h, Var("xi")))>> [] p = "mulR" -> <<Def1("r", Bin("*", Var("xi"), h))>>
    [] p = "divL" -> <<Def1("r", Bin("/", h, Var("xi")))>> [] p = "divR" -> <<Def1("r", Bin("/", Var("xi"), h))>>
    [] p = "modL" -> <<Def1("r", Bin("%", h, Var("xi")))>> [] p = "modR" -> <<Def1("r", Bin("%", Var("xi"), h))>>
    [] p = "addIntL" -> <<Def1("r", Bin("+", h, Var("xi")))>> [] p = "addIntR" -> <<Def1("r", Bin("+", Var("xi"), h))>>
    [] p = "addStrL" -> <<Def1("r", Bin("+", h, Var("xs")))>> [] p = "addStrR" -> <<Def1("r", Bin("+", Var("xs"), h))>>
    [] p = "eqIntL" -> <<Def1("r", CmpE("==", h, Var("xi")))>> [] p = "eqIntR" -> <<Def1("r", CmpE("!=", Var("xi"), h))>>
    [] p = "eqStrL" -> <<Def1("r", CmpE("==", h, Var("xs")))>> [] p = "eqStrR" -> <<Def1("r", CmpE("!=", Var("xs"), h))>>
    [] p = "eqBoolL" -> <<Def1("r", CmpE("==", h, Var("xb")))>> [] p = "eqBoolR" -> <<Def1("r", CmpE("!=", Var("xb"), h))>>
    [] p = "ltL" -> <<Def1("r", CmpE("<", h, Var("xi")))>> [] p = "ltR" -> <<Def1("r", CmpE("<", Var("xi"), h))>>
    [] p = "geL" -> <<Def1("r", CmpE(">=", h, Var("xi")))>> [] p = "geR" -> <<Def1("r", CmpE(">=", Var("xi"), h))>>
    [] p = "ifCond" -> <<If1(h, <<Print1(I("1"))>>)>>
    [] p = "elifCond" -> <<If(<<Branch(Var("xb"), <<Print1(I("1"))>>), Branch(h, <<Print1(I("2"))>>)>>, <<Print1(I("3"))>>)>>
    [] p = "forCond" -> <<ForCond(h, <<BreakS>>)>>
    [] p = "for3Cond" -> <<For3(Def1("k", I("0")), h, Inc("k"), <<BreakS>>)>>
    [] p = "caseInt" -> <<Switch(Var("xi"), <<CaseB(I("1"), <<Print1(I("1"))>>), CaseB(h, <<Print1(I("2"))>>)>>, <<>>, FALSE)>>
    [] p = "caseStr" -> <<Switch(Var("xs"), <<CaseB(h, <<Print1(I("2"))>>)>>, <<Print1(I("3"))>>, TRUE)>>
    [] p = "caseBool" -> <<Switch(Var("xb"), <<CaseB(h, <<Print1(I("2"))>>)>>, <<>>, FALSE)>>
    [] p = "caseTagless" -> <<Switch(NoneN, <<CaseB(h, <<Print1(I("2"))>>)>>, <<>>, FALSE)>>
    [] p = "switchTagVsInt" -> <<Switch(h, <<CaseB(I("1"), <<Print1(I("2"))>>)>>, <<>>, FALSE)>>
    [] p = "idxSlice" -> <<Def1("r", IndexE(Var("si"), h))>>
    [] p = "idxString" -> <<Def1("r", IndexE(Var("xs"), h))>>
    [] p = "substrLo" -> <<Def1("r", Substr(Var("xs"), h, NoneN))>>
    [] p = "substrHi" -> <<Def1("r", Substr(Var("xs"), I("0"), h))>>
    [] p = "substrOf" -> <<Def1("tmp", h), Def1("r", Substr(Var("tmp"), I("0"), I("0")))>>
    [] p = "indexOf" -> <<Def1("tmp", h), Def1("r", IndexE(Var("tmp"), I("0")))>>
    [] p = "setIdxIndex" -> <<SetIdx("si", h, I("1"))>>
    [] p = "setIdxInt" -> <<SetIdx("si", I("0"), h)>>
    [] p = "setIdxStr" -> <<SetIdx("ss", I("0"), h)>>
    [] p = "setIdxBool" -> <<SetIdx("sb", I("0"), h)>>
    [] p = "setIdxTarget" -> <<Def1("tmp", h), SetIdx("tmp", I("0"), I("1"))>>
    [] p = "elemInt" -> <<Def1("r", SliceLit("int", <<I("1"), h>>))>>
    [] p = "elemStr" -> <<Def1("r", SliceLit("string", <<h, StrL("z")>>))>>
    [] p = "elemBool" -> <<Def1("r", SliceLit("bool", <<h>>))>>
    [] p = "argInt" -> <<Def1("r", CallE("fnI", <<h>>))>>
    [] p = "argStr" -> <<Def1("r", CallE("fs", <<h>>))>>
    [] p = "arg2" -> <<Def1("r", CallE("f2", <<I("1"), h>>))>>
    [] p = "argSlice" -> <<Def1("r", CallE("fsl", <<h>>))>>
    [] p = "defInt" -> <<VarDef(<<"n">>, "int", <<h>>)>>
    [] p = "defStr" -> <<VarDef(<<"n">>, "string", <<h>>)>>
    [] p = "defBool" -> <<VarDef(<<"n">>, "bool", <<h>>)>>
    [] p = "defSliceInt" -> <<VarDef(<<"n">>, "[]int", <<h>>)>>
    [] p = "defError" -> <<VarDef(<<"n">>, "error", <<h>>)>>
    [] p = "defShort" -> <<Def1("n", h)>>
    [] p = "defVarUntyped" -> <<VarDef(<<"n">>, "", <<h>>)>>
    [] p = "asgInt" -> <<Asg1("xi", h)>> [] p = "asgStr" -> <<Asg1("xs", h)>> [] p = "asgBool" -> <<Asg1("xb", h)>> [] p = "asgSlice" -> <<Asg1("si", h)>>
    [] p = "cmpPlusInt" -> <<Compound("xi", "+", h)>> [] p = "cmpPlusStr" -> <<Compound("xs", "+", h)>>
    [] p = "cmpMinus" -> <<Compound("xi", "-", h)>> [] p = "cmpMul" -> <<Compound("xi", "*", h)>>
    [] p = "len" -> <<Def1("r", LenE(h))>> [] p = "itoa" -> <<Def1("r", Itoa(h))>> [] p = "exists" -> <<Def1("r", ExistsE(h))>> [] p = "read" -> <<Def1("r", ReadE(h))>>
    [] p = "input" -> <<Def1("r", Input(h))>>
    [] p = "writePath" -> <<WriteS(h, StrL("d"))>> [] p = "writeData" -> <<WriteS(StrL("p.txt"), h)>> [] p = "writeAppend" -> <<WriteA(StrL("p.txt"), StrL("d"), h)>>
    [] p = "copySrc" -> <<Def1("r", CopyE("si", h))>>
    [] p = "print" -> <<PrintS(<<I("1"), h>>)>>
    [] p = "range" -> <<RangeS("k", "", h, <<Print1(Var("k"))>>)>>
    [] p = "def2" -> <<Def(<<"p", "q">>, <<h>>)>>
    \* a short definition that re-uses a name of the same block: the old name keeps its type
    [] p = "def2Old" -> <<Def(<<"q9", "xs">>, <<I("1"), h>>)>>
    [] p = "def2OldL" -> <<Def(<<"xi", "q9">>, <<h, StrL("n")>>)>>
    [] p = "def2OldCall" -> <<Def(<<"q9", "xs">>, <<h>>)>>
    [] p = "def2OldCallL" -> <<Def(<<"xi", "q9">>, <<h>>)>>
    [] p = "def3" -> <<Def(<<"p", "q", "z">>, <<h>>)>>
    [] p = "asg2" -> <<Def1("p", I("0")), Def1("q", I("0")), Asg(<<"p", "q">>, <<h>>)>>
    [] p = "exprStmt" -> <<ExprS(h)>>
    [] p = "groupInt" -> <<Def1("r", Bin("+", Grp(h), Var("xi")))>>
    [] p = "nestedArith" -> <<Def1("r", Bin("+", Var("xi"), Bin("*", Var("xi"), Grp(Bin("-", h, I("1"))))))>>
    [] p = "nestedLogic" -> <<Def1("r", Lgc("||", Var("xb"), Lgc("&&", Var("xb"), Not(Grp(Lgc("||", h, Var("xb")))))))>>
FuncPos(p, h) ==
  CASE p = "retTop" -> <<Func("g", <<>>, <<"int">>, <<RetS(<<h>>)>>)>>
    [] p = "retIf" -> <<Func("g", <<>>, <<"int">>, <<If1(Var("xb"), <<RetS(<<h>>)>>), RetS(<<I("0")>>)>>)>>
    [] p = "retElse" -> <<Func("g", <<>>, <<"int">>, <<IfElse(Var("xb"), <<Print1(I("1"))>>, <<RetS(<<h>>)>>), RetS(<<I("0")>>)>>)>>
    [] p = "retFor" -> <<Func("g", <<>>, <<"int">>, <<For3(Def1("k", I("0")), CmpE("<", Var("k"), I("1")), Inc("k"), <<RetS(<<h>>)>>), RetS(<<I("0")>>)>>)>>
    [] p = "retSwitch" -> <<Func("g", <<>>, <<"int">>, <<Switch(Var("xi"), <<CaseB(I("1"), <<RetS(<<h>>)>>)>>, <<>>, FALSE), RetS(<<I("0")>>)>>)>>
    [] p = "ret2nd" -> <<Func("g", <<>>, <<"int", "string">>, <<RetS(<<I("1"), h>>)>>)>>
    [] p = "retVoid" -> <<Func("g", <<>>, <<>>, <<RetS(<<h>>)>>)>>
    [] p = "retStr" -> <<Func("g", <<>>, <<"string">>, <<RetS(<<h>>)>>)>>
    \* a multi-name short definition at the top of a function body that names a PARAMETER (or a local of the body) again: the old name keeps its type (round 9)
    [] p = "def2Param" -> <<Func("gp", <<Param("ps", "string"), Param("pi", "int")>>, <<>>, <<Def(<<"q9", "ps">>, <<I("1"), h>>), PrintS(<<Var("q9"), Var("ps")>>)>>), Func("g", <<>>, <<>>, <<ExprS(CallE("gp", <<StrL("a"), I("1")>>))>>)>>
    [] p = "def2ParamL" -> <<Func("gp", <<Param("ps", "string"), Param("pi", "int")>>, <<>>, <<Def(<<"pi", "q9">>, <<h, StrL("n")>>), PrintS(<<Var("q9"), Var("pi")>>)>>), Func("g", <<>>, <<>>, <<ExprS(CallE("gp", <<StrL("a"), I("1")>>))>>)>>
    [] p = "def2ParamCall" -> <<Func("gp", <<Param("ps", "string"), Param("pi", "int")>>, <<>>, <<Def(<<"q9", "ps">>, <<h>>), PrintS(<<Var("q9"), Var("ps")>>)>>), Func("g", <<>>, <<>>, <<ExprS(CallE("gp", <<StrL("a"), I("1")>>))>>)>>
    [] p = "def2ParamSlice" -> <<Func("gp", <<Param("pl", "[]string")>>, <<>>, <<Def(<<"q9", "pl">>, <<I("1"), h>>), PrintS(<<Var("q9"), LenE(Var("pl"))>>)>>), Func("g", <<>>, <<>>, <<ExprS(CallE("gp", <<SliceLit("string", <<StrL("a")>>)>>))>>)>>
    [] p = "def2Local" -> <<Func("g", <<>>, <<>>, <<Def1("loc", StrL("s")), Def(<<"q9", "loc">>, <<I("1"), h>>), PrintS(<<Var("q9"), Var("loc")>>)>>)>>
    [] p = "def2LocalL" -> <<Func("g", <<>>, <<>>, <<Def1("loc", I("3")), Def(<<"loc", "q9">>, <<h, StrL("n")>>), PrintS(<<Var("q9"), Var("loc")>>)>>)>>
    [] p = "asgParam" -> <<Func("gp", <<Param("ps", "string"), Param("pi", "int")>>, <<>>, <<Asg(<<"pi", "ps">>, <<I("2"), h>>), PrintS(<<Var("pi"), Var("ps")>>)>>), Func("g", <<>>, <<>>, <<ExprS(CallE("gp", <<StrL("a"), I("1")>>))>>)>>
    [] p = "retInNestedIfFor" -> <<Func("g", <<>>, <<"bool">>, <<For3(Def1("k", I("0")), CmpE("<", Var("k"), I("1")), Inc("k"), <<If1(Var("xb"), <<RetS(<<h>>)>>)>>), RetS(<<BoolL(FALSE)>>)>>)>>

Contexts == IF Quick THEN {"top", "func", "for"} ELSE {"top", "func", "if", "for", "switch"}
Wrap(c, ss) ==
  CASE c = "top" -> ss
    [] c = "func" -> <<Func("ctxf", <<>>, <<>>, ss), ExprS(CallE("ctxf", <<>>))>>
    [] c = "if" -> <<If1(BoolL(TRUE), ss)>>
    [] c = "for" -> <<For3(Def1("ci", I("0")), CmpE("<", Var("ci"), I("1")), Inc("ci"), ss)>>
    [] c = "switch" -> <<Switch(NoneN, <<CaseB(BoolL(TRUE), ss)>>, <<>>, FALSE)>>
PosCases == {CaseOf("C06/pos/" \o p \o "/" \o o[1] \o "." \o o[2] \o "/" \o c, Prelude \o Wrap(c, Pos(p, o[3]))) : p \in PosNames, o \in Offers, c \in Contexts}
RetCases == {CaseOf("C06/ret/" \o p \o "/" \o o[1] \o "." \o o[2], Prelude \o FuncPos(p, o[3]) \o <<ExprS(CallE("g", <<>>))>>) : p \in FuncPosNames, o \in Offers}

\* arity and value-count
ArityCases ==
  {CaseOf("C06/arity/fi0", Prelude \o <<Def1("r", CallE("fnI", <<>>))>>), CaseOf("C06/arity/fi2", Prelude \o <<Def1("r", CallE("fnI", <<I("1"), I("2")>>))>>),
   CaseOf("C06/arity/f21", Prelude \o <<Def1("r", CallE("f2", <<I("1")>>))>>), CaseOf("C06/arity/f23", Prelude \o <<Def1("r", CallE("f2", <<I("1"), StrL("s"), I("3")>>))>>),
   CaseOf("C06/arity/v01", Prelude \o <<ExprS(CallE("v0", <<I("1")>>))>>), CaseOf("C06/arity/ok", Prelude \o <<Def1("r", CallE("f2", <<I("1"), StrL("s")>>)), ExprS(CallE("v0", <<>>))>>),
   \* a function written without parameter brackets has no parameters
   CaseOf("C06/arity/bare0", Prelude \o <<FuncBare("bv", <<>>, <<Print1(I("1"))>>), FuncBare("bi", <<"int">>, <<RetS(<<I("4")>>)>>), ExprS(CallE("bv", <<>>)), Def1("r", CallE("bi", <<>>))>>),
   CaseOf("C06/arity/bare1", Prelude \o <<FuncBare("bv", <<>>, <<Print1(I("1"))>>), ExprS(CallE("bv", <<I("1")>>))>>),
   CaseOf("C06/arity/bare2", Prelude \o <<FuncBare("bi", <<"int">>, <<RetS(<<I("4")>>)>>), Def1("r", CallE("bi", <<StrL("a"), BoolL(TRUE)>>))>>),
   CaseOf("C06/arity/bare1nested", Prelude \o <<FuncBare("bi", <<"int">>, <<RetS(<<I("4")>>)>>), Func("w", <<>>, <<>>, <<For3(Def1("k", I("0")), CmpE("<", Var("k"), I("1")), Inc("k"), <<If1(Var("xb"), <<Print1(CallE("bi", <<Var("k")>>))>>)>>)>>)>>),
   CaseOf("C06/arity/barevoidvalue", Prelude \o <<FuncBare("bv", <<>>, <<Print1(I("1"))>>), Def1("r", CallE("bv", <<>>))>>),
   CaseOf("C06/count/def2of1", Prelude \o <<Def(<<"p", "q">>, <<I("1")>>)>>), CaseOf("C06/count/def1of2", Prelude \o <<Def(<<"p">>, <<I("1"), I("2")>>)>>),
   CaseOf("C06/count/asg2of3", Prelude \o <<Def(<<"p", "q">>, <<I("1"), I("2")>>), Asg(<<"p", "q">>, <<I("1"), I("2"), I("3")>>)>>),
   CaseOf("C06/count/callplusvalue", Prelude \o <<Def(<<"p", "q", "z">>, <<CallE("m2", <<>>), I("3")>>)>>),
   CaseOf("C06/count/ret1of2", Prelude \o <<Func("g", <<>>, <<"int", "int">>, <<RetS(<<I("1")>>)>>)>>), CaseOf("C06/count/ret3of2", Prelude \o <<Func("g", <<>>, <<"int", "int">>, <<RetS(<<I("1"), I("2"), I("3")>>)>>)>>),
   CaseOf("C06/count/retmulti", Prelude \o <<Func("g", <<>>, <<"int", "int">>, <<RetS(<<CallE("m2", <<>>)>>)>>)>>),
   \* a call with several results as the ONLY argument of a builtin that takes several arguments, or exactly one
   CaseX("C06/builtin/write-multi", Prelude \o <<Func("p2", <<>>, <<"string", "string">>, <<RetS(<<StrL("f.txt"), StrL("d")>>)>>), [k |-> "rawline", text |-> "write(p2())"]>>, "reject"),
   CaseX("C06/builtin/write-multi-grp", Prelude \o <<Func("p2", <<>>, <<"string", "string">>, <<RetS(<<StrL("f.txt"), StrL("d")>>)>>), [k |-> "rawline", text |-> "write((p2()))"]>>, "reject"),
   CaseX("C06/builtin/write-app", Prelude \o <<[k |-> "rawline", text |-> "write(@ls(\"-l\"))"]>>, "reject"),
   CaseX("C06/builtin/write-multi-nested", Prelude \o <<Func("p2", <<>>, <<"string", "string">>, <<RetS(<<StrL("f.txt"), StrL("d")>>)>>), Func("w", <<>>, <<>>, <<For3(Def1("k", I("0")), CmpE("<", Var("k"), I("1")), Inc("k"), <<[k |-> "rawline", text |-> "write(p2())"]>>)>>)>>, "reject"),
   CaseX("C06/builtin/copy-multi", Prelude \o <<Func("s2", <<>>, <<"[]int", "[]int">>, <<RetS(<<Var("si"), Var("si")>>)>>), Def1("r", [k |-> "rawtext", text |-> "copy(s2())"])>>, "reject"),
   CaseX("C06/builtin/len-multi", Prelude \o <<Def1("r", [k |-> "rawtext", text |-> "len(m2())"])>>, "reject"),
   CaseX("C06/builtin/itoa-multi", Prelude \o <<Def1("r", [k |-> "rawtext", text |-> "itoa(m2())"])>>, "reject"),
   CaseX("C06/builtin/exists-app", Prelude \o <<Def1("r", [k |-> "rawtext", text |-> "exists(@ls())"])>>, "reject"),
   CaseX("C06/builtin/read-multi", Prelude \o <<Func("p2", <<>>, <<"string", "string">>, <<RetS(<<StrL("f.txt"), StrL("d")>>)>>), Def1("r", [k |-> "rawtext", text |-> "read(p2())"])>>, "reject"),
   CaseX("C06/builtin/input-multi", Prelude \o <<Func("p2", <<>>, <<"string", "string">>, <<RetS(<<StrL("f.txt"), StrL("d")>>)>>), Def1("r", [k |-> "rawtext", text |-> "input(p2())"])>>, "reject"),
   CaseX("C06/builtin/panic-multi", Prelude \o <<Func("p2", <<>>, <<"string", "string">>, <<RetS(<<StrL("f.txt"), StrL("d")>>)>>), [k |-> "rawline", text |-> "panic(p2())"]>>, "reject"),
   CaseX("C06/builtin/len0", Prelude \o <<Def1("r", [k |-> "rawtext", text |-> "len()"])>>, "reject"), CaseX("C06/builtin/len2", Prelude \o <<Def1("r", [k |-> "rawtext", text |-> "len(xs, xs)"])>>, "reject"),
   CaseX("C06/builtin/write1", Prelude \o <<[k |-> "rawline", text |-> "write(xs)"]>>, "reject"), CaseX("C06/builtin/write4", Prelude \o <<[k |-> "rawline", text |-> "write(xs, xs, xb, xb)"]>>, "reject"),
   CaseX("C06/builtin/copy1", Prelude \o <<Def1("r", [k |-> "rawtext", text |-> "copy(si)"])>>, "reject"), CaseX("C06/builtin/copydstexpr", Prelude \o <<Def1("r", [k |-> "rawtext", text |-> "copy([]int{1}, si)"])>>, "reject"),
   CaseX("C06/builtin/copydstscalar", Prelude \o <<Def1("r", CopyE("xi", Var("si")))>>, "reject"), CaseX("C06/builtin/copydststr", Prelude \o <<Def1("r", CopyE("ss", Var("si")))>>, "reject"),
   CaseX("C06/builtin/itoa0", Prelude \o <<Def1("r", [k |-> "rawtext", text |-> "itoa()"])>>, "reject"), CaseX("C06/builtin/input2", Prelude \o <<Def1("r", [k |-> "rawtext", text |-> "input(xs, xs)"])>>, "reject")}
\* lists of values: every form that takes a comma-separated list x length 2..3 x the offered expression in every position
VForms == {"short", "varuntyped", "vartyped", "assign", "return", "printargs", "callargs"}
VNames(n) == [i \in 1..n |-> "w" \o ToString(i)]
VVals(n, k, h) == [i \in 1..n |-> IF i = k THEN h ELSE I(ToString(i))]
VList(f, n, k, h) ==
  CASE f = "short" -> <<Def(VNames(n), VVals(n, k, h))>>
    [] f = "varuntyped" -> <<VarDef(VNames(n), "", VVals(n, k, h))>>
    [] f = "vartyped" -> <<VarDef(VNames(n), "int", VVals(n, k, h))>>
    [] f = "assign" -> <<VarDef(VNames(n), "int", <<>>), Asg(VNames(n), VVals(n, k, h))>>
    [] f = "return" -> <<Func("g", <<>>, [i \in 1..n |-> "int"], <<RetS(VVals(n, k, h))>>)>>
    [] f = "printargs" -> <<PrintS(VVals(n, k, h))>>
    [] f = "callargs" -> <<Func("g", [i \in 1..n |-> Param("a" \o ToString(i), "int")], <<>>, <<Print1(Var("a1"))>>), ExprS(CallE("g", VVals(n, k, h)))>>
VListCases == {CaseOf("C06/vlist/" \o f \o "/" \o ToString(nk[1]) \o "." \o ToString(nk[2]) \o "/" \o o[1] \o "." \o o[2], Prelude \o VList(f, nk[1], nk[2], o[3]))
               : f \in VForms, nk \in {<<2, 1>>, <<2, 2>>, <<3, 1>>, <<3, 2>>, <<3, 3>>}, o \in Offers}
\* the same positions x ALL offers, made observable (the defined value is printed): the accepted ones are RUN and validated against TshDyn by C01/C03,
\* so that every operator and builtin is executed with every kind of operand expression (literal, variable, call, nested expression, len, itoa, nil,
\* subscript, slice literal / variable / call, parenthesised forms)
DefinesR(ss) == \E i \in 1..Len(ss) : ss[i].k = "define" /\ \E j \in 1..Len(ss[i].names) : ss[i].names[j] = "r"
Shown(ss) == IF DefinesR(ss) THEN ss \o <<PrintS(<<StrL("r ="), Var("r")>>)>> ELSE ss
RunCases == {CaseOf("C06/run/" \o p \o "/" \o o[1] \o "." \o o[2] \o "/" \o c, Prelude \o Wrap(c, Shown(Pos(p, o[3]))) \o <<PrintS(<<StrL("end"), Var("xi"), Var("xb"), Var("xs"), LenE(Var("si")), LenE(Var("ss"))>>)>>)
             : p \in PosNames, o \in OffersAll, c \in {"top", "func"}}
\* spellings whose meaning depends on the grammar: a chain of comparisons WITHOUT brackets groups to the left, so `t == 1 < 2` is ((t == 1) < 2) - ill-typed for a
\* bool t - and `1 < 2 == t` is ((1 < 2) == t) - well-typed.  The case carries the text; the program is what Go's grammar makes of it (F58)
SynCase(id, body, src) == [id |-> id, prog |-> ProgOf(body), src |-> src]
SynCases == {
  SynCase("C06/syn/chain-bool-int-lt", <<Def1("t", BoolL(TRUE)), Def1("r", CmpE("<", CmpE("==", Var("t"), I("1")), I("2")))>>, "t := true\nr := t == 1 < 2\n"),
  SynCase("C06/syn/chain-lt-eq-bool", <<Def1("t", BoolL(TRUE)), Def1("r", CmpE("==", CmpE("<", I("1"), I("2")), Var("t"))), Print1(Var("r"))>>, "t := true\nr := 1 < 2 == t\nprint(r)\n"),
  SynCase("C06/syn/chain-eq-eq-int", <<Def1("x", I("1")), Def1("r", CmpE("==", CmpE("==", Var("x"), I("1")), BoolL(TRUE))), Print1(Var("r"))>>, "x := 1\nr := x == 1 == true\nprint(r)\n"),
  SynCase("C06/syn/chain-int-int-int", <<Def1("x", I("1")), Def1("r", CmpE("<", CmpE("<", I("0"), Var("x")), I("2")))>>, "x := 1\nr := 0 < x < 2\n"),
  SynCase("C06/syn/chain-str-eq-bool-eq-str", <<Def1("s", StrL("a")), Def1("r", CmpE("==", CmpE("==", Var("s"), StrL("a")), StrL("a")))>>, "s := \"a\"\nr := s == \"a\" == \"a\"\n"),
  SynCase("C06/syn/chain-in-condition", <<Def1("x", I("3")), If1(CmpE("==", CmpE(">", Var("x"), I("1")), BoolL(TRUE)), <<Print1(I("1"))>>)>>, "x := 3\nif x > 1 == true {\n\tprint(1)\n}\n"),
  SynCase("C06/syn/chain-in-condition-bad", <<Def1("x", I("3")), If1(CmpE(">", CmpE("==", BoolL(TRUE), BoolL(TRUE)), I("1")), <<Print1(I("1"))>>)>>, "x := 3\nif true == true > 1 {\n\tprint(1)\n}\n")}
ASSUME ndJsonSerialize("famrun.ndjson", SetToSeq(RunCases))
\* the type written `error` is the string type under another spelling: every position that takes or delivers a value of a type written
\* `error` x every offered expression (plus values whose own type was written `error`), in every context
EPrelude == Prelude \o
  <<VarDef(<<"xe">>, "error", <<>>), VarDef(<<"se">>, "[]error", <<>>),
    Func("fe", <<>>, <<"error">>, <<RetS(<<StrL("bad")>>)>>),
    Func("fie", <<>>, <<"int", "error">>, <<RetS(<<I("1"), Nil>>)>>),
    Func("te", <<Param("e", "error")>>, <<"error">>, <<RetS(<<Var("e")>>)>>)>>
EOffers == Offers \cup {<<"string", "evar", Var("xe")>>, <<"string", "ecall", CallE("fe", <<>>)>>, <<"string", "ecall1", CallE("te", <<Var("xs")>>)>>,
                        <<"slicestring", "evar", Var("se")>>, <<"multi", "ecall", CallE("fie", <<>>)>>, <<"string", "eidx", IndexE(Var("se"), I("0"))>>}
EPosNames == {"asgErr", "asgStrE", "cmpPlusErr", "cmpPlusStrE", "argErr", "argStrE", "asg2Err", "asg2StrE", "def2E", "elemErr", "elemStrE", "setIdxErr", "setIdxStrE",
              "asgSliceErr", "asgSliceStrE", "eqErrL", "eqErrR", "eqNil", "defErrE", "defStrE", "defSliceErr", "caseErr", "addErr", "copyErr", "rangeErr", "lenErr", "printErr"}
EPos(p, h) ==
  CASE p = "asgErr" -> <<Asg1("xe", h)>> [] p = "asgStrE" -> <<Asg1("xs", h)>>
    [] p = "cmpPlusErr" -> <<Compound("xe", "+", h)>> [] p = "cmpPlusStrE" -> <<Compound("xs", "+", h)>>
    [] p = "argErr" -> <<Def1("r", CallE("te", <<h>>))>> [] p = "argStrE" -> <<Def1("r", CallE("fs", <<h>>))>>
    [] p = "asg2Err" -> <<Asg(<<"xi", "xe">>, <<h>>)>> [] p = "asg2StrE" -> <<Asg(<<"xi", "xs">>, <<h>>)>>
    [] p = "def2E" -> <<Def(<<"xi2", "xe">>, <<h>>)>>
    [] p = "elemErr" -> <<Def1("r", SliceLit("error", <<h, Var("xe")>>))>> [] p = "elemStrE" -> <<Def1("r", SliceLit("string", <<Var("xe"), h>>))>>
    [] p = "setIdxErr" -> <<SetIdx("se", I("0"), h)>> [] p = "setIdxStrE" -> <<SetIdx("ss", I("0"), h)>>
    [] p = "asgSliceErr" -> <<Asg1("se", h)>> [] p = "asgSliceStrE" -> <<Asg1("ss", h)>>
    [] p = "eqErrL" -> <<Def1("r", CmpE("==", h, Var("xe")))>> [] p = "eqErrR" -> <<Def1("r", CmpE("!=", Var("xe"), h))>>
    [] p = "eqNil" -> <<Def1("r", CmpE("!=", h, Nil))>>
    [] p = "defErrE" -> <<VarDef(<<"n">>, "error", <<h>>)>> [] p = "defStrE" -> <<VarDef(<<"n">>, "string", <<h>>)>>
    [] p = "defSliceErr" -> <<VarDef(<<"n">>, "[]error", <<h>>)>>
    [] p = "caseErr" -> <<Switch(Var("xe"), <<CaseB(h, <<Print1(I("2"))>>)>>, <<Print1(I("3"))>>, TRUE)>>
    [] p = "addErr" -> <<Def1("r", Bin("+", Var("xe"), h))>>
    [] p = "copyErr" -> <<Def1("r", CopyE("se", h))>>
    [] p = "rangeErr" -> <<RangeS("k", "el", h, <<Asg1("xe", Var("el"))>>)>>
    [] p = "lenErr" -> <<Def1("r", LenE(h))>>
    [] p = "printErr" -> <<PrintS(<<Var("xe"), h>>)>>
EFuncPosNames == {"retErr", "retErr2nd", "retStrE", "retSliceErr"}
EFuncPos(p, h) ==
  CASE p = "retErr" -> <<Func("g", <<>>, <<"error">>, <<RetS(<<h>>)>>)>>
    [] p = "retErr2nd" -> <<Func("g", <<>>, <<"int", "error">>, <<RetS(<<I("1"), h>>)>>)>>
    [] p = "retStrE" -> <<Func("g", <<>>, <<"string">>, <<RetS(<<h>>)>>)>>
    [] p = "retSliceErr" -> <<Func("g", <<>>, <<"[]error">>, <<RetS(<<h>>)>>)>>
ErrCases == {CaseOf("C06/err/" \o p \o "/" \o o[1] \o "." \o o[2] \o "/" \o c, EPrelude \o Wrap(c, EPos(p, o[3]))) : p \in EPosNames, o \in EOffers, c \in Contexts}
            \cup {CaseOf("C06/errret/" \o p \o "/" \o o[1] \o "." \o o[2], EPrelude \o EFuncPos(p, o[3]) \o <<ExprS(CallE("g", <<>>))>>) : p \in EFuncPosNames, o \in EOffers}

All == SynCases \cup ErrCases \cup PosCases \cup RetCases \cup ArityCases \cup VListCases
ASSUME ndJsonSerialize("fam.ndjson", SetToSeq(All))
=============================================================================
