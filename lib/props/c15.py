"""C15 - std/strings agrees with Go's strings package."""
import os

from vlib import Infra, read_ndjson, write_ndjson

RULE = ("direction A: TLC enumerates spec/FamC15.tla: for the 14 two-string functions every (s, t) with s over all strings of length <= 3 on {a,b} (thorough {a,b,blank}) plus "
        "overlap-prone longer strings and t over all strings of length <= 2; Repeat for counts 0..4; Replace for old in {'', a, ab, aa} x new x n in -1..2 (thorough -2..4); "
        "ReplaceAll; Join for 8 element lists x 4 separators; TrimSpace. One compiled program per call (bundled std/strings through the real pipeline, /bin/bash). TLC "
        "evaluates the reference spec/GoStrings.tla for each call and validates the recorded output; the reference is calibrated against Go's package strings on every "
        "case (a disagreement there is an infrastructure error). Distinct = distinct call.")
ASSUME = ["Go's package strings of the installed toolchain is the standard", "Repeat with a negative count panics in Go and is not generated"]


def run(ctx):
    fam = ctx.tlc_family("FamC15", constants={"Tier": '"%s"' % ctx.tier}, timeout=3000)
    ctx.exhaustive["FamC15"] = True
    wd = ctx.sub("str")
    p0, p1, p2 = os.path.join(wd, "c0.ndjson"), os.path.join(wd, "c1.ndjson"), os.path.join(wd, "c2.ndjson")
    write_ndjson(p0, fam)
    ctx.run_vh("strcases", p0, p1)
    ctx.run_vh("run", p1, p2, os.path.join(wd, "scr"), "-j", 16, "-timeout", 20)
    ran = read_ndjson(p2)
    slim = [{"id": c["id"], "fn": c["fn"], "s": c["s"], "n": c["n"], "elems": c["elems"], "go": c["go"],
             "obs": {k: c["obs"][k] for k in ("accepted", "hang", "out", "code", "errEmpty")}} for c in ran]
    p3 = os.path.join(wd, "cases.ndjson")
    write_ndjson(p3, slim)
    verd, _ = ctx.tlc("StrRun", workdir=ctx.sub("tlc-str"), files=[(p3, "cases.ndjson")], timeout=3000)
    by = {v["id"]: v for v in verd}
    for c in ran:
        v = by.get(c["id"])
        if v is None:
            raise Infra("no verdict for " + c["id"])
        if not v["calibrated"]:
            raise Infra("GoStrings disagrees with Go's strings package on %s: spec %r, Go %r" % (c["id"], v["expected"], c["go"]))
        ctx.evaluations += 1
        ctx.traces_validated += 1
        ctx.distinct.add(c["id"])
        if len(ctx.samples) < 6 and ctx.evaluations % 331 == 1:
            ctx.samples.append({"id": c["id"], "program": c["src"], "expected": v["expected"], "observed": c["obs"]["out"]})
        if not v["ok"]:
            o = c["obs"]
            s = "expected %r, observed %r (status %s, stderr %r)" % (v["expected"], o["out"], o["code"], o.get("stderr", "")[:120])
            ctx.report_failure(c["id"], {"property": "C15", "case": c["id"], "why": s, "program": c["src"], "expected": v["expected"], "observed": o,
                                         "reproduce": "tsh -i main.tsh -o . -t bash; bash main.sh"}, s)
    return ctx.finish(rule=RULE, assumptions=ASSUME)
