"""C06 - Ill-typed programs are never translated; typing does not depend on the target."""
import progflow
import staticflow

RULE = ("direction A: TLC enumerates spec/FamC06.tla: 87 typed positions (every operand of every operator class, conditions, cases, indices, "
        "subscript bounds, slice elements, arguments, typed/untyped definitions, assignments, compound assignments, every builtin argument, range "
        "operand, multi-value definitions) x offered type in {int, bool, string, []int, []bool, []string, no-value, multi-value} (thorough: 22 "
        "spellings) x enclosing context {top, function, for[, if, switch]}, 9 return positions at any depth, arity and value-count cases; direction B: "
        "single-position corruptions of well-typed random programs. The verdict of the real transpiler for Bash and for Batch (error and no script, "
        "or a script) is validated by TLC against spec/TshStatic.tla. Distinct = distinct source text with a specified verdict.")
ASSUME = ["spec/TshStatic.tla states Go's typing rules for the shared syntax and the README signatures of the builtins (DESIGN.md Appendix E)",
          "cases TshStatic marks '?' (string ordering, print of a slice, panic argument type, bare return) are unspecified and not compared"]


def run(ctx):
    fam = ctx.tlc_family("FamC06", constants={"Tier": '"%s"' % ctx.tier})
    ctx.exhaustive["FamC06"] = True
    failures = staticflow.judge(ctx, fam, "fam")
    n = 150 if ctx.tier == "quick" else 2500
    gen = progflow.generate(ctx, "all", n, extra=("-corrupt",))
    failures += staticflow.judge(ctx, gen, "gen")
    # a type error at every position of long parameter / result / element / value / condition / case lists and at the bottom of deep expressions
    failures += staticflow.judge(ctx, progflow.scale_cases(ctx, "C06"), "scale")
    staticflow.report(ctx, failures)
    return ctx.finish(rule=RULE, assumptions=ASSUME)
