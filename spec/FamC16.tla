------------------------------- MODULE FamC16 -------------------------------
(* Additional programs for C16 (the driver also takes the programs of the C01-C04, C17 and C18 families): empty     *)
(* blocks in every position, deep nesting, many functions, every builtin incl. those that cannot be executed blindly. *)
EXTENDS TshAst
CONSTANT Tier
I(n) == NatLit(n)
T == BoolL(TRUE)
L(s) == Print1(StrL(s))
Lp(v, b) == For3(Def1(v, I(0)), CmpE("<", Var(v), I(2)), Inc(v), b)
Empty ==
  {CaseOf("C16/empty/if", <<If1(T, <<>>)>>), CaseOf("C16/empty/ifelse", <<IfElse(T, <<>>, <<>>)>>), CaseOf("C16/empty/elif", <<If(<<Branch(T, <<>>), Branch(T, <<>>)>>, <<L("e")>>)>>),
   CaseOf("C16/empty/for", <<Lp("i", <<>>)>>), CaseOf("C16/empty/forcond", <<Def1("n", I(0)), ForCond(CmpE("<", Var("n"), I(0)), <<>>)>>),
   CaseOf("C16/empty/func", <<Func("f", <<>>, <<>>, <<>>), ExprS(CallE("f", <<>>))>>), CaseOf("C16/empty/switch", <<Switch(I(1), <<>>, <<>>, FALSE)>>),
   CaseOf("C16/empty/case", <<Switch(I(1), <<CaseB(I(1), <<>>), CaseB(I(2), <<>>)>>, <<>>, TRUE)>>), CaseOf("C16/empty/range", <<RangeS("i", "", StrL("ab"), <<>>)>>),
   \* loops without a condition and without a statement (round 16: `while true; do` directly followed by `done`), in a function that is never reached at run time
   CaseOf("C16/empty/forinf", <<Func("spin", <<>>, <<>>, <<ForInf(<<>>)>>), L("e")>>), CaseOf("C16/empty/for3none", <<Func("spin", <<>>, <<>>, <<For3(NoneN, NoneN, NoneN, <<>>)>>), L("e")>>),
   CaseOf("C16/empty/fortrue", <<Func("spin", <<>>, <<>>, <<ForCond(T, <<>>)>>), L("e")>>),
   CaseOf("C16/empty/forinf-in-if", <<Func("spin", <<Param("n", "int")>>, <<>>, <<If1(CmpE(">", Var("n"), I(5)), <<ForInf(<<>>)>>), L("s")>>), ExprS(CallE("spin", <<I(1)>>))>>),
   CaseOf("C16/empty/forinf-nested", <<Func("spin", <<>>, <<>>, <<Lp("i", <<ForInf(<<>>)>>)>>), L("e")>>),
   CaseOf("C16/empty/for3-nopost", <<For3(Def1("i", I(0)), CmpE("<", Var("i"), I(0)), NoneN, <<>>), L("e")>>),
   CaseOf("C16/empty/else-only", <<IfElse(T, <<L("t")>>, <<>>)>>), CaseOf("C16/empty/then-only", <<IfElse(T, <<>>, <<L("f")>>)>>),
   CaseOf("C16/empty/default-only", <<Switch(I(1), <<>>, <<>>, TRUE)>>), CaseOf("C16/empty/func-result", <<Func("f", <<>>, <<"int">>, <<RetS(<<I(1)>>)>>)>>),
   CaseOf("C16/empty/program", <<>>), CaseOf("C16/empty/nested", <<Lp("i", <<If1(T, <<Lp("j", <<>>)>>)>>)>>),
   CaseOf("C16/empty/funcs-only", <<Func("f", <<>>, <<"int">>, <<RetS(<<I(1)>>)>>), Func("g", <<>>, <<>>, <<L("g")>>)>>)}
RECURSIVE Deep(_, _)
Deep(n, kind) == IF n = 0 THEN <<L("leaf"), If1(CmpE("==", I(1), I(2)), <<BreakS>>)>>
                 ELSE IF kind = "for" THEN <<Lp("i" \o ToString(n), Deep(n - 1, "if"))>>
                 ELSE IF kind = "if" THEN <<If(<<Branch(T, Deep(n - 1, "switch")), Branch(T, <<L("b")>>)>>, <<L("c")>>)>>
                 ELSE <<Switch(I(n), <<CaseB(I(n), Deep(n - 1, "for")), CaseB(I(0), <<L("z")>>)>>, <<L("d")>>, TRUE)>>
DeepCases == {CaseOf("C16/deep/" \o ToString(n) \o k, <<Lp("o", Deep(n, k))>>) : n \in 1..6, k \in {"for", "if", "switch"}}
ManyFuncs(n) == [i \in 1..n |-> Func("fn" \o ToString(i), <<Param("a", "int")>>, <<"int">>,
                                     <<If1(CmpE(">", Var("a"), I(i)), <<RetS(<<I(i)>>)>>), Lp("k", <<If1(CmpE("==", Var("k"), I(1)), <<ContinueS>>), L("x")>>),
                                       RetS(<<IF i = 1 THEN Var("a") ELSE CallE("fn" \o ToString(i - 1), <<Var("a")>>)>>)>>)]
FuncCases == {CaseOf("C16/funcs/" \o ToString(n), ManyFuncs(n) \o <<Print1(CallE("fn" \o ToString(n), <<I(3)>>))>>) : n \in {1, 2, 5, 12}}
            \cup {CaseOf("C16/funcs/unused", ManyFuncs(4) \o <<Print1(CallE("fn2", <<I(3)>>))>>)}
Builtins ==
  {CaseOf("C16/builtin/all", <<Def1("s", Input(StrL("name? "))), Def1("t", Input(NoneN)), WriteS(StrL("f.txt"), Var("s")), WriteA(StrL("f.txt"), Var("t"), ExistsE(StrL("f.txt"))),
                               If1(ExistsE(StrL("f.txt")), <<Print1(ReadE(StrL("f.txt")))>>), Def1("a", SliceLit("string", <<Var("s"), Var("t")>>)), VarDef(<<"b">>, "[]string", <<>>),
                               Def1("n", CopyE("b", Var("a"))), PrintS(<<Var("n"), LenE(Var("b")), LenE(Var("s")), Itoa(Var("n")), Substr(Var("s"), I(0), I(1)), IndexE(Var("a"), I(0))>>),
                               ExprS(App(<<Stage("ls", <<StrL("-l"), Var("s")>>), Stage("grep", <<StrL("x")>>)>>)), Def(<<"o", "e", "c">>, <<App(<<Stage("date", <<>>)>>)>>), PrintS(<<Var("o"), Var("e"), Var("c")>>),
                               PanicS(Bin("+", StrL("bye "), Var("o")))>>),
   CaseOf("C16/builtin/infunc", <<Func("io", <<Param("p", "string")>>, <<"string", "int">>, <<WriteS(Var("p"), Input(StrL("> "))), Def(<<"o", "e", "c">>, <<App(<<Stage("cat", <<Var("p")>>)>>)>>),
                                        If1(CmpE("!=", Var("c"), I(0)), <<PanicS(StrL("failed"))>>), RetS(<<ReadE(Var("p")), Var("c")>>)>>),
                                  Def(<<"x", "y">>, <<CallE("io", <<StrL("t.txt")>>)>>), PrintS(<<Var("x"), Var("y")>>)>>),
   CaseOf("C16/builtin/sliceops", <<Def1("a", SliceLit("int", <<I(1), I(2)>>)), SetIdx("a", I(5), I(6)), Def1("b", SliceLit("int", <<>>)), Def1("n", CopyE("b", Var("a"))),
                                    RangeS("i", "v", Var("b"), <<If1(CmpE("==", Var("v"), I(0)), <<ContinueS>>), PrintS(<<Var("i"), Var("v")>>)>>)>>),
   CaseOf("C16/builtin/strings", <<Def1("s", StrL("hello")), RangeS("i", "c", Var("s"), <<If1(CmpE("==", Var("c"), StrL("l")), <<BreakS>>), PrintS(<<Var("i"), Var("c"), LenE(Var("s")), Substr(Var("s"), Var("i"), NoneN)>>)>>)>>),
   CaseOf("C16/builtin/panicinloop", <<Lp("i", <<Lp("j", <<If1(CmpE("==", Var("j"), I(1)), <<PanicS(StrL("stop"))>>)>>)>>)>>),
   CaseOf("C16/builtin/onlyread", <<Print1(ReadE(StrL("x.txt")))>>), CaseOf("C16/builtin/onlywrite", <<WriteS(StrL("x.txt"), StrL("d"))>>),
   CaseOf("C16/builtin/onlyappcap", <<Def(<<"o", "e", "c">>, <<App(<<Stage("date", <<>>)>>)>>)>>), CaseOf("C16/builtin/onlyappstmt", <<ExprS(App(<<Stage("date", <<>>)>>))>>),
   CaseOf("C16/builtin/onlylen", <<Print1(LenE(StrL("abc")))>>), CaseOf("C16/builtin/onlyslicelen", <<Print1(LenE(SliceLit("int", <<I(1)>>)))>>),
   CaseOf("C16/builtin/onlysubstr", <<Def1("s", StrL("abc")), Print1(Substr(Var("s"), I(1), I(2)))>>), CaseOf("C16/builtin/onlycopy", <<VarDef(<<"d">>, "[]int", <<>>), Def1("n", CopyE("d", SliceLit("int", <<I(1)>>)))>>),
   CaseOf("C16/builtin/onlyslicelit", <<Def1("s", SliceLit("int", <<I(1)>>))>>), CaseOf("C16/builtin/onlysetidx", <<VarDef(<<"s">>, "[]int", <<>>), SetIdx("s", I(0), I(1))>>),
   CaseOf("C16/builtin/onlyindex", <<Def1("s", SliceLit("int", <<I(1)>>)), Print1(IndexE(Var("s"), I(0)))>>), CaseOf("C16/builtin/onlyinput", <<Def1("s", Input(NoneN))>>),
   CaseOf("C16/builtin/onlyexists", <<Print1(ExistsE(StrL("x")))>>), CaseOf("C16/builtin/onlypanic", <<PanicS(StrL("x"))>>), CaseOf("C16/builtin/onlyprint", <<PrintS(<<>>)>>)}
\* sequences and nestings of loops and chains (label allocation)
Shapes ==
  {CaseOf("C16/shape/seq-loops", <<Lp("a", <<L("1")>>), Lp("b", <<L("2")>>), Lp("c", <<Lp("d", <<L("3")>>), Lp("e", <<BreakS>>)>>)>>),
   CaseOf("C16/shape/continue-after-inner", <<Lp("a", <<Lp("b", <<L("in")>>), If1(CmpE("==", Var("a"), I(0)), <<ContinueS>>), L("after")>>)>>),
   CaseOf("C16/shape/break-after-inner", <<Lp("a", <<Lp("b", <<BreakS>>), If1(CmpE("==", Var("a"), I(0)), <<BreakS>>), L("after")>>)>>),
   CaseOf("C16/shape/chain-last-if", <<If(<<Branch(T, <<L("a")>>), Branch(T, <<L("b")>>)>>, <<If1(T, <<L("c")>>)>>)>>),
   CaseOf("C16/shape/chain-last-if-loop", <<If(<<Branch(T, <<L("a")>>)>>, <<Lp("i", <<If1(T, <<L("c")>>)>>)>>)>>),
   CaseOf("C16/shape/switch-last-if", <<Switch(I(1), <<CaseB(I(1), <<L("a")>>), CaseB(I(2), <<If1(T, <<L("b")>>)>>)>>, <<>>, FALSE)>>),
   CaseOf("C16/shape/if-in-first", <<If(<<Branch(T, <<If1(T, <<L("a")>>)>>), Branch(T, <<L("b")>>)>>, <<L("c")>>)>>),
   CaseOf("C16/shape/ifs-in-funcs", <<Func("p", <<>>, <<>>, <<If1(T, <<If1(T, <<L("p")>>)>>)>>), Func("q", <<>>, <<>>, <<If1(T, <<L("q1")>>), If1(T, <<If1(T, <<L("q2")>>)>>)>>), ExprS(CallE("p", <<>>)), ExprS(CallE("q", <<>>)), If1(T, <<If1(T, <<L("top")>>)>>)>>),
   CaseOf("C16/shape/loops-in-funcs", <<Func("p", <<>>, <<>>, <<Lp("i", <<Lp("j", <<ContinueS>>), BreakS>>)>>), Func("q", <<>>, <<>>, <<Lp("i", <<BreakS>>), Lp("j", <<ContinueS>>)>>), ExprS(CallE("p", <<>>)), ExprS(CallE("q", <<>>)), Lp("k", <<ContinueS>>)>>)}

\* label allocation across scopes: two functions and the top level each hold one structure; every position prints, so that a jump
\* landing in another scope's label (forward-then-wrap search) changes the output
Structs == {"if", "ifif", "ifloop", "loopif", "ifelseif"}
Struct(k, tag, v) ==
  CASE k = "if" -> <<If1(CmpE(">", Var(v), I(0)), <<L(tag \o "-a")>>), L(tag \o "-z")>>
    [] k = "ifif" -> <<If1(CmpE(">", Var(v), I(0)), <<L(tag \o "-a"), If1(CmpE(">", Var(v), I(1)), <<L(tag \o "-b")>>), L(tag \o "-c")>>), L(tag \o "-z")>>
    [] k = "ifloop" -> <<If1(CmpE(">", Var(v), I(0)), <<Lp(tag \o "i", <<If1(CmpE("==", Var(tag \o "i"), I(1)), <<L(tag \o "-b")>>), L(tag \o "-c")>>), L(tag \o "-d")>>), L(tag \o "-z")>>
    [] k = "loopif" -> <<Lp(tag \o "i", <<If(<<Branch(CmpE("==", Var(tag \o "i"), Var(v)), <<L(tag \o "-a")>>)>>, <<If1(CmpE(">", Var(v), I(0)), <<L(tag \o "-b")>>), L(tag \o "-c")>>), L(tag \o "-d")>>), L(tag \o "-z")>>
    [] k = "ifelseif" -> <<If(<<Branch(CmpE("==", Var(v), I(0)), <<L(tag \o "-a")>>), Branch(CmpE("==", Var(v), I(1)), <<If1(CmpE(">", Var(v), I(0)), <<L(tag \o "-b")>>), L(tag \o "-c")>>)>>, <<If1(CmpE(">", Var(v), I(1)), <<L(tag \o "-d")>>), L(tag \o "-e")>>), L(tag \o "-z")>>
LabelCases == {CaseOf("C16/labels/" \o a \o "-" \o b \o "-" \o c,
                      <<Func("fa", <<Param("n", "int")>>, <<>>, Struct(a, "fa", "n")), Func("fb", <<Param("n", "int")>>, <<>>, Struct(b, "fb", "n") \o <<ExprS(CallE("fa", <<Bin("+", Var("n"), I(1))>>))>>),
                        Def1("g", I(2)), ExprS(CallE("fa", <<I(2)>>)), ExprS(CallE("fb", <<I(0)>>))>> \o Struct(c, "top", "g") \o <<ExprS(CallE("fb", <<I(1)>>)), L("end")>>)
               : a \in Structs, b \in Structs, c \in Structs}
\* top-level code before, between and after function definitions (the functions hold fewer, as many or more structures than the code around them)
StructN(k, tag, v) == IF k = "none" THEN <<L(tag \o "-only")>> ELSE Struct(k, tag, v)
Interleaved == {CaseOf("C16/interleaved/" \o t1 \o "-" \o a \o "-" \o t2 \o "-" \o b,
                       <<Def1("g", I(1))>> \o Struct(t1, "ta", "g")
                       \o <<Func("fa", <<Param("n", "int")>>, <<>>, StructN(a, "fa", "n"))>> \o Struct(t2, "tb", "g")
                       \o <<Func("fb", <<Param("n", "int")>>, <<>>, StructN(b, "fb", "n")), ExprS(CallE("fa", <<I(1)>>)), ExprS(CallE("fb", <<I(2)>>))>> \o Struct("if", "tc", "g") \o <<L("end")>>)
                : t1 \in Structs, a \in Structs \cup {"none"}, t2 \in Structs, b \in {"none", "ifif"}}
\* every construct that needs a helper routine or start code, ALONE in a program (nothing else requests the same helper), at top level, inside a
\* function and in the else branch of a function: a helper is contained exactly when it is called, whoever asks for it
Alone == <<<<"copystmt", <<Def1("d", SliceLit("int", <<>>)), Def1("s", SliceLit("int", <<I(1)>>)), ExprS(CopyE("d", Var("s")))>>>>,
           <<"copyused", <<Def1("d", SliceLit("int", <<>>)), Def1("s", SliceLit("int", <<I(1)>>)), Def1("n", CopyE("d", Var("s")))>>>>,
           <<"lenslice", <<Def1("s", SliceLit("int", <<I(1)>>)), Def1("n", LenE(Var("s")))>>>>, <<"lenstring", <<Def1("t", StrL("abc")), Def1("n", LenE(Var("t")))>>>>,
           <<"setidx", <<Def1("s", SliceLit("int", <<I(1)>>)), SetIdx("s", I(3), I(2))>>>>, <<"index", <<Def1("s", SliceLit("int", <<I(1)>>)), Def1("e", IndexE(Var("s"), I(0)))>>>>,
           <<"slicelit", <<Def1("s", SliceLit("string", <<StrL("a"), StrL("b")>>))>>>>, <<"emptyslice", <<VarDef(<<"s">>, "[]bool", <<>>)>>>>,
           <<"rangeslice", <<Def1("s", SliceLit("int", <<I(1)>>)), RangeS("i", "v", Var("s"), <<Def1("w", Var("v"))>>)>>>>, <<"rangestring", <<Def1("t", StrL("ab")), RangeS("i", "c", Var("t"), <<Def1("w", Var("c"))>>)>>>>,
           <<"substr", <<Def1("t", StrL("abc")), Def1("u", Substr(Var("t"), I(1), I(2)))>>>>, <<"charat", <<Def1("t", StrL("abc")), Def1("u", IndexE(Var("t"), I(1)))>>>>,
           <<"strcmp", <<Def1("t", StrL("abc")), Def1("q", CmpE("==", Var("t"), StrL("x")))>>>>, <<"concat", <<Def1("t", StrL("abc")), Def1("u", Bin("+", Var("t"), Var("t")))>>>>,
           <<"print", <<Print1(I(1))>>>>, <<"printstr", <<Print1(StrL("a b"))>>>>, <<"itoa", <<Def1("u", Itoa(I(5)))>>>>, <<"input", <<Def1("u", Input(NoneN))>>>>, <<"inputprompt", <<Def1("u", Input(StrL("name")))>>>>,
           <<"read", <<Def1("u", ReadE(StrL("f.txt")))>>>>, <<"write", <<WriteS(StrL("f.txt"), StrL("x"))>>>>, <<"append", <<WriteA(StrL("f.txt"), StrL("x"), T)>>>>, <<"exists", <<Def1("q", ExistsE(StrL("f.txt")))>>>>,
           <<"appstmt", <<ExprS(App(<<Stage("pa", <<StrL("x")>>)>>))>>>>, <<"appcap", <<Def(<<"o", "e", "c">>, <<App(<<Stage("pa", <<StrL("x")>>), Stage("pb", <<>>)>>)>>)>>>>,
           <<"panic", <<PanicS(StrL("stop"))>>>>, <<"arith", <<Def1("n", Bin("%", Bin("+", I(7), I(5)), I(4)))>>>>, <<"nothing", <<Def1("n", I(1))>>>>, <<"multiassign", <<Def(<<"a", "b">>, <<I(1), I(2)>>), Asg(<<"a", "b">>, <<Var("b"), Var("a")>>)>>>>>>
AlonePlace(pl, ss) == CASE pl = "top" -> ss [] pl = "func" -> <<Func("f", <<>>, <<>>, ss), ExprS(CallE("f", <<>>))>>
                        [] pl = "funcelse" -> <<Func("f", <<Param("c", "bool")>>, <<>>, <<IfElse(Var("c"), <<Def1("z", I(0))>>, ss)>>), ExprS(CallE("f", <<BoolL(FALSE)>>))>>
                        [] pl = "loop" -> <<For3(Def1("k", I(0)), CmpE("<", Var("k"), I(1)), Inc("k"), ss)>>
AloneCases == {CaseOf("C16/alone/" \o Alone[i][1] \o "/" \o pl, AlonePlace(pl, Alone[i][2])) : i \in 1..Len(Alone), pl \in {"top", "func", "funcelse", "loop"}}
ASSUME ndJsonSerialize("fam.ndjson", SetToSeq(AloneCases \cup Empty \cup DeepCases \cup FuncCases \cup Builtins \cup Shapes \cup LabelCases \cup Interleaved))
=============================================================================
