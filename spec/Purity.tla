------------------------------- MODULE Purity -------------------------------
(* C14: Transpile as a function of (content of the source tree, target) - the library as an object with history.   *)
(* A recorded history is a sequence of events  [key |-> "<content id>/<target>", digest |-> d, ...]  produced by    *)
(* calls on the same transpiler object, on new objects, in new processes and from a relocated copy of the tree.     *)
(* The trace specification keeps the partial function `memo` that the history has revealed so far; a call event is  *)
(* enabled only if it agrees with memo (Functional) - so a history is accepted iff ONE function explains all of it.  *)
(* NoCrossTalk: a call for one target never changes what memo says about another key (by construction of Call).    *)
EXTENDS Integers, Sequences, FiniteSets, TLC, Json
Cases == ndJsonDeserialize("cases.ndjson")         \* [id, events]
VARIABLES ci, l, memo
vars == <<ci, l, memo>>
Trace == Cases[ci].events
Init == ci \in 1..Len(Cases) /\ l = 1 /\ memo = <<>>
Call == /\ l <= Len(Trace)
        /\ LET e == Trace[l] IN
           /\ (e.key \in DOMAIN memo => memo[e.key] = e.digest)             \* Functional
           /\ memo' = IF e.key \in DOMAIN memo THEN memo ELSE (e.key :> e.digest) @@ memo
        /\ l' = l + 1 /\ UNCHANGED ci
Done == l > Len(Trace)
Stuck == l <= Len(Trace) /\ Trace[l].key \in DOMAIN memo /\ memo[Trace[l].key] # Trace[l].digest
Next == Call \/ ((Done \/ Stuck) /\ UNCHANGED vars)
Spec == Init /\ [][Next]_vars
NoCrossTalk == [][\A k \in DOMAIN memo : k \in DOMAIN memo' /\ memo'[k] = memo[k]]_vars       \* what is known is never revised
Verdict == (Done \/ Stuck) => PrintT(ToJson([id |-> Cases[ci].id, ok |-> Done, at |-> l, keys |-> Cardinality(DOMAIN memo)]))
=============================================================================
