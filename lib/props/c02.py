"""C02 - Bash target preserves function-call semantics and variable isolation."""
import corpus
import progflow

RULE = ("direction A: TLC enumerates spec/FamC02.tla: every legal assignment of 3 (thorough: 4) names to the six roles "
        "(global before f, parameter and local of f, parameter and local of g, global after g) x update form of the global, "
        "all arities 0..3 x 0..3 x call shape (statement, define, assign, partial redefinition, print, argument, operand), "
        "13 in-place global update forms, simultaneous assignments, nested and argument calls; direction B: random acyclic "
        "call graphs from `vh gen funcs`. Every program prints the visible state after every call, so intermediate states are bound. "
        "Distinct = new source text with a defined meaning under TshDyn.")
ASSUME = ["spec/TshDyn.tla: CallEnter/Return/CallExit, DefineIn/AssignIn state the binding and resolution rules of C02",
          "FrameIsolation is checked by TLC as an action property on every transition of every run"]


def run(ctx):
    fam = ctx.tlc_family("FamC02", constants={"Tier": '"%s"' % ctx.tier})
    ctx.exhaustive["FamC02"] = True
    failures = progflow.judge(ctx, fam, "fam")
    n = 400 if ctx.tier == "quick" else 3000
    failures += progflow.judge(ctx, progflow.generate(ctx, "funcs", n), "gen")
    failures += corpus.judge(ctx, "C02")
    # beyond the small scope: sizes that cross the one-digit / two-digit boundary of names, counters and indices (spec/FamScale.tla)
    failures += progflow.judge(ctx, progflow.scale_cases(ctx, "C02"), "scale")
    # every ordered pair of feature snippets x every composition mode (spec/FamPairs.tla): the pairs whose highest property is this one
    failures += progflow.judge(ctx, progflow.pair_cases(ctx, "C02"), "pairs")
    # legal spellings the renderer never produces (spec/FamSyn.tla): the TEXT is run, the program it must mean is validated
    failures += progflow.judge(ctx, progflow.syn_cases(ctx, "C02"), "syn")
    # run-time histories (spec/FamHist.tla): the same constructs visited again and again along different dynamic paths
    failures += progflow.judge(ctx, progflow.hist_cases(ctx, ("calls",)), "hist")
    progflow.report(ctx, failures)
    return ctx.finish(rule=RULE, assumptions=ASSUME)
