"""C12 - Program meaning is independent of layout."""
import os

from vlib import Infra, read_ndjson, write_ndjson

RULE = ("bases: the 46 accepted/rejected programs of spec/FamC12.tla (one per statement form, imports, comments, syntax/type/scope errors) "
        "plus programs of the C01-C04 families; spec/Layout.tla (over the reference scanner spec/Lexer.tla) segments each base and decides for every "
        "candidate re-layout whether it is token-preserving (tokens equal after dropping comments, collapsing NEWLINE runs and NEWLINEs before EOF). "
        "Candidates: every single-gap substitution (6 inline, 10 line-break, 8 end-of-file alternatives incl. CRLF, blank and comment-only lines, block "
        "and line comments, no blank at all), 8 whole-file transforms (CRLF, indent, dedent, trailing blanks, blank lines, comment lines, tight, wide) and "
        "seeded random multi-gap re-layouts. For every token-preserving candidate the real transpiler must give the base's verdict and byte-identical "
        "scripts for Bash and Batch. Distinct = distinct candidate text judged token-preserving by TLC.")
ASSUME = ["token preservation is judged by the specification (TLC runs spec/Lexer.tla on every candidate), never by the lexer under test",
          "leading blank lines before the first token are not generated (the property names only existing line breaks)"]


def run(ctx):
    quick = ctx.tier == "quick"
    bases = ctx.tlc_family("FamC12", constants={"Tier": '"%s"' % ctx.tier})
    # programs of the C01-C04 families, rendered from abstract syntax
    extra = []
    for fam, stride in (("FamC01", 97 if quick else 23), ("FamC02", 41 if quick else 11), ("FamC03", 211 if quick else 61), ("FamC04", 37 if quick else 9)):
        cs = ctx.tlc_family(fam, constants={"Tier": '"quick"'})
        cs.sort(key=lambda c: c["id"])
        extra += cs[::stride]
    wd = ctx.sub("bases")
    if extra:
        p0, p1 = os.path.join(wd, "x0.ndjson"), os.path.join(wd, "x1.ndjson")
        write_ndjson(p0, extra)
        ctx.run_vh("render", p0, p1)
        for c in read_ndjson(p1):
            bases.append({"id": "base/" + c["id"], "text": c["src"], "files": []})
    for b in bases:
        b["mode"] = "pieces"
    pb = os.path.join(wd, "bases.ndjson")
    write_ndjson(pb, bases)
    seg, _ = ctx.tlc("Layout", workdir=ctx.sub("tlc-pieces"), files=[(pb, "cases.ndjson")])
    segs = {v["id"]: v for v in seg}
    withp = []
    for b in bases:
        v = segs[b["id"]]
        if v["err"]:
            b["lexerr"] = True       # lexically invalid base: kept for its own outcome, no re-layouts
            continue
        withp.append(dict(b, pieces=v["pieces"]))
    pp = os.path.join(wd, "pieces.ndjson")
    write_ndjson(pp, withp)
    pv = os.path.join(wd, "variants.ndjson")
    ctx.run_vh("relayout", pp, pv, ctx.seed, 4 if quick else 10)   # whole-file re-scans by the Lexer model are the expensive part: 40 per base ran into the TLC timeout once the bases had grown
    variants = read_ndjson(pv)
    allc = [dict(b, src=b["text"]) for b in bases] + [dict(v, src=v["text"]) for v in variants]
    pa, po = os.path.join(wd, "all.ndjson"), os.path.join(wd, "outcomes.ndjson")
    write_ndjson(pa, allc)
    ctx.run_vh("outcome", pa, po, os.path.join(wd, "scr"))
    outc = {c["id"]: c["obs"] for c in read_ndjson(po)}
    import hashlib

    def h(x):
        return hashlib.sha1(x.encode()).hexdigest()[:16]
    # (1) single-gap substitutions are judged on a window of the text (three tokens of left context, one of right
    #     context): the reference scanner's only context dependence is the type of the previous token.
    local = [v for v in variants if "wbase" in v]
    wbases = sorted({v["wbase"] for v in local})
    pw = os.path.join(wd, "wbases.ndjson")
    write_ndjson(pw, [{"id": h(t), "text": t, "mode": "pieces"} for t in wbases])
    wseg, _ = ctx.tlc("Layout", workdir=ctx.sub("tlc-wpieces"), files=[(pw, "cases.ndjson")])
    wcanon = {v["id"]: v for v in wseg}
    pairs = sorted({(v["wbase"], v["wtext"]) for v in local})
    pwv = os.path.join(wd, "wvariants.ndjson")
    write_ndjson(pwv, [{"id": h(a + "\x00" + b), "text": b, "mode": "variant", "basetoks": wcanon[h(a)]["canon"], "obs": "", "baseobs": ""}
                       for a, b in pairs if not wcanon[h(a)]["err"]])
    wver, _ = ctx.tlc("Layout", cfg="LayoutV.cfg", workdir=ctx.sub("tlc-wvariants"), files=[(pwv, "cases.ndjson")], timeout=3000)
    wpres = {v["id"]: v["preserved"] for v in wver}
    # (2) whole-file transforms and random multi-gap re-layouts are scanned in full
    glob = [v for v in variants if "wbase" not in v]
    pg = os.path.join(wd, "gvariants.ndjson")
    write_ndjson(pg, [{"id": v["id"], "text": v["text"], "mode": "variant", "basetoks": segs[v["base"]]["canon"],
                       "baseobs": outc[v["base"]], "obs": outc[v["id"]]} for v in glob])
    gver, _ = ctx.tlc("Layout", cfg="LayoutV.cfg", workdir=ctx.sub("tlc-gvariants"), files=[(pg, "cases.ndjson")], timeout=6000)
    gpres = {v["id"]: v["preserved"] for v in gver}
    texts = {v["id"]: v for v in variants}
    vs = []
    bad = []
    for v in variants:
        pres = wpres.get(h(v["wbase"] + "\x00" + v["wtext"]), False) if "wbase" in v else gpres[v["id"]]
        ctx.evaluations += 1
        if not pres:
            ctx.dropped["not-token-preserving"] = ctx.dropped.get("not-token-preserving", 0) + 1
            continue
        ctx.traces_validated += 1
        ctx.distinct.add(v["text"])
        rec = {"id": v["id"], "text": v["text"], "baseobs": outc[v["base"]], "obs": outc[v["id"]]}
        vs.append(rec)
        if rec["obs"] != rec["baseobs"]:
            bad.append(v["id"])
    by = {v["id"]: v for v in vs}
    basetext = {b["id"]: b["text"] for b in bases}
    for vid in bad:
        v = by[vid]
        base = texts[vid]["base"]
        s = "base %s -> %s, re-layout -> %s (bash|batch; A:digest accepted, R rejected, P panic)" % (base, v["baseobs"], v["obs"])
        ctx.report_failure(vid, {"property": "C12", "case": vid, "why": s, "base_text": basetext[base], "relayout_text": v["text"],
                                 "files": texts[vid].get("files"), "reproduce": "tsh -i <file> -o . -t bash -t batch on both texts; compare"}, s)
    ctx.samples = [{"base": basetext[texts[v]["base"]], "relayout": texts[v]["text"], "base_outcome": by[v]["baseobs"], "outcome": by[v]["obs"]}
                   for v in list(texts)[:400:97]]
    ctx.exhaustive["single-gap substitutions of FamC12 bases"] = True
    return ctx.finish(rule=RULE, assumptions=ASSUME, extra={"bases": len(bases), "candidates": len(variants)})
