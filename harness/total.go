package main

// C13 support: vh total <cases.ndjson> <out.ndjson> <scratch> [-deadline seconds]
// Every Transpile call runs in a worker subprocess (this binary, `vh worker`) with a stack cap, an address-space cap
// and a per-input deadline, so that a crash, an unbounded recursion or a hang of the code under test is an
// OBSERVATION (kind "panic" / "timeout"), never a failure of the harness.

import (
	"bufio"
	"encoding/json"
	"fmt"
	"os"
	"os/exec"
	"path/filepath"
	"runtime/debug"
	"strings"
	"sync"
	"syscall"
	"time"
)

type outcome struct {
	Kind   string `json:"kind"`   // script | error | panic | timeout
	Script bool   `json:"script"` // a non-empty script was returned
	Msg    bool   `json:"msg"`    // a non-empty error message was returned
	Detail string `json:"detail,omitempty"`
}

func classify(script string, err error, panicked bool) outcome {
	switch {
	case panicked:
		return outcome{Kind: "panic", Detail: err.Error()}
	case err != nil:
		return outcome{Kind: "error", Script: script != "", Msg: err.Error() != "", Detail: firstLine(err.Error())}
	default:
		return outcome{Kind: "script", Script: script != ""}
	}
}

func firstLine(s string) string {
	if i := strings.IndexByte(s, '\n'); i >= 0 {
		s = s[:i]
	}
	if len(s) > 160 {
		s = s[:160]
	}
	return asciiSafe(s)
}

// cmdWorker: reads one JSON case per line, answers one JSON line {"bash":..,"batch":..}.
func cmdWorker(args []string) {
	debug.SetMaxStack(64 << 20)
	var lim syscall.Rlimit
	lim.Cur, lim.Max = 6<<30, 6<<30
	syscall.Setrlimit(syscall.RLIMIT_AS, &lim)
	scratch := args[0]
	in := bufio.NewReaderSize(os.Stdin, 1<<20)
	out := bufio.NewWriter(os.Stdout)
	n := 0
	for {
		line, err := in.ReadBytes('\n')
		if len(line) > 1 {
			var c N
			if json.Unmarshal(line, &c) != nil {
				fatal("worker: bad line")
			}
			if t, ok := c["text"].(string); ok && c["prog"] == nil {
				c["src"] = strings.ReplaceAll(t, placeholder, letter)
			}
			n++
			dir := filepath.Join(scratch, fmt.Sprintf("w%d-%d", os.Getpid(), n))
			mainFile, _ := materialise(c, dir)
			res := map[string]outcome{}
			for _, target := range []string{"bash", "batch"} {
				s, e, p := transpileSafe(mainFile, target)
				res[target] = classify(s, e, p)
			}
			os.RemoveAll(dir)
			b, _ := json.Marshal(res)
			out.Write(b)
			out.WriteByte('\n')
			out.Flush()
		}
		if err != nil {
			return
		}
	}
}

type workerProc struct {
	cmd *exec.Cmd
	in  *bufio.Writer
	out *bufio.Reader
}

func startWorker(self, scratch string) *workerProc {
	cmd := exec.Command(self, "worker", scratch)
	cmd.Stderr = nil
	stdin, _ := cmd.StdinPipe()
	stdout, _ := cmd.StdoutPipe()
	if err := cmd.Start(); err != nil {
		fatal("cannot start worker: %v", err)
	}
	return &workerProc{cmd: cmd, in: bufio.NewWriter(stdin), out: bufio.NewReaderSize(stdout, 1<<20)}
}

func (w *workerProc) kill() {
	w.cmd.Process.Kill()
	w.cmd.Wait()
}

func cmdTotal(args []string) {
	cases := readCases(args[0])
	scratch := args[2]
	deadline := 10 * time.Second
	for i := 3; i < len(args); i++ {
		if args[i] == "-deadline" {
			var s int
			fmt.Sscan(args[i+1], &s)
			deadline = time.Duration(s) * time.Second
			i++
		}
	}
	os.MkdirAll(scratch, 0o755)
	self, _ := os.Executable()
	var wg sync.WaitGroup
	jobs := make(chan int, len(cases))
	for i := range cases {
		jobs <- i
	}
	close(jobs)
	for k := 0; k < 14; k++ {
		wg.Add(1)
		go func() {
			defer wg.Done()
			w := startWorker(self, scratch)
			defer func() { w.kill() }()
			for i := range jobs {
				line, _ := json.Marshal(cases[i])
				w.in.Write(line)
				w.in.WriteByte('\n')
				w.in.Flush()
				type reply struct {
					b   []byte
					err error
				}
				ch := make(chan reply, 1)
				go func(r *bufio.Reader) {
					b, err := r.ReadBytes('\n')
					ch <- reply{b, err}
				}(w.out)
				var res map[string]outcome
				select {
				case r := <-ch:
					if r.err != nil || json.Unmarshal(r.b, &res) != nil {
						// the worker died: a crash of the code under test (fatal error, stack overflow, out of memory)
						w.kill()
						res = map[string]outcome{"bash": {Kind: "panic", Detail: "worker process died"}, "batch": {Kind: "panic", Detail: "worker process died"}}
						w = startWorker(self, scratch)
					}
				case <-time.After(deadline):
					w.kill()
					res = map[string]outcome{"bash": {Kind: "timeout"}, "batch": {Kind: "timeout"}}
					w = startWorker(self, scratch)
				}
				var on N
				b, _ := json.Marshal(res)
				json.Unmarshal(b, &on)
				for _, t := range []string{"bash", "batch"} {
					if on[t] == nil {
						on[t] = N{"kind": "panic", "script": false, "msg": false}
					}
				}
				cases[i]["obs"] = on
			}
		}()
	}
	wg.Wait()
	writeCases(args[1], cases)
}

// cmdEdits: vh edits <pieces.ndjson> <out.ndjson> <stride> : single-token edits of base programs (delete, duplicate,
// swap with the next token, replace by each token of a catalog); every stride-th edit is kept.
func cmdEdits(args []string) {
	bases := readCases(args[0])
	stride := 1
	fmt.Sscan(args[2], &stride)
	catalog := []string{"a", "x9", "1", "-1", "\"s\"", "true", "nil", "(", ")", "[", "]", "{", "}", "=", ":=", "==", "+", "-", "!", "&&", ",", ":", ";", ".", "@", "|",
		"if", "else", "for", "func", "return", "switch", "case", "default", "break", "continue", "range", "var", "import", "int", "[]", "len", "print", "copy", "\n", "f()", "none()", "two()", "s[0]", "h.Hello"}
	out := []N{}
	k := 0
	for _, b := range bases {
		pieces := list(b["pieces"])
		idx := []int{}
		for i, p := range pieces {
			if p.(N)["k"] == "tok" || p.(N)["k"] == "nl" {
				idx = append(idx, i)
			}
		}
		build := func(f func(i int, s string) string) string {
			var sb strings.Builder
			for i, p := range pieces {
				sb.WriteString(f(i, p.(N)["s"].(string)))
			}
			return sb.String()
		}
		emit := func(op string, text string) {
			k++
			if k%stride != 0 {
				return
			}
			out = append(out, N{"id": b["id"].(string) + "/" + op, "text": text, "files": b["files"], "mode": "proto", "expect": "any"})
		}
		// every prefix of the program that ends after a token (the file ends there, without a final line end)
		for n, ti := range idx {
			var sb strings.Builder
			for i := 0; i <= ti; i++ {
				sb.WriteString(pieces[i].(N)["s"].(string))
			}
			out = append(out, N{"id": b["id"].(string) + fmt.Sprintf("/prefix%d", n), "text": strings.TrimRight(sb.String(), "\n"), "files": b["files"], "mode": "proto", "expect": "any"})
		}
		for n, ti := range idx {
			emit(fmt.Sprintf("del%d", n), build(func(i int, s string) string {
				if i == ti {
					return ""
				}
				return s
			}))
			emit(fmt.Sprintf("dup%d", n), build(func(i int, s string) string {
				if i == ti {
					return s + " " + s
				}
				return s
			}))
			if n+1 < len(idx) {
				a, c := pieces[ti].(N)["s"].(string), pieces[idx[n+1]].(N)["s"].(string)
				emit(fmt.Sprintf("swap%d", n), build(func(i int, s string) string {
					if i == ti {
						return c
					}
					if i == idx[n+1] {
						return a
					}
					return s
				}))
			}
			for ci, tok := range catalog {
				emit(fmt.Sprintf("rep%d.%d", n, ci), build(func(i int, s string) string {
					if i == ti {
						return tok
					}
					return s
				}))
			}
		}
	}
	writeCases(args[1], out)
}
