------------------------------- MODULE FamC02 -------------------------------
(* Direction-A families for C02: parameter binding, frame isolation under every assignment of a   *)
(* small set of names to the roles of a two-function program, in-place update of globals by every  *)
(* assignment form, return-value order through every call shape, simultaneous assignment.          *)
EXTENDS TshAst
CONSTANT Tier
Quick == Tier = "quick"

Names == IF Quick THEN {"a", "b", "x"} ELSE {"a", "b", "x", "y"}
L(s) == Print1(StrL(s))
PV(lbl, vs) == PrintS(<<StrL(lbl)>> \o [i \in 1..Len(vs) |-> Var(vs[i])])

\* (a) every legal assignment of names to roles: global G1 before f, parameter/local of f, parameter/local of g,
\*     global G2 after g.  f updates G1 in place; every frame's state is printed at every step.
Roles == {r \in [{"G1", "fP", "fL", "gP", "gL", "G2"} -> Names] :
            /\ r["fP"] # r["G1"] /\ r["fL"] # r["G1"] /\ r["fL"] # r["fP"]
            /\ r["gP"] # r["G1"] /\ r["gL"] # r["G1"] /\ r["gL"] # r["gP"]
            /\ r["G2"] # r["G1"]}
RoleProg(r, upd) ==
  <<Def1(r["G1"], NatLit(1)),
    Func("f", <<Param(r["fP"], "int")>>, <<"int">>,
         <<Def1(r["fL"], Bin("+", Var(r["fP"]), NatLit(10))),
           CASE upd = "asg" -> Asg1(r["G1"], Bin("+", Var(r["G1"]), Var(r["fL"])))
             [] upd = "cmp" -> Compound(r["G1"], "+", Var(r["fL"]))
             [] upd = "inc" -> Inc(r["G1"])
             [] upd = "multi" -> Asg(<<r["G1"], r["fL"]>>, <<Var(r["fL"]), Var(r["G1"])>>),
           PV("f", <<r["fP"], r["fL"], r["G1"]>>),
           Asg1(r["fP"], NatLit(0)),
           RetS(<<Var(r["fL"])>>)>>),
    Func("g", <<Param(r["gP"], "int")>>, <<"int">>,
         <<Def1(r["gL"], CallE("f", <<Bin("*", Var(r["gP"]), NatLit(2))>>)),
           PV("g", <<r["gP"], r["gL"], r["G1"]>>),
           RetS(<<Bin("+", Var(r["gL"]), CallE("f", <<Var(r["gP"])>>))>>)>>),
    Def1(r["G2"], NatLit(100)),
    Def1("res", CallE("g", <<NatLit(3)>>)),
    PV("top", <<r["G1"], r["G2"], "res">>),
    Asg1("res", CallE("f", <<Var(r["G2"])>>)),
    PV("top", <<r["G1"], r["G2"], "res">>)>>
RoleCases == {CaseOf("C02/roles/" \o upd \o "/" \o r["G1"] \o r["fP"] \o r["fL"] \o r["gP"] \o r["gL"] \o r["G2"], RoleProg(r, upd))
              : r \in Roles, upd \in (IF Quick THEN {"asg", "multi"} ELSE {"asg", "cmp", "inc", "multi"})}

\* (b) arities: n parameters and m results of rotating types; every call shape
Tys == <<"int", "string", "bool">>
TyAt(i) == Tys[((i - 1) % 3) + 1]
ArgOf(ty, k) == CASE ty = "int" -> NatLit(k * 7) [] ty = "string" -> StrL("s" \o ToString(k)) [] ty = "bool" -> BoolL(k % 2 = 1)
PName(i) == "p" \o ToString(i)
RName(i) == "r" \o ToString(i)
ResExpr(ty, n, j) ==      \* result j of a function with n parameters: built from parameters of the same type if any
  LET same == {i \in 1..n : TyAt(i) = ty} IN
  IF same = {} THEN ArgOf(ty, j + 3)
  ELSE LET p == Var(PName(CHOOSE i \in same : \A k \in same : i <= k)) IN
       CASE ty = "int" -> Bin("+", p, NatLit(j)) [] ty = "string" -> Bin("+", p, StrL("!")) [] ty = "bool" -> Not(p)
FnNM(name, n, m) ==
  Func(name, [i \in 1..n |-> Param(PName(i), TyAt(i))], [j \in 1..m |-> TyAt(j + 1)],
       <<PrintS(<<StrL(name)>> \o [i \in 1..n |-> Var(PName(i))])>>
       \o (IF m = 0 THEN <<>> ELSE <<RetS([j \in 1..m |-> ResExpr(TyAt(j + 1), n, j)])>>))
CallNM(name, n) == CallE(name, [i \in 1..n |-> ArgOf(TyAt(i), i)])
Shapes(m) == IF m = 0 THEN {"stmt"} ELSE IF m = 1 THEN {"stmt", "define", "assign", "print", "arg", "operand", "stmtarg", "stmtargs", "discardarg"} ELSE {"stmt", "define", "assign", "partial"}
ZeroArg(ty) == CASE ty = "int" -> NatLit(0) [] ty = "string" -> StrL("") [] ty = "bool" -> BoolL(FALSE)
ArityProg(n, m, sh) ==
  <<FnNM("fn", n, m),
    Func("show", <<Param("v", TyAt(2))>>, <<TyAt(2)>>, <<PrintS(<<StrL("show"), Var("v")>>), RetS(<<Var("v")>>)>>)>>
  \o CASE sh = "stmt" -> <<ExprS(CallNM("fn", n)), L("after")>>
       [] sh = "define" -> <<Def([j \in 1..m |-> RName(j)], <<CallNM("fn", n)>>), PrintS([j \in 1..m |-> Var(RName(j))])>>
       [] sh = "assign" -> [j \in 1..m |-> VarDef(<<RName(j)>>, TyAt(j + 1), <<>>)] \o
                           <<Asg([j \in 1..m |-> RName(j)], <<CallNM("fn", n)>>), PrintS([j \in 1..m |-> Var(RName(j))])>>
       [] sh = "partial" -> <<Def1(RName(1), ZeroArg(TyAt(2))), Def([j \in 1..m |-> RName(j)], <<CallNM("fn", n)>>), PrintS([j \in 1..m |-> Var(RName(j))])>>
       [] sh = "print" -> <<PrintS(<<CallNM("fn", n), StrL("|"), CallNM("fn", n)>>)>>
       [] sh = "arg" -> <<Def1("q", CallE("show", <<CallNM("fn", n)>>)), PrintS(<<Var("q")>>)>>
       [] sh = "operand" -> <<Def1("q", CmpE("==", CallNM("fn", n), CallNM("fn", n))), PrintS(<<Var("q")>>)>>
       \* a call whose own value is not used (statement position) still receives the values of the calls in its argument list
       [] sh = "stmtarg" -> <<Func("sink", <<Param("v", TyAt(2))>>, <<>>, <<PrintS(<<StrL("sink"), Var("v")>>)>>), ExprS(CallE("sink", <<CallNM("fn", n)>>)), L("after")>>
       [] sh = "stmtargs" -> <<Func("sink2", <<Param("t", "string"), Param("v", TyAt(2)), Param("w", TyAt(2))>>, <<>>, <<PrintS(<<StrL("sink2"), Var("t"), Var("v"), Var("w")>>)>>),
                               ExprS(CallE("sink2", <<StrL("tag"), CallNM("fn", n), Grp(CallNM("fn", n))>>)), L("after")>>
       [] sh = "discardarg" -> <<ExprS(CallE("show", <<CallNM("fn", n)>>)), Func("w", <<>>, <<>>, <<ExprS(CallE("show", <<CallE("show", <<CallNM("fn", n)>>)>>))>>), ExprS(CallE("w", <<>>))>>
ArityCases == UNION {{CaseOf("C02/arity/" \o ToString(nm[1]) \o "-" \o ToString(nm[2]) \o "/" \o sh, ArityProg(nm[1], nm[2], sh)) : sh \in Shapes(nm[2])}
                     : nm \in (0..3) \X (0..3)}

\* (c) in-place update of globals of every type by every form, called twice; a later-defined global of a local's name
GlobalForms == {"asg", "add", "sub", "mul", "div", "mod", "inc", "dec", "multi", "sasg", "sadd", "basg", "viaarg"}
GlobalProg(f) ==
  <<Def1("n", NatLit(20)), Def1("s", StrL("ab")), Def1("b", BoolL(FALSE)), Def1("m", NatLit(3)),
    Func("upd", <<Param("k", "int")>>, <<>>,
         <<CASE f = "asg" -> Asg1("n", Bin("+", Var("k"), NatLit(1)))
             [] f = "add" -> Compound("n", "+", Var("k"))
             [] f = "sub" -> Compound("n", "-", Var("k"))
             [] f = "mul" -> Compound("n", "*", Var("k"))
             [] f = "div" -> Compound("n", "/", Var("k"))
             [] f = "mod" -> Compound("n", "%", Var("k"))
             [] f = "inc" -> Inc("n")
             [] f = "dec" -> Dec("n")
             [] f = "multi" -> Asg(<<"n", "m">>, <<Var("m"), Bin("+", Var("n"), Var("k"))>>)
             [] f = "sasg" -> Asg1("s", Bin("+", StrL("k"), Itoa(Var("k"))))
             [] f = "sadd" -> Compound("s", "+", Itoa(Var("k")))
             [] f = "basg" -> Asg1("b", CmpE(">", Var("k"), NatLit(2)))
             [] f = "viaarg" -> Asg1("k", Bin("+", Var("n"), NatLit(1))),
           Def1("loc", Bin("*", Var("k"), NatLit(2))),
           PrintS(<<StrL("in"), Var("n"), Var("s"), Var("b"), Var("m"), Var("k"), Var("loc")>>)>>),
    ExprS(CallE("upd", <<NatLit(2)>>)), PrintS(<<StrL("top"), Var("n"), Var("s"), Var("b"), Var("m")>>),
    Def1("loc", StrL("global named like the local")),
    Def1("k", NatLit(77)),
    ExprS(CallE("upd", <<NatLit(3)>>)), PrintS(<<StrL("top"), Var("n"), Var("s"), Var("b"), Var("m"), Var("loc"), Var("k")>>)>>
GlobalCases == {CaseOf("C02/global/" \o f, GlobalProg(f)) : f \in GlobalForms}

\* (d) simultaneous assignment, at top level and inside a function, over scalars of each type
SwapCases ==
  {CaseOf("C02/swap/top2", <<Def(<<"a", "b">>, <<NatLit(1), NatLit(2)>>), Asg(<<"a", "b">>, <<Var("b"), Var("a")>>), PrintS(<<Var("a"), Var("b")>>)>>),
   CaseOf("C02/swap/top3", <<Def(<<"a", "b", "c">>, <<NatLit(1), NatLit(2), NatLit(3)>>), Asg(<<"a", "b", "c">>, <<Var("c"), Var("a"), Var("b")>>), PrintS(<<Var("a"), Var("b"), Var("c")>>)>>),
   CaseOf("C02/swap/str", <<Def(<<"a", "b">>, <<StrL("x y"), StrL("z")>>), Asg(<<"a", "b">>, <<Var("b"), Var("a")>>), PrintS(<<Var("a"), Var("b")>>)>>),
   CaseOf("C02/swap/expr", <<Def(<<"a", "b">>, <<NatLit(5), NatLit(7)>>), Asg(<<"a", "b">>, <<Bin("+", Var("a"), Var("b")), Bin("-", Var("a"), Var("b"))>>), PrintS(<<Var("a"), Var("b")>>)>>),
   CaseOf("C02/swap/infunc", <<Func("sw", <<Param("a", "int"), Param("b", "int")>>, <<"int", "int">>, <<Asg(<<"a", "b">>, <<Var("b"), Var("a")>>), RetS(<<Var("a"), Var("b")>>)>>),
                               Def(<<"p", "q">>, <<CallE("sw", <<NatLit(1), NatLit(2)>>)>>), PrintS(<<Var("p"), Var("q")>>)>>),
   CaseOf("C02/swap/globallocal", <<Def1("g", NatLit(9)),
                               Func("sw", <<Param("a", "int")>>, <<"int">>, <<Asg(<<"a", "g">>, <<Var("g"), Var("a")>>), RetS(<<Var("a")>>)>>),
                               Def1("r", CallE("sw", <<NatLit(4)>>)), PrintS(<<Var("r"), Var("g")>>)>>),
   CaseOf("C02/swap/defmix", <<Def1("a", NatLit(1)), Def(<<"b", "a">>, <<Var("a"), NatLit(5)>>), PrintS(<<Var("a"), Var("b")>>)>>),
   CaseOf("C02/swap/loop", <<Def(<<"a", "b">>, <<NatLit(0), NatLit(1)>>), For3(Def1("i", NatLit(0)), CmpE("<", Var("i"), NatLit(6)), Inc("i"), <<Asg(<<"a", "b">>, <<Var("b"), Bin("+", Var("a"), Var("b"))>>)>>), PrintS(<<Var("a"), Var("b")>>)>>)}

\* (e) return order through nested calls and calls as arguments
NestCases ==
  {CaseOf("C02/nest/chain3", <<Func("f3", <<>>, <<"int", "string", "bool">>, <<RetS(<<NatLit(1), StrL("two"), BoolL(TRUE)>>)>>),
                               Func("mid", <<>>, <<"bool", "int", "string">>, <<Def(<<"x", "y", "z">>, <<CallE("f3", <<>>)>>), RetS(<<Var("z"), Var("x"), Var("y")>>)>>),
                               Func("outer", <<>>, <<"string", "bool", "int">>, <<Def(<<"x", "y", "z">>, <<CallE("mid", <<>>)>>), RetS(<<Var("z"), Var("x"), Var("y")>>)>>),
                               Def(<<"p", "q", "r">>, <<CallE("outer", <<>>)>>), PrintS(<<Var("p"), Var("q"), Var("r")>>)>>),
   CaseOf("C02/nest/forward", <<Func("f3", <<Param("n", "int")>>, <<"int", "string", "bool">>, <<RetS(<<Var("n"), StrL("two"), BoolL(TRUE)>>)>>),
                                Func("mid", <<Param("n", "int")>>, <<"int", "string", "bool">>, <<PrintS(<<StrL("mid"), Var("n")>>), RetS(<<CallE("f3", <<Bin("+", Var("n"), NatLit(1))>>)>>)>>),
                                Func("top", <<>>, <<"int", "string", "bool">>, <<If1(BoolL(TRUE), <<PrintS(<<StrL("top")>>)>>), RetS(<<CallE("mid", <<NatLit(5)>>)>>)>>),
                                Def(<<"p", "q", "r">>, <<CallE("top", <<>>)>>), PrintS(<<Var("p"), Var("q"), Var("r")>>),
                                VarDef(<<"p2">>, "int", <<>>), VarDef(<<"q2">>, "string", <<>>), VarDef(<<"r2">>, "bool", <<>>), Asg(<<"p2", "q2", "r2">>, <<CallE("mid", <<NatLit(1)>>)>>), PrintS(<<Var("p2"), Var("q2"), Var("r2")>>)>>),
   CaseOf("C02/nest/bare", <<FuncBare("tick", <<>>, <<PrintS(<<StrL("tick")>>)>>), FuncBare("seven", <<"int">>, <<ExprS(CallE("tick", <<>>)), RetS(<<NatLit(7)>>)>>),
                             ExprS(CallE("tick", <<>>)), PrintS(<<CallE("seven", <<>>), Bin("+", CallE("seven", <<>>), NatLit(1))>>)>>),
   CaseOf("C02/nest/shadow-multi", <<Def(<<"total", "label">>, <<NatLit(100), StrL("top")>>), Func("pair", <<>>, <<"int", "string">>, <<RetS(<<NatLit(11), StrL("inner")>>)>>),
                                     Func("work", <<>>, <<"int">>, <<Def(<<"total", "extra">>, <<NatLit(10), NatLit(1)>>), Asg1("total", Bin("+", Var("total"), Var("extra"))), RetS(<<Var("total")>>)>>),
                                     Func("work2", <<>>, <<"string">>, <<Def(<<"total", "label", "fresh">>, <<CallE("work", <<>>), StrL("inner2"), NatLit(0)>>), Compound("label", "+", StrL("!")), Inc("total"), RetS(<<Bin("+", Var("label"), Itoa(Bin("+", Var("total"), Var("fresh"))))>>)>>),
                                     Func("bump", <<>>, <<>>, <<Inc("total")>>),
                                     PrintS(<<CallE("work", <<>>), Var("total")>>), PrintS(<<CallE("work2", <<>>), Var("label"), Var("total")>>), ExprS(CallE("bump", <<>>)), PrintS(<<Var("total"), Var("label")>>)>>),
   CaseOf("C02/nest/args", <<Func("add", <<Param("a", "int"), Param("b", "int")>>, <<"int">>, <<RetS(<<Bin("+", Var("a"), Var("b"))>>)>>),
                             Func("dbl", <<Param("a", "int")>>, <<"int">>, <<RetS(<<Bin("*", Var("a"), NatLit(2))>>)>>),
                             PrintS(<<CallE("add", <<CallE("dbl", <<NatLit(3)>>), CallE("dbl", <<CallE("add", <<NatLit(1), NatLit(1)>>)>>)>>)>>),
                             PrintS(<<CallE("add", <<CallE("add", <<NatLit(1), NatLit(2)>>), CallE("add", <<NatLit(3), NatLit(4)>>)>>), CallE("dbl", <<CallE("dbl", <<CallE("dbl", <<NatLit(1)>>)>>)>>)>>)>>),
   CaseOf("C02/nest/argsmulti", <<Func("two", <<Param("a", "int")>>, <<"int", "int">>, <<RetS(<<Var("a"), Bin("+", Var("a"), NatLit(1))>>)>>),
                                  Func("add", <<Param("a", "int"), Param("b", "int")>>, <<"int">>, <<Def(<<"x", "y">>, <<CallE("two", <<Var("a")>>)>>), Def(<<"u", "w">>, <<CallE("two", <<Var("b")>>)>>), RetS(<<Bin("+", Bin("+", Var("x"), Var("y")), Bin("+", Var("u"), Var("w")))>>)>>),
                                  Def(<<"p", "q">>, <<CallE("two", <<CallE("add", <<NatLit(1), NatLit(10)>>)>>)>>), PrintS(<<Var("p"), Var("q")>>)>>),
   CaseOf("C02/nest/samenames", <<Func("inner", <<Param("a", "int")>>, <<"int">>, <<Def1("t", Bin("+", Var("a"), NatLit(1))), Asg1("a", NatLit(0)), RetS(<<Var("t")>>)>>),
                                  Func("outer", <<Param("a", "int")>>, <<"int">>, <<Def1("t", CallE("inner", <<Bin("*", Var("a"), NatLit(10))>>)), RetS(<<Bin("+", Bin("+", Var("t"), Var("a")), CallE("inner", <<Var("a")>>))>>)>>),
                                  Def1("a", NatLit(5)), Def1("t", CallE("outer", <<Var("a")>>)), PrintS(<<Var("a"), Var("t")>>)>>),
   CaseOf("C02/nest/byvalue", <<Func("chg", <<Param("n", "int"), Param("s", "string"), Param("b", "bool")>>, <<>>, <<Asg1("n", NatLit(99)), Compound("s", "+", StrL("!")), Asg1("b", Not(Var("b"))), PrintS(<<Var("n"), Var("s"), Var("b")>>)>>),
                                Def(<<"n", "s", "b">>, <<NatLit(1), StrL("keep"), BoolL(TRUE)>>), ExprS(CallE("chg", <<Var("n"), Var("s"), Var("b")>>)), PrintS(<<Var("n"), Var("s"), Var("b")>>)>>),
   CaseOf("C02/nest/sliceref", <<Func("put", <<Param("p", "[]int"), Param("i", "int")>>, <<>>, <<SetIdx("p", Var("i"), NatLit(7))>>),
                                 Def1("s", SliceLit("int", <<NatLit(1), NatLit(2)>>)), ExprS(CallE("put", <<Var("s"), NatLit(0)>>)), ExprS(CallE("put", <<Var("s"), NatLit(3)>>)),
                                 PrintS(<<LenE(Var("s")), IndexE(Var("s"), NatLit(0)), IndexE(Var("s"), NatLit(1)), IndexE(Var("s"), NatLit(2)), IndexE(Var("s"), NatLit(3))>>)>>),
   CaseOf("C02/nest/voidearly", <<Func("v", <<Param("a", "int")>>, <<>>, <<If1(CmpE(">", Var("a"), NatLit(1)), <<L("big")>>), L("end v")>>),
                                  ExprS(CallE("v", <<NatLit(1)>>)), ExprS(CallE("v", <<NatLit(2)>>))>>),
   CaseOf("C02/nest/retinloop", <<Func("find", <<Param("t", "int")>>, <<"int">>, <<Def1("r", NatLit(0)), For3(Def1("i", NatLit(0)), CmpE("<", Var("i"), NatLit(5)), Inc("i"), <<If1(CmpE("==", Var("i"), Var("t")), <<Asg1("r", Bin("*", Var("i"), NatLit(10)))>>)>>), RetS(<<Var("r")>>)>>),
                                  PrintS(<<CallE("find", <<NatLit(3)>>), CallE("find", <<NatLit(9)>>)>>)>>)}

\* (f) multi-target statements whose values call functions that themselves execute multi-target statements
\*     (re-entrancy of whatever the back-end uses to make the assignment simultaneous)
Callees == {"swap", "define", "vardef", "nested"}
CalleeDef(kind) ==
  CASE kind = "swap" -> Func("cal", <<Param("n", "int")>>, <<"int">>, <<Def(<<"p", "q">>, <<Var("n"), Bin("*", Var("n"), NatLit(2))>>), Asg(<<"p", "q">>, <<Var("q"), Var("p")>>), RetS(<<Bin("-", Var("p"), Var("q"))>>)>>)
    [] kind = "define" -> Func("cal", <<Param("n", "int")>>, <<"int">>, <<Def(<<"lo", "hi">>, <<Var("n"), Bin("*", Var("n"), NatLit(2))>>), RetS(<<Bin("+", Var("lo"), Var("hi"))>>)>>)
    [] kind = "vardef" -> Func("cal", <<Param("n", "int")>>, <<"int">>, <<VarDef(<<"u", "w">>, "int", <<>>), VarDef(<<"c", "d">>, "int", <<Var("n"), NatLit(1)>>), RetS(<<Bin("+", Bin("+", Var("u"), Var("w")), Bin("+", Var("c"), Var("d")))>>)>>)
    [] kind = "nested" -> Func("cal", <<Param("n", "int")>>, <<"int">>, <<Def(<<"lo", "hi">>, <<Var("n"), CallE("inner", <<Var("n")>>)>>), RetS(<<Bin("+", Var("lo"), Var("hi"))>>)>>)
InnerDef == Func("inner", <<Param("n", "int")>>, <<"int">>, <<Def(<<"e", "f">>, <<NatLit(1000), NatLit(2000)>>), RetS(<<Bin("+", Bin("+", Var("e"), Var("f")), Var("n"))>>)>>)
ValAt(isCall, i) == IF isCall THEN CallE("cal", <<NatLit(10 * i)>>) ELSE NatLit(i)
TName(i) == "t" \o ToString(i)
MultiCallProg(kind, k, calls, form) ==
  <<InnerDef, CalleeDef(kind)>>
  \o (IF form = "asg" THEN <<VarDef([i \in 1..k |-> TName(i)], "int", <<>>)>> ELSE <<>>)
  \o <<IF form = "asg" THEN Asg([i \in 1..k |-> TName(i)], [i \in 1..k |-> ValAt(i \in calls, i)])
        ELSE Def([i \in 1..k |-> TName(i)], [i \in 1..k |-> ValAt(i \in calls, i)]),
        PrintS([i \in 1..k |-> Var(TName(i))])>>
RECURSIVE SetStr(_, _, _)
SetStr(S, i, k) == IF i > k THEN "" ELSE (IF i \in S THEN "c" ELSE "v") \o SetStr(S, i + 1, k)
MultiCallCases == UNION {{CaseOf("C02/multicall/" \o kind \o "/" \o form \o "/" \o SetStr(calls, 1, k), MultiCallProg(kind, k, calls, form))
                          : calls \in (SUBSET (1..k)) \ {{}}} : kind \in Callees, k \in {2, 3}, form \in {"asg", "def"}}


\* (g) a loop in the caller is live across a call whose callee runs loops of its own: every caller loop form x callee loop form x place of the call
\*     (body, condition, increment) x relative nesting (the callee's loop at the same depth or one deeper); whatever a back-end keeps per loop
\*     (first-iteration flags, counters, labels) must be private to the activation
CalleeLoop(form) ==
  CASE form = "for3" -> <<For3(Def1("j", NatLit(0)), CmpE("<", Var("j"), NatLit(2)), Inc("j"), <<Compound("t", "+", Var("j"))>>)>>
    [] form = "forcond" -> <<Def1("j", NatLit(0)), ForCond(CmpE("<", Var("j"), NatLit(2)), <<Inc("j"), Compound("t", "+", NatLit(10))>>)>>
    [] form = "forinf" -> <<Def1("j", NatLit(0)), ForInf(<<Inc("j"), If1(CmpE(">", Var("j"), NatLit(2)), <<BreakS>>), Compound("t", "+", NatLit(100))>>)>>
    [] form = "range" -> <<RangeS("j", "e", SliceLit("int", <<NatLit(5), NatLit(6)>>), <<Compound("t", "+", Var("e"))>>)>>
    [] form = "earlyret" -> <<For3(Def1("j", NatLit(0)), CmpE("<", Var("j"), NatLit(5)), Inc("j"), <<If1(CmpE("==", Var("j"), Var("n")), <<RetS(<<Bin("+", Var("t"), Var("j"))>>)>>)>>)>>
    [] form = "none" -> <<Compound("t", "+", NatLit(1))>>
CalleeDefL(form, deeper) == Func("work", <<Param("n", "int")>>, <<"int">>,
     <<Def1("t", Var("n"))>> \o (IF deeper THEN <<If1(CmpE(">=", Var("n"), NatLit(0)), CalleeLoop(form))>> ELSE CalleeLoop(form)) \o <<RetS(<<Var("t")>>)>>)
W(e) == CallE("work", <<e>>)
CallerLoop(form, place) ==
  LET body == IF place = "body" THEN <<PrintS(<<Var("i"), W(Var("i"))>>)>> ELSE <<PrintS(<<Var("i")>>)>>
      cond == IF place = "cond" THEN CmpE("<", Bin("+", Var("i"), Bin("-", W(Var("i")), W(Var("i")))), NatLit(3)) ELSE CmpE("<", Var("i"), NatLit(3))
      post == IF place = "post" THEN Asg1("i", Bin("+", Bin("+", Var("i"), NatLit(1)), Bin("-", W(Var("i")), W(Var("i"))))) ELSE Inc("i")
  IN CASE form = "for3" -> <<For3(Def1("i", NatLit(0)), cond, post, body)>>
       [] form = "forcond" -> <<Def1("i", NatLit(0)), ForCond(cond, body \o <<post>>)>>
       [] form = "range" -> <<RangeS("i", "v", SliceLit("int", <<NatLit(7), NatLit(8), NatLit(9)>>), body \o <<PrintS(<<Var("v")>>)>>)>>
       [] form = "nested" -> <<For3(Def1("o", NatLit(0)), CmpE("<", Var("o"), NatLit(2)), Inc("o"), <<For3(Def1("i", NatLit(0)), cond, post, body), PrintS(<<StrL("o"), Var("o")>>)>>)>>
LoopCallCases == {CaseOf("C02/loopcall/" \o cf \o "-" \o pl \o "/" \o ff \o (IF dp THEN "-deeper" ELSE ""), <<CalleeDefL(ff, dp)>> \o CallerLoop(cf, pl) \o <<L("end")>>)
                  : cf \in {"for3", "forcond", "range", "nested"}, pl \in {"body", "cond", "post"}, ff \in {"for3", "forcond", "forinf", "range", "earlyret", "none"}, dp \in {TRUE, FALSE}}

\* (h) every position of a multi-value return x how the value is produced: a parameter expression ("v"), a bare call ("c"), a call inside an
\*     expression ("e"), a call whose argument is a call ("n"); direct or forwarded through one more function by `return r(n)`.  Whatever a
\*     back-end uses to carry results (registers, helper copies) must survive the calls made for the later positions.
RetKinds == {"v", "c", "e", "n"}
RCallee(i) == Func("g" \o ToString(i), <<Param("n", "int")>>, <<"int">>, <<PrintS(<<StrL("g" \o ToString(i)), Var("n")>>), RetS(<<Bin("+", Bin("*", Var("n"), NatLit(i + 1)), NatLit(i))>>)>>)
RVal(kd, i) == CASE kd = "v" -> Bin("+", Var("n"), NatLit(i))
                 [] kd = "c" -> CallE("g" \o ToString(i), <<Var("n")>>)
                 [] kd = "e" -> Bin("+", CallE("g" \o ToString(i), <<Var("n")>>), NatLit(0))
                 [] kd = "n" -> CallE("g" \o ToString(i), <<CallE("g" \o ToString(i), <<Var("n")>>)>>)
RECURSIVE KStr(_, _)
KStr(ks, i) == IF i > Len(ks) THEN "" ELSE ks[i] \o KStr(ks, i + 1)
RetFormProg(ks, via, form) ==
  LET k == Len(ks)
      ints == [i \in 1..k |-> "int"]
      names == [i \in 1..k |-> TName(i)]
      top == IF via THEN "outer" ELSE "r"
  IN [i \in 1..k |-> RCallee(i)]
     \o <<Func("r", <<Param("n", "int")>>, ints, <<RetS([i \in 1..k |-> RVal(ks[i], i)])>>)>>
     \o (IF via THEN <<Func("outer", <<Param("n", "int")>>, ints, <<RetS(<<CallE("r", <<Bin("+", Var("n"), NatLit(1))>>)>>)>>)>> ELSE <<>>)
     \o (IF form = "asg" THEN <<VarDef(names, "int", <<>>), Asg(names, <<CallE(top, <<NatLit(5)>>)>>)>> ELSE <<Def(names, <<CallE(top, <<NatLit(5)>>)>>)>>)
     \o <<PrintS([i \in 1..k |-> Var(TName(i))])>>
RetFormCases == {CaseOf("C02/retform/" \o KStr(ks, 1) \o (IF via THEN "/via/" ELSE "/direct/") \o form, RetFormProg(ks, via, form))
                 : ks \in ([1..2 -> RetKinds] \cup [1..3 -> RetKinds]), via \in BOOLEAN, form \in {"def", "asg"}}
\* ---- one name defined in several blocks of a callee, some of which are not entered at run time, while a variable of the same name is alive outside
\* (round 9: `local` declared where the FIRST definition is emitted; when that block is skipped a later plain assignment walks Bash's dynamic scope chain)
\* callee shape x which path the call takes x who owns the outer variable (caller's local, caller's parameter, a global defined after the callee,
\* a top-level variable defined before the call) x the outer variable is read after the call
BDShapes == {"ifthen", "ifelse", "loop0", "switch", "nested", "twoifs"}
BDCallee(sh) ==
  LET D(v) == Def1("t", v)  R == RetS(<<Var("t")>>) IN
  Func("pick", <<Param("n", "int")>>, <<"int">>,
    CASE sh = "ifthen" -> <<If1(CmpE(">", Var("n"), NatLit(10)), <<D(Bin("*", Var("n"), NatLit(2))), R>>), D(Bin("+", Var("n"), NatLit(1))), R>>
      [] sh = "ifelse" -> <<IfElse(CmpE(">", Var("n"), NatLit(10)), <<D(Bin("*", Var("n"), NatLit(2))), PV("big", <<"t">>)>>, <<D(Bin("+", Var("n"), NatLit(1))), PV("small", <<"t">>)>>), RetS(<<Var("n")>>)>>
      [] sh = "loop0"  -> <<For3(Def1("i", NatLit(10)), CmpE("<", Var("i"), Var("n")), Inc("i"), <<D(Var("i")), PV("in", <<"t">>)>>), D(Bin("+", Var("n"), NatLit(1))), R>>
      [] sh = "switch" -> <<Switch(Var("n"), <<CaseB(NatLit(20), <<D(NatLit(7)), PV("case", <<"t">>)>>)>>, <<D(NatLit(8)), PV("default", <<"t">>)>>, TRUE), D(Bin("+", Var("n"), NatLit(1))), R>>
      [] sh = "nested" -> <<If1(CmpE(">", Var("n"), NatLit(0)), <<If1(CmpE(">", Var("n"), NatLit(10)), <<D(NatLit(5)), PV("deep", <<"t">>)>>), D(Bin("+", Var("n"), NatLit(1))), PV("mid", <<"t">>)>>), RetS(<<Var("n")>>)>>
      [] sh = "twoifs" -> <<If1(CmpE(">", Var("n"), NatLit(10)), <<D(NatLit(1)), PV("first", <<"t">>)>>), If1(CmpE("<", Var("n"), NatLit(30)), <<D(NatLit(2)), PV("second", <<"t">>)>>), RetS(<<Var("n")>>)>>)
BDOwners == {"callerlocal", "callerparam", "globalafter", "toplevel", "callerloop"}
BDProg(sh, ow, n) ==
  LET call == CallE("pick", <<NatLit(n)>>) IN
  CASE ow = "callerlocal" -> <<BDCallee(sh), Func("caller", <<>>, <<"int">>, <<Def1("t", NatLit(100)), Def1("r", call), PV("caller", <<"t", "r">>), RetS(<<Bin("+", Var("t"), Var("r"))>>)>>), Print1(CallE("caller", <<>>))>>
    [] ow = "callerparam" -> <<BDCallee(sh), Func("caller", <<Param("t", "int")>>, <<"int">>, <<Def1("r", call), RetS(<<Bin("+", Var("t"), Var("r"))>>)>>), Print1(CallE("caller", <<NatLit(100)>>))>>
    [] ow = "globalafter" -> <<BDCallee(sh), Def1("t", NatLit(100)), Def1("r", call), PV("top", <<"t", "r">>)>>
    [] ow = "toplevel"    -> <<BDCallee(sh), Def1("r", call), Def1("t", NatLit(100)), Asg1("r", Bin("+", Var("r"), call)), PV("top", <<"t", "r">>)>>
    [] ow = "callerloop"  -> <<BDCallee(sh), Func("caller", <<>>, <<>>, <<For3(Def1("t", NatLit(0)), CmpE("<", Var("t"), NatLit(2)), Inc("t"), <<PrintS(<<StrL("loop"), Var("t"), call>>)>>)>>), ExprS(CallE("caller", <<>>))>>
BlockDefCases == {CaseOf("C02/blockdef/" \o sh \o "/" \o ow \o "/" \o ToString(n), BDProg(sh, ow, n)) : sh \in BDShapes, ow \in BDOwners, n \in {1, 20, 40}}
\* ---- argument VALUES (round 13: a literal argument with pattern characters left unquoted binds to file names when the working directory holds a match;
\* the harness puts decoy files there): every value of a catalog of awkward-looking strings / integers / booleans bound to every parameter position,
\* written as a literal at the call, held in a variable, and delivered by another call; the callee hands back what each parameter holds
ArgStrs == <<"", "*", "?", "[ab]", "*.txt", "-n", "-e", "a b", " a", "a ", "~", "#x", "x;y", "0", "08", "true", "a=b", "!x", "{a,b}", "a*b?c", "&", "|", ">f", "(x)", "%s", "a  b", "--", "1 -eq 1", "\t", "a\nb">>
ArgInts == <<"0", "-1", "10", "007", MaxInt64, "-9223372036854775807", "-10", "100", "9", "1">>
ArgValProg(i, form) ==
  LET sv == ArgStrs[i]
      iv == IntL(ArgInts[(i % Len(ArgInts)) + 1])
      bv == BoolL(i % 2 = 0)
      S == CASE form = "lit" -> StrL(sv) [] form = "var" -> Var("v") [] form = "ret" -> CallE("id", <<StrL(sv)>>) [] form = "cat" -> Bin("+", StrL(""), StrL(sv))
  IN <<Func("id", <<Param("s", "string")>>, <<"string">>, <<RetS(<<Var("s")>>)>>),
       Func("pair", <<Param("a", "string"), Param("b", "string")>>, <<"string">>, <<RetS(<<Bin("+", Bin("+", Bin("+", Bin("+", StrL("["), Var("a")), StrL("|")), Var("b")), StrL("]"))>>)>>),
       Func("third", <<Param("a", "string"), Param("b", "string"), Param("c", "string")>>, <<"string", "int">>, <<RetS(<<Var("c"), LenE(Var("a"))>>)>>),
       Func("show", <<Param("n", "int"), Param("s", "string"), Param("t", "bool"), Param("m", "int")>>, <<>>, <<PrintS(<<Var("n"), Var("s"), Var("t"), Var("m")>>), Asg1("s", StrL("gone")), Asg1("n", NatLit(5))>>),
       Def1("v", StrL(sv)),
       Print1(CallE("pair", <<S, StrL("x")>>)),
       Print1(CallE("pair", <<StrL("x"), S>>)),
       Print1(CallE("pair", <<S, S>>)),
       Def(<<"c", "n">>, <<CallE("third", <<S, StrL("m"), StrL("z")>>)>>),
       PrintS(<<Var("c"), Var("n")>>),
       ExprS(CallE("show", <<iv, S, bv, Bin("-", iv, NatLit(1))>>)),
       PrintS(<<Var("v"), LenE(Var("v"))>>)>>
ArgValCases == {CaseOf("C02/argval/" \o form \o "/" \o ToString(i), ArgValProg(i, form)) : i \in 1..Len(ArgStrs), form \in {"lit", "var", "ret", "cat"}}
\* ---- a multi-name short definition that RE-USES a name of its own scope and reads it further right (round 14: definitions stored their targets one after
\* another, "a definition's values cannot refer to the names it introduces"): Go assigns the re-used name, and all values are computed first
ReDefShapes == {"second-new", "first-new", "three", "expr", "expr-rev", "twice"}
ReDefWraps == {"bare", "group", "sum"}
ReDefStmts(sh, w) ==
  LET R(n) == CASE w = "bare" -> Var(n) [] w = "group" -> Grp(Var(n)) [] w = "sum" -> Bin("+", Var(n), NatLit(0)) IN
  CASE sh = "second-new" -> <<Def(<<"x", "old">>, <<R("y"), R("x")>>), PrintS(<<Var("x"), Var("old"), Var("y")>>)>>
    [] sh = "first-new"  -> <<Def(<<"old", "x">>, <<R("x"), R("y")>>), PrintS(<<Var("x"), Var("old"), Var("y")>>)>>
    [] sh = "three"      -> <<Def(<<"x", "y", "z">>, <<R("y"), R("x"), R("x")>>), PrintS(<<Var("x"), Var("y"), Var("z")>>)>>
    [] sh = "expr"       -> <<Def(<<"x", "n">>, <<Bin("+", Var("x"), NatLit(1)), R("x")>>), PrintS(<<Var("x"), Var("n"), Var("y")>>)>>
    [] sh = "expr-rev"   -> <<Def(<<"n", "x">>, <<R("x"), Bin("+", Var("x"), NatLit(1))>>), PrintS(<<Var("x"), Var("n"), Var("y")>>)>>
    [] sh = "twice"      -> <<Def(<<"x", "p">>, <<R("y"), R("x")>>), Def(<<"y", "q">>, <<R("p"), R("x")>>), PrintS(<<Var("x"), Var("y"), Var("p"), Var("q")>>)>>
ReDefProg(sh, w, where) ==
  CASE where = "top" -> <<Def(<<"x", "y">>, <<NatLit(1), NatLit(2)>>)>> \o ReDefStmts(sh, w)
    [] where = "params" -> <<Func("f", <<Param("x", "int"), Param("y", "int")>>, <<"int">>, ReDefStmts(sh, w) \o <<RetS(<<Bin("+", Bin("*", Var("x"), NatLit(10)), Var("y"))>>)>>),
                             PrintS(<<CallE("f", <<NatLit(3), NatLit(4)>>)>>), PrintS(<<CallE("f", <<NatLit(5), NatLit(5)>>)>>)>>
    [] where = "locals" -> <<Func("f", <<Param("a", "int")>>, <<"int">>, <<Def(<<"x", "y">>, <<Var("a"), Bin("+", Var("a"), NatLit(1))>>)>> \o ReDefStmts(sh, w) \o <<RetS(<<Var("x")>>)>>),
                             PrintS(<<CallE("f", <<NatLit(3)>>)>>), PrintS(<<CallE("f", <<NatLit(7)>>)>>)>>
    [] where = "strings" -> <<Def(<<"x", "y">>, <<StrL("one"), StrL("two")>>)>> \o (IF sh \in {"expr", "expr-rev"} THEN <<Def(<<"x", "n">>, <<Bin("+", Var("x"), StrL("!")), Var("x")>>), PrintS(<<Var("x"), Var("n")>>)>> ELSE ReDefStmts(sh, IF w = "sum" THEN "bare" ELSE w))
ReDefCases == {CaseOf("C02/redef/" \o sh \o "/" \o w \o "/" \o where, ReDefProg(sh, w, where)) : sh \in ReDefShapes, w \in ReDefWraps, where \in {"top", "params", "locals", "strings"}}
\* ---- SLICE results next to other calls (round 15, type-specific: a slice result was handed on as the return register itself, and the next call overwrote it):
\* every shape in which a call delivering a slice is followed by another call before the slice is used - as arguments, as values of one definition / assignment /
\* return, inside expressions - for int and string elements; the scalar counterpart of each shape is in RetFormCases
SRDefs(ty) ==
  LET E(k) == IF ty = "int" THEN NatLit(k) ELSE StrL("s" \o ToString(k)) T == "[]" \o ty IN
  <<Func("short", <<>>, <<T>>, <<PrintS(<<StrL("short")>>), RetS(<<SliceLit(ty, <<E(1), E(2)>>)>>)>>),
    Func("long", <<>>, <<T>>, <<PrintS(<<StrL("long")>>), RetS(<<SliceLit(ty, <<E(5), E(6), E(7)>>)>>)>>),
    Func("zero", <<>>, <<"int">>, <<PrintS(<<StrL("zero")>>), RetS(<<NatLit(0)>>)>>),
    Func("word", <<>>, <<"string">>, <<RetS(<<StrL("w")>>)>>),
    Func("first", <<Param("xs", T), Param("i", "int")>>, <<ty>>, <<RetS(<<IndexE(Var("xs"), Var("i"))>>)>>),
    Func("lens", <<Param("xs", T), Param("ys", T)>>, <<"int">>, <<RetS(<<Bin("+", Bin("*", LenE(Var("xs")), NatLit(10)), LenE(Var("ys")))>>)>>),
    Func("tail", <<Param("i", "int"), Param("xs", T)>>, <<ty>>, <<RetS(<<IndexE(Var("xs"), Bin("-", Bin("-", LenE(Var("xs")), NatLit(1)), Var("i")))>>)>>),
    Func("both", <<>>, <<T, T>>, <<RetS(<<CallE("short", <<>>), CallE("long", <<>>)>>)>>),
    Func("mixed", <<>>, <<T, "int", "string">>, <<RetS(<<CallE("long", <<>>), CallE("zero", <<>>), CallE("word", <<>>)>>)>>),
    Func("id", <<Param("xs", T)>>, <<T>>, <<RetS(<<Var("xs")>>)>>)>>
SRShapes == {"arg-then-call", "two-slice-args", "call-then-arg", "def2", "asg2", "ret2", "ret3", "lens-sum", "index-by-call", "nested-id", "def-then-use", "stmt-args"}
SRUse(sh, ty) ==
  LET T == "[]" \o ty IN
  CASE sh = "arg-then-call" -> <<Print1(CallE("first", <<CallE("short", <<>>), CallE("zero", <<>>)>>))>>
    [] sh = "two-slice-args" -> <<Print1(CallE("lens", <<CallE("short", <<>>), CallE("long", <<>>)>>)), Print1(CallE("lens", <<CallE("long", <<>>), CallE("short", <<>>)>>))>>
    [] sh = "call-then-arg" -> <<Print1(CallE("tail", <<CallE("zero", <<>>), CallE("long", <<>>)>>))>>
    [] sh = "def2" -> <<Def(<<"a", "b">>, <<CallE("short", <<>>), CallE("long", <<>>)>>), PrintS(<<LenE(Var("a")), LenE(Var("b")), IndexE(Var("a"), NatLit(1)), IndexE(Var("b"), NatLit(2))>>)>>
    [] sh = "asg2" -> <<VarDef(<<"a">>, T, <<>>), VarDef(<<"b">>, T, <<>>), Asg(<<"a", "b">>, <<CallE("long", <<>>), CallE("short", <<>>)>>), PrintS(<<LenE(Var("a")), LenE(Var("b"))>>)>>
    [] sh = "ret2" -> <<Def(<<"a", "b">>, <<CallE("both", <<>>)>>), PrintS(<<LenE(Var("a")), LenE(Var("b")), IndexE(Var("a"), NatLit(0)), IndexE(Var("b"), NatLit(0))>>)>>
    [] sh = "ret3" -> <<Def(<<"a", "n", "w">>, <<CallE("mixed", <<>>)>>), PrintS(<<LenE(Var("a")), Var("n"), Var("w"), IndexE(Var("a"), NatLit(2))>>)>>
    [] sh = "lens-sum" -> <<Print1(Bin("+", Bin("*", LenE(CallE("short", <<>>)), NatLit(10)), LenE(CallE("long", <<>>))))>>
    [] sh = "index-by-call" -> <<Def1("a", CallE("long", <<>>)), Print1(IndexE(Var("a"), CallE("zero", <<>>))), Print1(CallE("first", <<CallE("id", <<CallE("long", <<>>)>>), CallE("zero", <<>>)>>))>>
    [] sh = "nested-id" -> <<Print1(CallE("lens", <<CallE("id", <<CallE("short", <<>>)>>), CallE("id", <<CallE("long", <<>>)>>)>>))>>
    [] sh = "def-then-use" -> <<Def1("a", CallE("short", <<>>)), Def1("b", CallE("long", <<>>)), SetIdx("a", NatLit(0), IndexE(Var("b"), NatLit(2))), PrintS(<<LenE(Var("a")), LenE(Var("b")), IndexE(Var("a"), NatLit(0))>>)>>
    [] sh = "stmt-args" -> <<Func("show", <<Param("xs", T), Param("n", "int"), Param("ys", T)>>, <<>>, <<PrintS(<<LenE(Var("xs")), Var("n"), LenE(Var("ys"))>>)>>), ExprS(CallE("show", <<CallE("short", <<>>), CallE("zero", <<>>), CallE("long", <<>>)>>))>>
SliceRetCases == {CaseOf("C02/sliceret/" \o sh \o "/" \o ty \o "/" \o w, SRDefs(ty) \o (IF w = "top" THEN SRUse(sh, ty) ELSE <<Func("run", <<>>, <<>>, SRUse(sh, ty)), ExprS(CallE("run", <<>>)), ExprS(CallE("run", <<>>))>>))
                  : sh \in SRShapes \ {"stmt-args"}, ty \in {"int", "string"}, w \in {"top", "func"}}
                 \cup {CaseOf("C02/sliceret/stmt-args/" \o ty \o "/top", SRDefs(ty) \o SRUse("stmt-args", ty)) : ty \in {"int", "string"}}
All == SliceRetCases \cup ReDefCases \cup ArgValCases \cup BlockDefCases \cup RetFormCases \cup LoopCallCases \cup RoleCases \cup ArityCases \cup GlobalCases \cup SwapCases \cup NestCases \cup MultiCallCases
ASSUME ndJsonSerialize("fam.ndjson", SetToSeq(All))
=============================================================================
