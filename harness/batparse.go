package main

import (
	"fmt"
	"regexp"
	"strings"
)



// ---- text -> parts -----------------------------------------------------------
// lit | pct{s,tilde} | forvar{s} | bang{name:parts, hasSub, a:parts, b:parts, hasB} | caretbang
func parseParts(s string) []any {
	parts := []any{}
	lit := strings.Builder{}
	flush := func() {
		if lit.Len() > 0 {
			parts = append(parts, N{"t": "lit", "s": lit.String()})
			lit.Reset()
		}
	}
	i := 0
	for i < len(s) {
		c := s[i]
		switch {
		case c == '^' && i+1 < len(s) && s[i+1] == '!':
			lit.WriteByte('!')
			i += 2
		case c == '%':
			if i+1 < len(s) && s[i+1] == '%' {
				// %%x : for variable (letter) or literal percent
				if i+2 < len(s) && isLetter(s[i+2]) {
					flush()
					parts = append(parts, N{"t": "forvar", "s": string(s[i+2])})
					i += 3
				} else {
					lit.WriteByte('%')
					i += 2
				}
			} else if i+1 < len(s) && s[i+1] >= '0' && s[i+1] <= '9' {
				flush()
				parts = append(parts, N{"t": "pct", "s": string(s[i+1]), "arg": true, "tilde": false})
				i += 2
			} else if i+2 < len(s) && s[i+1] == '~' && s[i+2] >= '0' && s[i+2] <= '9' {
				flush()
				parts = append(parts, N{"t": "pct", "s": string(s[i+2]), "arg": true, "tilde": true})
				i += 3
			} else if j := strings.IndexByte(s[i+1:], '%'); j > 0 {
				flush()
				parts = append(parts, N{"t": "pct", "s": s[i+1 : i+1+j], "arg": false, "tilde": false})
				i += j + 2
			} else {
				lit.WriteByte('%')
				i++
			}
		case c == '!':
			j := strings.IndexByte(s[i+1:], '!')
			if j < 0 {
				lit.WriteByte('!')
				i++
				break
			}
			flush()
			inner := s[i+1 : i+1+j]
			b := N{"t": "bang", "hasSub": false, "hasB": false, "a": []any{}, "b": []any{}}
			if k := strings.Index(inner, ":~"); k >= 0 {
				b["hasSub"] = true
				sub := inner[k+2:]
				inner = inner[:k]
				if cpos := strings.IndexByte(sub, ','); cpos >= 0 {
					b["hasB"] = true
					b["a"] = parseParts(sub[:cpos])
					b["b"] = parseParts(sub[cpos+1:])
				} else {
					b["a"] = parseParts(sub)
				}
			}
			b["name"] = parseParts(inner)
			parts = append(parts, b)
			i += j + 2
		default:
			lit.WriteByte(c)
			i++
		}
	}
	flush()
	return parts
}
func isLetter(c byte) bool { return (c >= 'a' && c <= 'z') || (c >= 'A' && c <= 'Z') }

// ---- commands ----------------------------------------------------------------
var reSet = regexp.MustCompile(`^set "([^=]*)=(.*)"$`)
var reSetBare = regexp.MustCompile(`^set ([A-Za-z_][A-Za-z0-9_]*)=(.*)$`)
var reSetA = regexp.MustCompile(`^set /A "([A-Za-z_0-9]+)=(.*)"$`)
var reBatCall = regexp.MustCompile(`^call :(\S+)\s*(.*)$`)
var reBatGoto = regexp.MustCompile(`^goto :?(\S+)$`)
var reForStr = regexp.MustCompile(`^for /f "delims=" %%([a-z]) in \("(.*)"\) do (.*)$`)
var reIfDefined = regexp.MustCompile(`^if defined (\S+) (.*)$`)
var reCmp = regexp.MustCompile(`^if (\S+) (equ|neq|lss|leq|gtr|geq) (\S+) (.*)$`)
var reCmpQ = regexp.MustCompile(`^if "(.*?)" (equ|neq|lss|leq|gtr|geq) "(.*?)" (.*)$`)

func unsupported(s string) N { return N{"op": "unsupported", "text": s} }

// splitParen: s starts with "(" ; returns inside of the balanced parens and the rest
func splitParen(s string) (string, string, bool) {
	depth := 0
	inq := false
	for i := 0; i < len(s); i++ {
		switch s[i] {
		case '"':
			inq = !inq
		case '(':
			if !inq {
				depth++
			}
		case ')':
			if !inq {
				depth--
				if depth == 0 {
					return s[1:i], strings.TrimSpace(s[i+1:]), true
				}
			}
		}
	}
	return "", "", false
}

// parse the "(then) else rest" / "cmd" tail of a one-line if
func parseIfTail(tail string) (thenC []any, elseC []any, ok bool) {
	tail = strings.TrimSpace(tail)
	if strings.HasPrefix(tail, "(") {
		in, rest, ok := splitParen(tail)
		if !ok {
			return nil, nil, false
		}
		thenC = []any{parseSimple(in)}
		elseC = []any{}
		if strings.HasPrefix(rest, "else ") {
			elseC = []any{parseSimple(strings.TrimSpace(rest[5:]))}
		} else if rest != "" {
			return nil, nil, false
		}
		return thenC, elseC, true
	}
	return []any{parseSimple(tail)}, []any{}, true
}

func parseArith(s string) N {
	// recursive descent over a template-level expression: operands are runs without operators/parens
	p := &arith{s: s}
	e := p.expr()
	if p.i != len(p.s) || p.bad {
		return N{"k": "bad", "text": s}
	}
	return e
}

type arith struct {
	s   string
	i   int
	bad bool
}

func (p *arith) peek() byte {
	if p.i < len(p.s) {
		return p.s[p.i]
	}
	return 0
}
func (p *arith) expr() N {
	l := p.term()
	for p.peek() == '+' || p.peek() == '-' {
		op := string(p.peek())
		p.i++
		r := p.term()
		l = N{"k": "bin", "op": op, "l": l, "r": r}
	}
	return l
}
func (p *arith) term() N {
	l := p.unary()
	for {
		c := p.peek()
		if c == '*' || c == '/' {
			p.i++
			l = N{"k": "bin", "op": string(c), "l": l, "r": p.unary()}
		} else if c == '%' && p.i+1 < len(p.s) && p.s[p.i+1] == '%' {
			p.i += 2
			l = N{"k": "bin", "op": "%", "l": l, "r": p.unary()}
		} else {
			return l
		}
	}
}
func (p *arith) unary() N {
	if p.peek() == '-' {
		p.i++
		return N{"k": "neg", "e": p.unary()}
	}
	if p.peek() == '(' {
		p.i++
		e := p.expr()
		if p.peek() != ')' {
			p.bad = true
		}
		p.i++
		return e
	}
	// operand: up to next operator/paren, but keep !...! and %n intact
	st := p.i
	for p.i < len(p.s) {
		c := p.s[p.i]
		if c == '!' {
			j := strings.IndexByte(p.s[p.i+1:], '!')
			if j < 0 {
				p.bad = true
				break
			}
			p.i += j + 2
			continue
		}
		if c == '%' && p.i+1 < len(p.s) && p.s[p.i+1] != '%' {
			// %n or %name%
			if p.s[p.i+1] >= '0' && p.s[p.i+1] <= '9' {
				p.i += 2
				continue
			}
			j := strings.IndexByte(p.s[p.i+1:], '%')
			if j < 0 {
				p.bad = true
				break
			}
			p.i += j + 2
			continue
		}
		if strings.IndexByte("+-*/%()", c) >= 0 {
			break
		}
		p.i++
	}
	if st == p.i {
		p.bad = true
	}
	return N{"k": "opnd", "parts": parseParts(p.s[st:p.i])}
}

func parseSimple(s string) N {
	s = strings.TrimSpace(s)
	switch {
	case s == "@echo off", s == "setlocal EnableDelayedExpansion", s == "setlocal", s == "rem", strings.HasPrefix(s, "rem "), strings.HasPrefix(s, "::"):
		return N{"op": "nop"}
	case s == "exit /B":
		return N{"op": "exitb", "hasCode": false, "code": []any{}}
	case strings.HasPrefix(s, "endlocal & exit /B "):
		return N{"op": "exitb", "hasCode": true, "code": parseParts(strings.TrimPrefix(s, "endlocal & exit /B "))}
	case s == "echo.":
		return N{"op": "echo", "dot": true, "text": []any{}}
	case strings.HasPrefix(s, "echo "):
		return N{"op": "echo", "dot": false, "text": parseParts(s[5:])}
	}
	if m := reSetA.FindStringSubmatch(s); m != nil {
		return N{"op": "seta", "name": m[1], "expr": parseArith(m[2])}
	}
	if m := reSet.FindStringSubmatch(s); m != nil {
		return N{"op": "set", "name": parseParts(m[1]), "value": parseParts(m[2])}
	}
	if m := reSetBare.FindStringSubmatch(s); m != nil {
		return N{"op": "set", "name": parseParts(m[1]), "value": parseParts(m[2])}
	}
	if m := reBatGoto.FindStringSubmatch(s); m != nil {
		return N{"op": "goto", "label": m[1]}
	}
	if m := reBatCall.FindStringSubmatch(s); m != nil {
		args := []any{}
		for _, a := range splitArgs(m[2]) {
			args = append(args, parseParts(a))
		}
		return N{"op": "call", "label": m[1], "args": args}
	}
	if m := reForStr.FindStringSubmatch(s); m != nil {
		return N{"op": "forf", "var": m[1], "src": parseParts(m[2]), "body": []any{parseSimple(m[3])}}
	}
	if strings.HasPrefix(s, "if ") {
		return parseIf(s, nil, nil, true)
	}
	return unsupported(s)
}

// splitArgs splits call arguments at blanks outside quotes
func splitArgs(s string) []string {
	out := []string{}
	cur := strings.Builder{}
	inq := false
	for i := 0; i < len(s); i++ {
		c := s[i]
		if c == '"' {
			inq = !inq
		}
		if c == ' ' && !inq {
			if cur.Len() > 0 {
				out = append(out, cur.String())
				cur.Reset()
			}
			continue
		}
		cur.WriteByte(c)
	}
	if cur.Len() > 0 {
		out = append(out, cur.String())
	}
	return out
}

// parseIf parses an if header; if oneLine, the tail holds the commands; otherwise then/else are supplied
func parseIf(s string, thenC []any, elseC []any, oneLine bool) N {
	mk := func(cond N, tail string) N {
		if oneLine {
			t, e, ok := parseIfTail(tail)
			if !ok {
				return unsupported(s)
			}
			thenC, elseC = t, e
		}
		cond["op"] = "if"
		cond["then"] = thenC
		cond["else"] = elseC
		if _, has := cond["neg"]; !has {
			cond["neg"] = false
		}
		return cond
	}
	// if not <condition> ... : the negated form of any condition
	if strings.HasPrefix(s, "if not ") {
		c := parseIf("if "+strings.TrimPrefix(s, "if not "), thenC, elseC, oneLine)
		if c["op"] == "if" {
			c["neg"] = !c["neg"].(bool)
		}
		return c
	}
	if m := reIfDefined.FindStringSubmatch(s); m != nil {
		return mk(N{"kind": "defined", "var": m[1], "l": []any{}, "r": []any{}, "cmp": "", "q": false}, m[2])
	}
	if m := reCmpQ.FindStringSubmatch(s); m != nil {
		return mk(N{"kind": "cmp", "var": "", "l": parseParts(m[1]), "cmp": m[2], "r": parseParts(m[3]), "q": true}, m[4])
	}
	if m := reCmp.FindStringSubmatch(s); m != nil {
		return mk(N{"kind": "cmp", "var": "", "l": parseParts(m[1]), "cmp": m[2], "r": parseParts(m[3]), "q": false}, m[4])
	}
	return unsupported(s)
}

// ---- script -> units indexed by physical line -----------------------------------
type batParser struct {
	lines []string
}

func opensBlock(s string) bool {
	return (strings.HasPrefix(s, "if ") || strings.HasPrefix(s, "for ")) && strings.HasSuffix(s, "(") && !strings.HasSuffix(s, "^(")
}

// parseBlockBody parses lines from i until the matching close of the current block.
// returns commands, index of the terminating line (")", ") else (" or ") else if ... ("), and that line's text
func (p *batParser) parseBlockBody(i int) ([]any, int, string) {
	cmds := []any{}
	for i < len(p.lines) {
		s := strings.TrimSpace(p.lines[i])
		if s == ")" || strings.HasPrefix(s, ") else") {
			return cmds, i, s
		}
		c, next := p.parseUnit(i)
		cmds = append(cmds, c)
		i = next
	}
	return cmds, i, ""
}

// parseUnit parses the unit starting at line i; returns command and the index after the unit
func (p *batParser) parseUnit(i int) (N, int) {
	s := strings.TrimSpace(p.lines[i])
	if s == "" {
		return N{"op": "nop"}, i + 1
	}
	if s == "(set LF=^" {
		return N{"op": "setlf"}, i + 3
	}
	if strings.HasPrefix(s, "::") {
		return N{"op": "nop"}, i + 1
	}
	if strings.HasPrefix(s, ":") {
		name := strings.Fields(s[1:])[0]
		return N{"op": "label", "name": name}, i + 1
	}
	if s == ")" {
		return N{"op": "strayclose"}, i + 1
	}
	if strings.HasPrefix(s, ") else") {
		return N{"op": "strayelse"}, i + 1
	}
	if !opensBlock(s) {
		return parseSimple(s), i + 1
	}
	header := strings.TrimSpace(strings.TrimSuffix(s, "("))
	if strings.HasPrefix(header, "for ") {
		body, end, _ := p.parseBlockBody(i + 1)
		if m := regexp.MustCompile(`^for /f "delims=" %%([a-z]) in \("(.*)"\) do$`).FindStringSubmatch(header); m != nil {
			return N{"op": "forf", "var": m[1], "src": parseParts(m[2]), "body": body}, end + 1
		}
		return unsupported(s), end + 1
	}
	// if ... ( with possible else-if chain
	thenC, end, term := p.parseBlockBody(i + 1)
	elseC := []any{}
	next := end + 1
	if strings.HasPrefix(term, ") else if ") {
		// nested if header on the terminator line
		sub := strings.TrimSpace(strings.TrimSuffix(strings.TrimPrefix(term, ") else "), "("))
		// build by temporarily parsing the rest as an if-unit starting at 'end' with header 'sub'
		c, n := p.parseIfChain(sub, end)
		elseC = []any{c}
		next = n
	} else if term == ") else (" {
		e, end2, _ := p.parseBlockBody(end + 1)
		elseC = e
		next = end2 + 1
	}
	return parseIf(header+" X", thenC, elseC, false), next
}

func (p *batParser) parseIfChain(header string, headerLine int) (N, int) {
	thenC, end, term := p.parseBlockBody(headerLine + 1)
	elseC := []any{}
	next := end + 1
	if strings.HasPrefix(term, ") else if ") {
		sub := strings.TrimSpace(strings.TrimSuffix(strings.TrimPrefix(term, ") else "), "("))
		c, n := p.parseIfChain(sub, end)
		elseC = []any{c}
		next = n
	} else if term == ") else (" {
		e, end2, _ := p.parseBlockBody(end + 1)
		elseC = e
		next = end2 + 1
	}
	return parseIf(header+" X", thenC, elseC, false), next
}

// ParseScript returns one entry per physical line: {cmd, next}
func ParseScript(text string) []any {
	text = strings.ReplaceAll(text, "\r\n", "\n")
	lines := strings.Split(text, "\n")
	if len(lines) > 0 && lines[len(lines)-1] == "" {
		lines = lines[:len(lines)-1]
	}
	p := &batParser{lines: lines}
	out := []any{}
	for i := range lines {
		c, next := p.parseUnit(i)
		out = append(out, N{"cmd": c, "next": next + 1, "text": fmt.Sprint(lines[i])}) // 1-based next line
	}
	return out
}
