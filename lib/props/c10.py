"""C10 - Program behaviour is independent of how identifiers are spelled."""
import collections

import batflow
from props import c09
import progflow
from vlib import Infra

RULE = ("direction A: TLC enumerates spec/FamC10.tla: 12 base programs covering every construct that makes the back-ends allocate names (temporaries, return and argument registers, loop "
        "flags, slice storage and helpers, string helpers, mangled locals, multi-assignment buffers, file and command builtins) x each user identifier x each of 60 variable names / 23 "
        "function names that the back-ends reserve for themselves or inherit from the shell (_h0, _rv0, _fa0, _fv0, _dvc, _ret, _i, _len, _ma0, f1_x, _sah, _ech, echo, eval, PATH, IFS, "
        "...), case-only variants and rotations of the program's own names; the renamed program is spec/Rename.tla applied by TLC. The real pipeline must either behave as TshDyn "
        "prescribes for the renamed program (Bash run validated by TLC) or refuse to transpile. Alpha invariance of the specification (the expectation of every renaming equals the "
        "expectation of its base) is checked on every case. Batch side: for every renamed program without file/command builtins the REAL Batch converter's script is parsed into units "
        "and executed by TLC under spec/CmdExe.tla, in which variable names and labels fold letter case (R4, R7); stdout and status must equal the reference. The catalogue holds the "
        "Batch back-end's own names in both cases (_E, _LEN, lf, F1_SUM, _SAH, ...), every pair of variables and both functions of a program spelled alike up to case. "
        "Across files (spec/FamC10Imp.tla): the importing file's globals, functions, parameters and locals - and a second or a transitively imported file's private names - spelled "
        "like an import's private and public names; linked by TshModules, Bash run validated against TshDyn, all spellings of a group must have one expectation. "
        "Distinct = distinct renamed source text.")
ASSUME = ["a renaming that the transpiler refuses with an error satisfies the property", "there is no cmd.exe in the sandbox: the Batch script runs under spec/CmdExe.tla (rules R1-R12), which states that set/!name!/labels are case-insensitive"]


TSH_WORDS = set("if else for func return var switch case default break continue import range true false nil int string bool error print len itoa copy exists read write input panic".split())
SHELL_WORDS = set("local echo printf eval read cat test if then else elif fi for do done while case esac in return exit set call goto rem equ neq lss leq gtr geq defined not exist setlocal "
                  "endlocal enabledelayedexpansion errorlevel delims tokens cmd off on nul".split())


def user_names(node, acc):
    """identifiers of variables and parameters in a program (the names Rename.tla maps through rho.v)"""
    if isinstance(node, dict):
        k = node.get("k")
        if k == "var":
            acc.add(node["name"])
        elif k in ("define", "assign"):
            acc.update(node["names"])
        elif k in ("compound", "incdec", "setidx"):
            acc.add(node["name"])
        elif k == "range":
            acc.add(node["i"])
            if node.get("v"):
                acc.add(node["v"])
        elif k == "copy":
            acc.add(node["dst"])
        elif k == "func":
            acc.update(p["name"] for p in node["params"])
        for v in node.values():
            user_names(v, acc)
    elif isinstance(node, list):
        for v in node:
            user_names(v, acc)


def rename(node, old, new):
    """the program with the variable `old` spelled `new` (spec/Rename.tla with rho.v = old :> new)"""
    if isinstance(node, list):
        return [rename(v, old, new) for v in node]
    if not isinstance(node, dict):
        return node
    d = {k: rename(v, old, new) for k, v in node.items()}
    k = node.get("k")
    m = lambda n: new if n == old else n
    if k == "var" or k in ("compound", "incdec", "setidx"):
        d["name"] = m(node["name"])
    elif k in ("define", "assign"):
        d["names"] = [m(n) for n in node["names"]]
    elif k == "range":
        d["i"], d["v"] = m(node["i"]), m(node.get("v", ""))
    elif k == "copy":
        d["dst"] = m(node["dst"])
    elif k == "func":
        d["params"] = [dict(p, name=m(p["name"])) for p in node["params"]]
    return d


def derived_cases(ctx, bases):
    """Names taken from the EMITTED scripts of the base programs: whatever a back-end writes into the script's name space - under any naming scheme, also one that
    builds hidden names from the user's own (round 15: `_rs_<index variable>`) - is tried as the spelling of every user variable of that program."""
    import re
    res = progflow.validate(ctx, bases, "bases0")
    keep = [(c, v) for cid, (c, v) in sorted(res.items()) if c["obs"].get("accepted") and "world" not in c["prog"]]
    bat, _ = batflow.run_cmd(ctx, keep, tag="bases0bat")
    out = []
    for cid, (c, v) in sorted(res.items()):
        users = set()
        user_names(c["prog"], users)
        text = c.get("script", "") + "\n" + (bat.get(cid, {}).get("bat") or "")
        found = set(re.findall(r"(?:^|[\s;(\"])(?:local\s+|set\s+(?:/[AaPp]\s+)?\"?)?([A-Za-z_][A-Za-z0-9_]*)(?:\[[^\]=]*\])?\+?=", text, re.M))
        found |= set(re.findall(r"\$\{?#?([A-Za-z_][A-Za-z0-9_]*)", text)) | set(re.findall(r"!([A-Za-z_][A-Za-z0-9_]*)[:!]", text))
        names = set()
        for n in found:
            for cand in (n, re.sub(r"^[fF]\d+_", "", n)):
                if cand and cand not in users and cand.lower() not in TSH_WORDS and cand.lower() not in SHELL_WORDS and re.fullmatch(r"[A-Za-z_][A-Za-z0-9_]*", cand):
                    names.add(cand)
        # one representative per numbered scheme (_h0 for _h0 ... _h17)
        stems = {}
        for n in sorted(names):
            m = re.fullmatch(r"(.*?)(\d+)", n)
            key = m.group(1) + "#" if m else n
            if key not in stems or (m and int(m.group(2)) < int(re.fullmatch(r"(.*?)(\d+)", stems[key]).group(2))):
                stems[key] = n
        for n in sorted(stems.values()):
            for u in sorted(users):
                d = {"id": "C10/%s/derived-%s/%s" % (c["base"], u, n), "base": c["base"], "prog": rename(c["prog"], u, n)}
                if "check" in c:
                    d["check"] = c["check"]
                out.append(d)
        ctx.notes.setdefault("derived_names", {})[c["base"]] = sorted(stems.values())
    return out


def run(ctx):
    fam = ctx.tlc_family("FamC10", constants={"Tier": '"%s"' % ctx.tier}, timeout=3000)
    ctx.exhaustive["FamC10"] = True
    derived = derived_cases(ctx, [c for c in fam if "/base/base" in c["id"]])
    if ctx.tier == "quick":
        fam.sort(key=lambda c: c["id"])
        keep = [c for i, c in enumerate(fam) if i % 3 == 0 or "/base/" in c["id"] or "/case/" in c["id"] or "/rotate/" in c["id"] or "/fn-" in c["id"] or "/compose/" in c["id"] or "/fnshape/" in c["id"] or "/shape2/" in c["id"] or ("/shape/" in c["id"] and i % 2 == 0) or "/writeonly/" in c["id"] or "/samelocal/" in c["id"] or "/numpair/" in c["id"]]
        ctx.exhaustive["FamC10"] = False
        fam = keep
    fam = fam + derived
    res = progflow.validate(ctx, fam, "fam")
    base_out = {}
    for cid, (c, v) in res.items():
        if "/base/base" in cid:
            base_out[c["base"]] = (v["out"], v["code"])
    bad = []
    for cid, (c, v) in res.items():
        ctx.evaluations += 1
        if v["st"].startswith("stuck") or v["st"].startswith("undef") or v["st"] == "diverge":
            raise Infra("renamed program %s is not in the defined fragment: %s" % (cid, v["st"]))
        if (v["out"], v["code"]) != base_out[c["base"]]:
            raise Infra("the specification is not alpha-invariant on %s: %r vs base %r" % (cid, v["out"], base_out[c["base"]][0]))
        if not c["obs"].get("accepted"):
            ctx.dropped["refused-by-transpiler"] = ctx.dropped.get("refused-by-transpiler", 0) + 1
            continue
        ctx.traces_validated += 1
        ctx.distinct.add(c["src"])
        if len(ctx.samples) < 5 and ctx.traces_validated % 173 == 1:
            ctx.samples.append({"id": cid, "source": c["src"], "expected_stdout": v["out"], "observed_stdout": c["obs"]["out"]})
        if not v["ok"]:
            bad.append((c, v, progflow.signature(c, v)))
    progflow.report(ctx, bad)
    # Batch side: the REAL Batch converter's script for the renamed program under spec/CmdExe.tla, where variable names and labels fold case
    keep = [(c, v) for cid, (c, v) in sorted(res.items()) if c["obs"].get("accepted") and "world" not in c["prog"] and batflow.neutral(c["src"]) and v["st"] in ("done", "exit1")]
    if ctx.tier == "quick":
        keep = [(c, v) for i, (c, v) in enumerate(keep) if i % 2 == 0 or "/case/" in c["id"] or "/base/" in c["id"] or "/fncase/" in c["id"]]
    bat, by = batflow.run_cmd(ctx, keep)
    nbat = 0
    for c, v in keep:
        r = by.get(c["id"])
        if r is None:
            continue
        ctx.evaluations += 1
        if batflow.judge(ctx, c, v, bat[c["id"]], r, tag="@batch"):
            nbat += 1
            ctx.traces_validated += 1
    batflow.check_blind(ctx, len(keep))
    # across file boundaries (spec/FamC10Imp.tla): the importing file, or a second import, spells its names like an import's private and public names
    imp = ctx.tlc_family("FamC10Imp", constants={"Tier": '"%s"' % ctx.tier}, timeout=3000)
    res = c09.judge_cases(ctx, imp, tag="imp")
    groups = {}
    for cid, (c, v) in res.items():
        g = cid.split("/")[2]
        groups.setdefault("one" if g in ("one", "all", "base") else g, set()).add((v["out"], v["code"]))
    for g, outs in groups.items():
        if len(outs) != 1:
            raise Infra("the specification is not alpha-invariant on the import family %s: %d different expectations" % (g, len(outs)))
    if len(res) < len(imp):
        raise Infra("import family: %d of %d programs were not linked, accepted and run" % (len(imp) - len(res), len(imp)))
    return ctx.finish(rule=RULE, assumptions=ASSUME, extra={"batch_runs_compared": nbat, "notes": ctx.notes})
