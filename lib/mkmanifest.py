#!/usr/bin/env python3
"""Regenerates MANIFEST.json from lib/manifest_data.py (claimed checks) and properties.jsonl."""
import json
import os
import sys

HERE = os.path.dirname(os.path.abspath(__file__))
sys.path.insert(0, HERE)
import manifest_data as md  # noqa: E402

VERIF = os.path.dirname(HERE)
props = [json.loads(l) for l in open(os.path.join(VERIF, "properties.jsonl")) if l.strip()]
checks = []
na = []
for p in props:
    pid = p["id"]
    if pid in md.CHECKS:
        c = md.CHECKS[pid]
        checks.append({
            "property_id": pid,
            "quick_cmd": "bin/check %s quick" % pid,
            "thorough_cmd": "bin/check %s thorough" % pid,
            "evidence_file": "/verif/evidence/%s.json" % pid,
            "replay_cmd_template": "bin/check %s --replay {path}" % pid,
            "engine": c.get("engine", "tlc+vh"),
            "level_claimed": {"category": "model_checking", "text": c["text"], "design_ref": c.get("design_ref", "DESIGN.md section 5")},
            "level_note": c["note"],
            "technique": c["technique"],
        })
    else:
        na.append({"property_id": pid, "reason": md.NOT_APPLICABLE.get(pid, "check not built yet in this round; see DESIGN.md section 5 for the plan")})
m = {
    "version": 1,
    "setup_cmd": "bin/setup",
    "hooks": {
        "guard": "verif",
        "enable": "go build -tags verif (the harness is built with the tag; no hook is needed so far: everything observed is reachable through exported API)",
        "baseline_off_cmd": "cd /repo && GOFLAGS=-mod=mod GOPROXY=off go test -json -vet=off -count=1 -timeout 25m ./...",
        "source_commits": [],
        "add_only": True,
    },
    "engines": [
        {"name": "tlc+vh", "path": "/verif/bin/check", "serves_properties": sorted(md.CHECKS),
         "kind_free_text": "explicit TLA+ specifications in /verif/spec checked by TLC 1.8; conformance by trace validation of runs of the real transpiler, /bin/bash and tsh recorded by the Go harness /verif/harness (vh), and by replay of TLC-enumerated families into the real code"},
    ],
    "checks": checks,
    "not_applicable": na,
    "notes": md.NOTES,
}
json.dump(m, open(os.path.join(VERIF, "MANIFEST.json"), "w"), indent=1)
print("MANIFEST.json: %d checks, %d not claimed" % (len(checks), len(na)))
