------------------------------- MODULE LinkRun -------------------------------
(* Pass 1 for multi-file programs (C09): link each program with TshModules and check it with TshStatic; prints the  *)
(* verdict and, for accepted programs, the linked body that TshRun then executes.                                  *)
EXTENDS TshModules, TshStatic, Json
Cases == ndJsonDeserialize("cases.ndjson")
VARIABLE ci
Init == ci \in 1..Len(Cases)
Next == UNCHANGED ci
Spec == Init /\ [][Next]_ci
P == IF "mprog" \in DOMAIN Cases[ci] THEN Cases[ci].mprog ELSE Cases[ci].prog
LE == LinkError(P)
Body == IF LE = "" THEN Linked(P) ELSE <<>>
Rule == IF LE # "" THEN LE ELSE Check(Body)
Verdict == PrintT(ToJson([id |-> Cases[ci].id, rule |-> Rule, order |-> (IF LE = "" THEN Order(P) ELSE <<>>), body |-> (IF Rule = "" THEN Body ELSE <<>>)]))
=============================================================================
