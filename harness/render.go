package main

// Renderer: abstract syntax (the JSON shape of DESIGN.md Appendix C, owned by spec/TshAst.tla) -> .tsh text.
// Trusted base: this file decides nothing about meaning; it only spells the tree so that the real parser
// builds the same tree (parenthesised by precedence, nested comparisons always parenthesised).

import (
	"fmt"
	"strconv"
	"strings"
)

type N = map[string]any

func isNone(v any) bool {
	if v == nil {
		return true
	}
	n, ok := v.(N)
	return ok && n["k"] == "none"
}

func list(v any) []any {
	if v == nil {
		return nil
	}
	return v.([]any)
}

func str(v any) string {
	if v == nil {
		return ""
	}
	return v.(string)
}

func prec(e N) int {
	switch e["k"] {
	case "logic":
		if e["op"] == "||" {
			return 1
		}
		return 2
	case "cmp":
		return 3
	case "bin":
		switch e["op"] {
		case "+", "-":
			return 4
		}
		return 5
	}
	return 9
}

func quoteStr(s string, raw bool) string {
	if raw && !strings.Contains(s, "`") {
		return "`" + s + "`"
	}
	// the lexer unquotes backslash + one character through strconv.Unquote
	var b strings.Builder
	b.WriteByte('"')
	for i := 0; i < len(s); i++ {
		c := s[i]
		switch c {
		case '"':
			b.WriteString(`\"`)
		case '\\':
			b.WriteString(`\\`)
		case '\n':
			b.WriteString(`\n`)
		case '\t':
			b.WriteString(`\t`)
		case '\r':
			b.WriteString(`\r`)
		default:
			b.WriteByte(c)
		}
	}
	b.WriteByte('"')
	return b.String()
}

func rexpr(e N) string {
	switch e["k"] {
	case "int":
		return e["v"].(string)
	case "bool":
		return fmt.Sprint(e["v"])
	case "str":
		raw, _ := e["raw"].(bool)
		return quoteStr(e["v"].(string), raw)
	case "nil":
		return "nil"
	case "var":
		return e["name"].(string)
	case "not":
		o := e["e"].(N)
		switch o["k"] {
		case "var", "bool", "group", "call", "exists":
			return "!" + rexpr(o)
		case "not":
			if t, _ := e["tight"].(bool); t { // lean spelling: !!x
				return "!" + rexpr(o)
			}
		}
		return "!(" + rexpr(o) + ")"
	case "group":
		return "(" + rexpr(e["e"].(N)) + ")"
	case "itoa", "len", "exists", "read":
		return e["k"].(string) + "(" + rexpr(e["e"].(N)) + ")"
	case "input":
		if isNone(e["prompt"]) {
			return "input()"
		}
		return "input(" + rexpr(e["prompt"].(N)) + ")"
	case "copy":
		return "copy(" + e["dst"].(string) + ", " + rexpr(e["src"].(N)) + ")"
	case "call":
		name := e["name"].(string)
		if a := str(e["alias"]); a != "" {
			name = a + "." + name
		}
		return name + "(" + rlist(list(e["args"])) + ")"
	case "slicelit":
		return "[]" + e["ty"].(string) + "{" + rlist(list(e["elems"])) + "}"
	case "index":
		return rexpr(e["x"].(N)) + "[" + rexpr(e["i"].(N)) + "]"
	case "substr":
		lo, hi := "", ""
		if !isNone(e["lo"]) {
			lo = rexpr(e["lo"].(N))
		}
		if !isNone(e["hi"]) {
			hi = rexpr(e["hi"].(N))
		}
		return rexpr(e["x"].(N)) + "[" + lo + ":" + hi + "]"
	case "app":
		parts := []string{}
		for _, st := range list(e["chain"]) {
			s := st.(N)
			name := s["name"].(string)
			if lit, _ := s["lit"].(bool); lit {
				raw, _ := s["raw"].(bool)
				name = quoteStr(name, raw)
			}
			parts = append(parts, "@"+name+"("+rlist(list(s["args"]))+")")
		}
		return strings.Join(parts, " | ")
	case "bin", "cmp", "logic":
		p := prec(e)
		l, r := rexpr(e["l"].(N)), rexpr(e["r"].(N))
		tight, _ := e["tight"].(bool)
		if lp := prec(e["l"].(N)); lp < p || (lp == p && p == 3 && !tight) {
			l = "(" + l + ")"
		}
		if rp := prec(e["r"].(N)); rp <= p {
			r = "(" + r + ")"
		}
		if tight { // lean spelling: no blanks around the operator (kept in front of a minus sign: a--1 and a<-1 are other tokens)
			if strings.HasPrefix(r, "-") {
				return l + e["op"].(string) + " " + r
			}
			return l + e["op"].(string) + r
		}
		return l + " " + e["op"].(string) + " " + r
	case "rawtext": // verbatim source text, used by the static families to plug arbitrary operand spellings
		return e["text"].(string)
	}
	panic("rexpr: unknown kind " + fmt.Sprint(e["k"]))
}

func rlist(es []any) string {
	s := []string{}
	for _, e := range es {
		s = append(s, rexpr(e.(N)))
	}
	return strings.Join(s, ", ")
}

func names(ns []any) string {
	s := []string{}
	for _, n := range ns {
		s = append(s, n.(string))
	}
	return strings.Join(s, ", ")
}

func rsimple(s N) string {
	switch s["k"] {
	case "define":
		if s["form"] == "short" {
			return names(list(s["names"])) + " := " + rlist(list(s["values"]))
		}
		r := "var " + names(list(s["names"]))
		if str(s["ty"]) != "" {
			r += " " + s["ty"].(string)
		}
		if len(list(s["values"])) > 0 {
			r += " = " + rlist(list(s["values"]))
		}
		return r
	case "assign":
		return names(list(s["names"])) + " = " + rlist(list(s["values"]))
	case "compound":
		return s["name"].(string) + " " + s["op"].(string) + "= " + rexpr(s["value"].(N))
	case "incdec":
		if s["inc"].(bool) {
			return s["name"].(string) + "++"
		}
		return s["name"].(string) + "--"
	case "none":
		return ""
	}
	panic("rsimple: " + fmt.Sprint(s["k"]))
}

func rblock(b *strings.Builder, ss []any, ind string) {
	for _, s := range ss {
		rstmt(b, s.(N), ind)
	}
}

func rstmt(b *strings.Builder, s N, ind string) {
	switch s["k"] {
	case "define", "assign", "compound", "incdec":
		b.WriteString(ind + rsimple(s) + "\n")
	case "setidx":
		b.WriteString(ind + s["name"].(string) + "[" + rexpr(s["i"].(N)) + "] = " + rexpr(s["v"].(N)) + "\n")
	case "print":
		b.WriteString(ind + "print(" + rlist(list(s["args"])) + ")\n")
	case "panic":
		b.WriteString(ind + "panic(" + rexpr(s["e"].(N)) + ")\n")
	case "write":
		b.WriteString(ind + "write(" + rexpr(s["path"].(N)) + ", " + rexpr(s["data"].(N)))
		if !isNone(s["append"]) {
			b.WriteString(", " + rexpr(s["append"].(N)))
		}
		b.WriteString(")\n")
	case "expr":
		b.WriteString(ind + rexpr(s["e"].(N)) + "\n")
	case "break", "continue":
		b.WriteString(ind + s["k"].(string) + "\n")
	case "return":
		if len(list(s["values"])) == 0 {
			b.WriteString(ind + "return\n")
		} else {
			b.WriteString(ind + "return " + rlist(list(s["values"])) + "\n")
		}
	case "rawline": // verbatim line(s), used by static families
		b.WriteString(ind + s["text"].(string) + "\n")
	case "if":
		for i, br := range list(s["branches"]) {
			brn := br.(N)
			if i == 0 {
				b.WriteString(ind + "if " + rexpr(brn["cond"].(N)) + " {\n")
			} else {
				b.WriteString(ind + "} else if " + rexpr(brn["cond"].(N)) + " {\n")
			}
			rblock(b, list(brn["body"]), ind+"\t")
		}
		if els := list(s["else"]); len(els) > 0 {
			b.WriteString(ind + "} else {\n")
			rblock(b, els, ind+"\t")
		}
		b.WriteString(ind + "}\n")
	case "switch":
		if isNone(s["tag"]) {
			b.WriteString(ind + "switch {\n")
		} else {
			b.WriteString(ind + "switch " + rexpr(s["tag"].(N)) + " {\n")
		}
		cases := list(s["cases"])
		def := list(s["default"])
		hasDef, _ := s["hasDefault"].(bool)
		defAt := len(cases)
		if v, ok := s["defaultAt"].(float64); ok {
			defAt = int(v)
		}
		emitDef := func() {
			if hasDef || len(def) > 0 {
				b.WriteString(ind + "default:\n")
				rblock(b, def, ind+"\t")
			}
		}
		for i, c := range cases {
			if i == defAt {
				emitDef()
			}
			cn := c.(N)
			b.WriteString(ind + "case " + rexpr(cn["e"].(N)) + ":\n")
			rblock(b, list(cn["body"]), ind+"\t")
		}
		if defAt >= len(cases) {
			emitDef()
		}
		b.WriteString(ind + "}\n")
	case "for":
		switch s["form"] {
		case "three":
			init, post, cond := "", "", ""
			if !isNone(s["init"]) {
				init = rsimple(s["init"].(N))
			}
			if !isNone(s["post"]) {
				post = rsimple(s["post"].(N))
			}
			if !isNone(s["cond"]) {
				cond = rexpr(s["cond"].(N))
			}
			h := "for " + init + "; " + cond + ";"
			if post != "" {
				h += " " + post
			}
			b.WriteString(ind + h + " {\n")
		case "cond":
			b.WriteString(ind + "for " + rexpr(s["cond"].(N)) + " {\n")
		default:
			b.WriteString(ind + "for {\n")
		}
		rblock(b, list(s["body"]), ind+"\t")
		b.WriteString(ind + "}\n")
	case "range":
		h := "for " + s["i"].(string)
		if v := str(s["v"]); v != "" {
			h += ", " + v
		}
		b.WriteString(ind + h + " := range " + rexpr(s["x"].(N)) + " {\n")
		rblock(b, list(s["body"]), ind+"\t")
		b.WriteString(ind + "}\n")
	case "func":
		ps := []string{}
		for _, p := range list(s["params"]) {
			pn := p.(N)
			ps = append(ps, pn["name"].(string)+" "+pn["ty"].(string))
		}
		h := "func " + s["name"].(string) + "(" + strings.Join(ps, ", ") + ")"
		rs := list(s["results"])
		// a function without parameters may be written without the brackets: func name [type] {
		if bare, _ := s["bare"].(bool); bare && len(ps) == 0 && len(rs) <= 1 {
			h = "func " + s["name"].(string)
		}
		if len(rs) == 1 {
			h += " " + rs[0].(string)
		} else if len(rs) > 1 {
			h += " (" + names(rs) + ")"
		}
		b.WriteString(ind + h + " {\n")
		rblock(b, list(s["body"]), ind+"\t")
		b.WriteString(ind + "}\n")
	default:
		panic("rstmt: unknown kind " + fmt.Sprint(s["k"]))
	}
}

// renderFile renders one file: imports (if any) followed by the body.
func renderFile(imports []any, body []any) string {
	var b strings.Builder
	if len(imports) == 1 {
		im := imports[0].(N)
		b.WriteString("import ")
		if a := str(im["alias"]); a != "" {
			b.WriteString(a + " ")
		}
		b.WriteString(strconv.Quote(im["path"].(string)) + "\n")
	} else if len(imports) > 1 {
		b.WriteString("import (\n")
		for _, i := range imports {
			im := i.(N)
			b.WriteString("\t")
			if a := str(im["alias"]); a != "" {
				b.WriteString(a + " ")
			}
			b.WriteString(strconv.Quote(im["path"].(string)) + "\n")
		}
		b.WriteString(")\n")
	}
	rblock(&b, body, "")
	return b.String()
}
