package main

// Random programs over the outside world (direction B for C17 and C18): histories of write / append / read / exists over a few
// paths, input(), command calls and pipelines of the probe programs, inside loops, branches and functions.  Only the alphabet that
// is free of recorded findings is used (no double quote, $, backquote, backslash; no literal argument that needs quoting other
// than for blanks).  The expectation comes from spec/TshDyn.tla (fs, alog, stdout).

import (
	"fmt"
	"math/rand"
	"strconv"
	"strings"
)

type wgen struct {
	r       *rand.Rand
	kind    string // "files" | "cmds"
	n       int    // fresh-name counter
	strs    []string
	bools   []string
	ints    []string
	inputs  int
	inFunc  bool
	depth   int
	cmdSeen bool
}

var wPaths = []string{"a.txt", "b.txt", "my file.txt", "sub/c.txt", "d e f.log"}
var wWords = []string{"one", "two words", "x=1", "tail ", " lead", "a  b", "k:v", "it-is", "7", "0", "end.", "UP low", "-n", "a,b"}
var wArgs = []string{"plain", "two words", "-x", "k=v", "a  b", " lead", "x7", "x0", "x3", "x255", "file.txt", "7", "A_b", "-n", "--", "a,b", "a:b", "a.b", "+1", "@at", "%p", "a/b"}
var wProgs = []string{"pa", "pb", "pc", "tool-x", "my.cmd"}

func sl(s string) N   { return N{"k": "str", "v": s, "raw": false} }
func bl(b bool) N     { return N{"k": "bool", "v": b} }

func prn(a ...any) N  { return N{"k": "print", "args": a} }
func cat(a, b N) N    { return N{"k": "bin", "op": "+", "l": a, "r": b} }
func itoaE(e N) N     { return N{"k": "itoa", "e": e} }
func def1(n string, e N) N {
	return N{"k": "define", "form": "short", "names": []any{n}, "ty": "", "values": []any{e}}
}

func (g *wgen) fresh(p string) string { g.n++; return p + strconv.Itoa(g.n) }
func (g *wgen) pick(xs []string) string { return xs[g.r.Intn(len(xs))] }

// a string expression: literal word, variable, concatenation, itoa of an int
func (g *wgen) strE(words []string) N {
	switch c := g.r.Intn(10); {
	case c < 4 || (len(g.strs) == 0 && c < 7):
		return sl(g.pick(words))
	case c < 7:
		return vr(g.pick(g.strs))
	case c < 9:
		return cat(g.strE(words), g.strE(words))
	default:
		if len(g.ints) > 0 {
			return cat(sl("n"), itoaE(vr(g.pick(g.ints))))
		}
		return cat(sl("n"), itoaE(lit(g.r.Intn(100))))
	}
}

func (g *wgen) pathE() N {
	switch c := g.r.Intn(10); {
	case c < 6:
		return sl(g.pick(wPaths))
	case c < 8 && len(g.strs) > 0:
		// a variable that certainly holds a path
		for _, s := range g.strs {
			if len(s) > 1 && s[0] == 'p' {
				return vr(s)
			}
		}
		return sl(g.pick(wPaths))
	default:
		return cat(sl("f"), cat(itoaE(lit(g.r.Intn(3))), sl(".dat")))
	}
}

func (g *wgen) boolE() N {
	switch c := g.r.Intn(10); {
	case c < 3:
		return bl(g.r.Intn(2) == 0)
	case c < 6 && len(g.bools) > 0:
		return vr(g.pick(g.bools))
	case c < 8 && len(g.ints) > 0:
		return N{"k": "cmp", "op": g.pick([]string{">", "==", "<", "!="}), "l": vr(g.pick(g.ints)), "r": lit(g.r.Intn(3))}
	case c < 9:
		return N{"k": "exists", "e": g.pathE()}
	default:
		return N{"k": "not", "e": bl(g.r.Intn(2) == 0)}
	}
}

func (g *wgen) readGuarded(p N) N {
	return N{"k": "if", "branches": []any{N{"cond": N{"k": "exists", "e": p}, "body": []any{prn(sl("["), N{"k": "read", "e": p}, sl("]"))}}},
		"else": []any{prn(sl("absent"))}}
}

func (g *wgen) stage() N {
	n := g.r.Intn(4)
	args := []any{}
	for i := 0; i < n; i++ {
		switch c := g.r.Intn(10); {
		case c < 5:
			args = append(args, sl(g.pick(wArgs)))
		case c < 7 && len(g.strs) > 0:
			args = append(args, vr(g.pick(g.strs)))
		case c < 8 && len(g.ints) > 0:
			args = append(args, itoaE(vr(g.pick(g.ints))))
		default:
			args = append(args, cat(sl(g.pick([]string{"pre-", "x", "v "})), g.strE(wWords)))
		}
	}
	name := g.pick(wProgs)
	return N{"name": name, "lit": strings.ContainsAny(name, "-."), "args": args}
}

func (g *wgen) chain() N {
	n := 1 + g.r.Intn(3)
	ch := []any{}
	for i := 0; i < n; i++ {
		ch = append(ch, g.stage())
	}
	return N{"k": "app", "chain": ch}
}

func (g *wgen) block(n int) []any {
	save := [3]int{len(g.strs), len(g.bools), len(g.ints)}
	g.depth++
	out := []any{}
	for i := 0; i < n; i++ {
		out = append(out, g.stmt()...)
	}
	g.depth--
	g.strs, g.bools, g.ints = g.strs[:save[0]], g.bools[:save[1]], g.ints[:save[2]]
	return out
}

func (g *wgen) stmt() []any {
	c := g.r.Intn(20)
	if g.depth >= 2 && c >= 14 {
		c = g.r.Intn(14)
	}
	switch {
	case c < 3: // write
		return []any{N{"k": "write", "path": g.pathE(), "data": g.strE(wWords), "append": none}}
	case c < 6: // write with flag
		return []any{N{"k": "write", "path": g.pathE(), "data": g.strE(wWords), "append": g.boolE()}}
	case c < 8:
		return []any{g.readGuarded(g.pathE())}
	case c == 8:
		return []any{prn(N{"k": "exists", "e": g.pathE()})}
	case c == 9: // new variables
		switch g.r.Intn(4) {
		case 0:
			n := g.fresh("p")
			g.strs = append(g.strs, n)
			return []any{def1(n, sl(g.pick(wPaths)))}
		case 1:
			n := g.fresh("s")
			e := g.strE(wWords)
			g.strs = append(g.strs, n)
			return []any{def1(n, e)}
		case 2:
			n := g.fresh("b")
			e := g.boolE()
			g.bools = append(g.bools, n)
			return []any{def1(n, e)}
		default:
			n := g.fresh("n")
			g.ints = append(g.ints, n)
			return []any{def1(n, lit(g.r.Intn(4)))}
		}
	case c == 10: // change a flag or a counter
		if len(g.bools) > 0 && g.r.Intn(2) == 0 {
			b := g.pick(g.bools)
			return []any{N{"k": "assign", "names": []any{b}, "values": []any{N{"k": "not", "e": vr(b)}}}}
		}
		if len(g.ints) > 0 {
			return []any{N{"k": "incdec", "name": g.pick(g.ints), "inc": true}}
		}
		return []any{prn(sl("tick"))}
	case c == 11: // read into a variable, write it elsewhere
		p := g.pathE()
		n := g.fresh("s")
		body := []any{def1(n, N{"k": "read", "e": p}), N{"k": "write", "path": g.pathE(), "data": cat(vr(n), sl("+")), "append": g.boolE()}, prn(N{"k": "len", "e": vr(n)})}
		return []any{N{"k": "if", "branches": []any{N{"cond": N{"k": "exists", "e": p}, "body": body}}, "else": []any{}}}
	case c == 12 || c == 13: // command call or input
		if g.kind == "cmds" {
			g.cmdSeen = true
			if g.r.Intn(2) == 0 {
				return []any{N{"k": "expr", "e": g.chain()}, prn(sl("after"))}
			}
			o, e, cd := g.fresh("o"), g.fresh("e"), g.fresh("c")
			st := []any{N{"k": "define", "form": "short", "names": []any{o, e, cd}, "ty": "", "values": []any{g.chain()}}, prn(sl("<"), vr(o), sl(">"), vr(cd))}
			g.strs = append(g.strs, o)
			g.ints = append(g.ints, cd)
			return st
		}
		if g.depth == 0 && !g.inFunc && g.inputs < 4 {
			g.inputs++
			n := g.fresh("s")
			g.strs = append(g.strs, n)
			pr := none
			if g.r.Intn(2) == 0 {
				pr = sl(g.pick([]string{"name: ", "> ", "value"}))
			}
			return []any{def1(n, N{"k": "input", "prompt": pr}), prn(sl("("), vr(n), sl(")"))}
		}
		return []any{prn(g.strE(wWords))}
	case c < 16: // if
		return []any{N{"k": "if", "branches": []any{N{"cond": g.boolE(), "body": g.block(1 + g.r.Intn(3))}}, "else": g.block(g.r.Intn(3))}}
	case c < 18: // counted loop
		i := g.fresh("i")
		g.ints = append(g.ints, i)
		body := g.block(1 + g.r.Intn(3))
		g.ints = g.ints[:len(g.ints)-1]
		return []any{N{"k": "for", "form": "three", "init": def1(i, lit(0)), "cond": N{"k": "cmp", "op": "<", "l": vr(i), "r": lit(1 + g.r.Intn(3))},
			"post": N{"k": "incdec", "name": i, "inc": true}, "body": body}}
	default: // a function taking a path and a flag, called twice
		if g.inFunc || g.depth > 0 {
			return []any{prn(sl("skip"))}
		}
		name := g.fresh("fn")
		save := [3][]string{g.strs, g.bools, g.ints}
		g.strs, g.bools, g.ints = []string{"pth", "txt"}, []string{"flag"}, []string{}
		g.inFunc = true
		body := g.block(2 + g.r.Intn(3))
		body = append(body, N{"k": "write", "path": vr("pth"), "data": vr("txt"), "append": vr("flag")})
		g.inFunc = false
		g.strs, g.bools, g.ints = save[0], save[1], save[2]
		f := N{"k": "func", "name": name, "params": []any{N{"name": "pth", "ty": "string"}, N{"name": "txt", "ty": "string"}, N{"name": "flag", "ty": "bool"}}, "results": []any{}, "body": body}
		call := func() N {
			return N{"k": "expr", "e": N{"k": "call", "alias": "", "name": name, "args": []any{sl(g.pick(wPaths)), g.strE(wWords), g.boolE()}}}
		}
		return []any{f, call(), call()}
	}
}

func genWorld(r *rand.Rand, kind string) N {
	g := &wgen{r: r, kind: kind}
	body := []any{}
	n := 6 + r.Intn(9)
	for k := 0; k < n; k++ {
		body = append(body, g.stmt()...)
	}
	fin := []any{}
	for _, p := range wPaths {
		fin = append(fin, N{"k": "exists", "e": sl(p)})
	}
	body = append(body, prn(fin...))
	stdin := []any{}
	lines := []string{"typed one", "  padded  ", "x=1;y", "last"}
	for i := 0; i < g.inputs; i++ {
		stdin = append(stdin, lines[i%len(lines)])
	}
	if kind == "cmds" && r.Intn(3) == 0 {
		stdin = append(stdin, "fed line", "second fed")
	}
	fs := []any{N{"path": "sub/keep", "content": "k\n"}}
	if r.Intn(2) == 0 {
		fs = append(fs, N{"path": "b.txt", "content": "old b\nline 2\n"})
	}
	return N{"body": body, "world": N{"fs": fs, "stdin": stdin}}
}

func cmdGenWorld(kind string, n int, seed int64, out string) {
	cases := []N{}
	for i := 0; i < n; i++ {
		r := rand.New(rand.NewSource(seed*1000003 + int64(i)*7919 + int64(len(kind))*31))
		cases = append(cases, N{"id": fmt.Sprintf("gen/%s/s%d/%d", kind, seed, i), "prog": genWorld(r, kind), "check": []any{"fs", "alog"}})
	}
	writeCases(out, cases)
}
