"""C18 - Command calls get exactly the given arguments; pipes and capture are exact."""
import progflow

RULE = ("direction A: TLC enumerates spec/FamC18.tla: one argument of each of 12 (thorough 20) string classes (plain, blank inside, leading dash, empty, glob, semicolon, "
        "dollar, quote, backslash, newline, tilde, repeated/leading blanks, ...) as literal / variable / computed value, as a statement and captured, at top level and in a "
        "function; every ordered pair of classes; the class in every position of 3..5 arguments; pipelines of 1..3 commands x statement/captured x 6 exit statuses of the "
        "last or first stage x top/function; sequences of calls. The callee is a probe that logs argv and stdin; TLC validates the recorded invocation log, stdout, "
        "captured output and status against TshDyn!ApplyAppCall. Direction B: seeded random programs mixing command calls (5 probe names, 22 argument words that need no quoting other than for blanks, variables, computed values, earlier captures as arguments) with file operations, loops, branches and functions. Distinct = distinct source text.")
ASSUME = ["the probe program (the harness binary under another name) reports its argv and stdin faithfully", "only the Bash target is executed; the Batch `_ach` path is covered structurally by C16"]


def run(ctx):
    fam = ctx.tlc_family("FamC18", constants={"Tier": '"%s"' % ctx.tier}, timeout=3000)
    ctx.exhaustive["FamC18"] = True
    failures = progflow.judge(ctx, fam, "fam")
    # direction B: random programs (harness/genworld.go): chains of 1-3 probes with 0-3 arguments (literals, variables, itoa, concatenations, earlier captures),
    # statements and captures mixed with file operations, in loops, branches and functions
    gen = progflow.generate(ctx, "cmds", 120 if ctx.tier == "quick" else 3000)
    failures += progflow.judge(ctx, gen, "gen")
    # beyond the small scope: sizes that cross the one-digit / two-digit boundary of names, counters and indices (spec/FamScale.tla)
    failures += progflow.judge(ctx, progflow.scale_cases(ctx, "C18"), "scale")
    # every ordered pair of feature snippets x every composition mode (spec/FamPairs.tla): the pairs whose highest property is this one
    failures += progflow.judge(ctx, progflow.pair_cases(ctx, "C18"), "pairs")
    progflow.report(ctx, failures)
    return ctx.finish(rule=RULE, assumptions=ASSUME)
