------------------------------- MODULE Layout -------------------------------
(* Layout (C12) over the reference scanner.  Two uses of one module, selected by the case's `mode`:              *)
(*  "pieces": scan a base text and print its segmentation (tokens, blanks, comments, line ends) - the harness   *)
(*            builds candidate re-layouts from it;                                                                *)
(*  "variant": scan a candidate re-layout and decide whether it is TOKEN-PRESERVING with respect to its base:     *)
(*            the token sequences agree after comments are dropped, runs of NEWLINE collapse to one and NEWLINEs  *)
(*            before EOF are dropped (DESIGN.md 3.6).  Only for token-preserving candidates must the real         *)
(*            transpiler return the base's verdict and byte-identical scripts (recorded in `obs`).                *)
EXTENDS Lexer
Case == Cases[ci]
Strip(ts) == [i \in 1..Len(ts) |-> [t |-> ts[i].t, v |-> ts[i].v]]
RECURSIVE Collapse(_, _)
Collapse(ts, i) ==                        \* drop a NEWLINE that is followed by another NEWLINE or by EOF
  IF i > Len(ts) THEN <<>>
  ELSE IF ts[i].t = "NEWLINE" /\ i < Len(ts) /\ ts[i + 1].t \in {"NEWLINE", "EOF"} THEN Collapse(ts, i + 1)
  ELSE <<ts[i]>> \o Collapse(ts, i + 1)
Canon == Collapse(Strip(Result), 1)
Preserved == ~err /\ Canon = Case.basetoks
SameOutcome == Case.obs = Case.baseobs
Verdict == Done =>
  IF Case.mode = "pieces"
  THEN PrintT(ToJson([id |-> Case.id, mode |-> "pieces", err |-> err, pieces |-> pieces, canon |-> Canon]))
  ELSE PrintT(ToJson([id |-> Case.id, mode |-> "variant", preserved |-> Preserved, ok |-> (~Preserved \/ SameOutcome)]))
=============================================================================
