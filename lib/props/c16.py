"""C16 - Every emitted script is well-formed for its interpreter."""
import os

from vlib import Infra, read_ndjson, write_ndjson

RULE = ("programs: spec/FamC16.tla (empty blocks in every position, nesting to depth 7, 1..12 chained functions, every builtin alone and combined incl. input/file/command builtins, "
        "loop/branch sequencing shapes) plus every program of the C01, C02, C03, C04, C17 and C18 families (quick: every k-th). Bash: `bash -n` must accept the script. Batch: a "
        "decorator around the real converter records every Converter call with the line facts of what it appended; spec/Emit.tla (name-agnostic ownership of labels by open "
        "constructs, no label twice, every jump/call target defined, balanced parentheses, helpers present exactly when called, no closing call on an empty stack) validates each "
        "trace in TLC. Distinct = distinct source text accepted by the transpiler.")
ASSUME = ["lines are attributed to Converter calls by diffing Dump() before/after (the harness checks the diff is insertion-only)",
          "labels, jumps and calls are recognised by line shape outside quoted text; `bash -n` of /bin/bash 5.2 is the Bash syntax check"]


def run(ctx):
    quick = ctx.tier == "quick"
    cases = ctx.tlc_family("FamC16", constants={"Tier": '"%s"' % ctx.tier})
    for fam, stride in (("FamC01", 5 if quick else 1), ("FamC02", 2 if quick else 1), ("FamC03", 7 if quick else 1), ("FamC04", 1), ("FamC17", 23 if quick else 3), ("FamC18", 5 if quick else 1)):
        cs = ctx.tlc_family(fam, constants={"Tier": '"quick"'}, timeout=3000)
        cs.sort(key=lambda c: c["id"])
        cases += cs[::stride]
    # multi-file programs: what is linked into the script (functions of imported files, their top-level code) obeys the same structural rules
    cases += [c for c in ctx.tlc_family("FamC09", constants={"Tier": '"quick"'}, timeout=3000) if "/neg/" not in c["id"] and "/libneg/" not in c["id"]][::(2 if quick else 1)]
    import progflow
    pairs = sorted(progflow.pair_cases(ctx), key=lambda c: c["id"])
    cases += pairs[::(4 if quick else 1)]
    skel = sorted(progflow.skel_cases(ctx), key=lambda c: c["id"])
    cases += skel[::(2 if quick else 1)]
    ctx.exhaustive["FamC16"] = True
    # the implementation-shaped allocator model: explored exhaustively by TLC, refines Emit, replayed into the real converter (lib/allocflow.py)
    import allocflow
    cases += allocflow.run(ctx)
    allocflow.inductive(ctx)
    wd = ctx.sub("emit")
    p0, p1 = os.path.join(wd, "c0.ndjson"), os.path.join(wd, "c1.ndjson")
    write_ndjson(p0, [{"id": c["id"], "prog": c["prog"]} for c in cases])
    ctx.run_vh("emit", p0, p1, os.path.join(wd, "scr"), timeout=7200)
    ran = read_ndjson(p1)
    traced = []
    for c in ran:
        ctx.evaluations += 1
        if not c.get("accepted"):
            ctx.dropped["rejected-by-transpiler"] = ctx.dropped.get("rejected-by-transpiler", 0) + 1
            continue
        ctx.distinct.add(c["src"])
        if not c.get("bashOk"):
            s = "bash -n rejects the emitted script: " + c.get("bashErr", "")
            ctx.report_failure(c["id"] + "#bash", {"property": "C16", "case": c["id"], "why": s, "source": c["src"], "reproduce": "tsh -t bash; bash -n"}, s)
        if c.get("batchErr"):
            ctx.dropped["batch-converter-error"] = ctx.dropped.get("batch-converter-error", 0) + 1
            continue
        if not c.get("attribution", True):
            raise Infra("line attribution failed (Dump diff not insertion-only) for " + c["id"])
        traced.append(c)
    allocflow.compare(ctx, {c["id"]: c for c in ran})
    p2 = os.path.join(wd, "cases.ndjson")
    write_ndjson(p2, [{"id": c["id"], "events": c["events"]} for c in traced])
    verd, _ = ctx.tlc("Emit", workdir=ctx.sub("tlc-emit"), files=[(p2, "cases.ndjson")], timeout=3000, cover=[("Emit", "Event")])
    by = {v["id"]: v for v in verd}
    for c in traced:
        v = by.get(c["id"])
        if v is None:
            raise Infra("no verdict for " + c["id"])
        ctx.traces_validated += 1
        if len(ctx.samples) < 4 and len(c["src"]) < 300 and ctx.traces_validated % 97 == 1:
            ctx.samples.append({"id": c["id"], "source": c["src"], "events": [e["m"] for e in c["events"]], "accepted_by_spec": v["ok"]})
        if not v["ok"]:
            s = "Batch script ill-formed: %s (at converter call %d: %s)" % (v["why"], v["at"], v["ev"])
            ctx.report_failure(c["id"] + "#batch", {"property": "C16", "case": c["id"], "why": s, "source": c["src"], "script": c.get("script"),
                                                     "events": c["events"][max(0, v["at"] - 3):v["at"] + 1], "reproduce": "tsh -t batch"}, s)
    return ctx.finish(rule=RULE, assumptions=ASSUME, extra={"notes": ctx.notes})
