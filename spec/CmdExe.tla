------------------------------- MODULE CmdExe -------------------------------
(***************************************************************************)
(* cmd.exe for the fragment of Batch the converter emits (C05; DESIGN.md   *)
(* 3.8 and 6.3, rules R1-R12).  There is no cmd.exe in the sandbox: the    *)
(* REAL emitted script, parsed into units by the harness (batparse), is    *)
(* executed under this explicit model of the rules the property names:     *)
(*  R1 units (a line, or a parenthesised compound read as a whole)         *)
(*  R2 percent expansion when a unit is read (%n, %~n, %name%, %%)          *)
(*  R3 delayed !name! / !name:~a,b! expansion per command at execution      *)
(*  R4 set "n=v" (empty value undefines); variable names and labels are     *)
(*     case-insensitive (Fold): x and X are one variable, :f and :F one     *)
(*     label                                                                 *)
(*  R5 set /A: 32-bit two's complement, C precedence, unary minus           *)
(*  R6 IF compares numerically iff both sides are unquoted integers, else   *)
(*     as text (including the quotes)                                        *)
(*  R7 goto/call :label abandon the block and search from the end of the    *)
(*     current unit to the end of the file, then from the top; first match  *)
(*  R8 call pushes a frame (return position, rest of the block, %1..%9);    *)
(*     exit /B pops it; R12 at the outermost frame it ends the script        *)
(*  R9 labels, ::, rem and a line that starts with a stray ")" - also        *)
(*     ") else (" and ") else if .. (" met outside any block, which is what *)
(*     is left of an if after a jump into one of its branches - are no-ops  *)
(*  R10 for /f "delims=" %%i in ("text") do ... over the lines of text       *)
(*  R11 echo text / echo.                                                    *)
(* Anything else makes the run "unsupported" (never compared).              *)
(***************************************************************************)
EXTENDS IntW, TLC, Json, FiniteSets
Cases == ndJsonDeserialize("cases.ndjson")        \* [id, script (one entry per physical line: [cmd, next]), ref |-> [out, code]]
VARIABLES ci, pc, blk, calls, env, out, status, code, steps
vars == <<ci, pc, blk, calls, env, out, status, code, steps>>
Script == Cases[ci].script
NLines == Len(Script)
Empty == [x \in {} |-> ""]
\* cmd.exe folds the case of variable names and of labels (R4, R7)
UpperS == "ABCDEFGHIJKLMNOPQRSTUVWXYZ"
LowerS == "abcdefghijklmnopqrstuvwxyz"
UpperSet == {SubSeq(UpperS, i, i) : i \in 1..26}
FoldC(c) == IF c \in UpperSet THEN LET k == CHOOSE i \in 1..26 : SubSeq(UpperS, i, i) = c IN SubSeq(LowerS, k, k) ELSE c
RECURSIVE FoldR(_, _)
FoldR(s, i) == IF i > Len(s) THEN "" ELSE FoldC(SubSeq(s, i, i)) \o FoldR(s, i + 1)
Fold(s) == IF \A i \in 1..Len(s) : SubSeq(s, i, i) \notin UpperSet THEN s ELSE FoldR(s, 1)
Get(e, n0) == LET n == Fold(n0) IN IF n \in DOMAIN e THEN e[n] ELSE ""
Put(e, n0, v) == LET n == Fold(n0) IN IF v = "" THEN [m \in (DOMAIN e) \ {n} |-> e[m]] ELSE (n :> v) @@ e
Args == IF calls = <<>> THEN <<>> ELSE calls[Len(calls)].args
ArgN(n) == IF n >= 1 /\ n <= Len(Args) THEN Args[n] ELSE ""
Unquote(s) == IF Len(s) >= 2 /\ SubSeq(s, 1, 1) = "\"" /\ SubSeq(s, Len(s), Len(s)) = "\"" THEN SubSeq(s, 2, Len(s) - 1) ELSE s

IsDigitStr(s) == Len(s) > 0 /\ \A i \in 1..Len(s) : SubSeq(s, i, i) \in {"0","1","2","3","4","5","6","7","8","9"}
IsInt(s) == IF Len(s) > 1 /\ SubSeq(s, 1, 1) = "-" THEN IsDigitStr(Tail(s)) ELSE IsDigitStr(s)
\* a text that is not a number counts as 0 (wcstol), e.g. exit /B o
NatOf(s) == IF ~IsInt(s) THEN 0 ELSE LET m == FromDec(s).mag IN IF m = <<>> THEN 0 ELSE IF Len(m) = 1 THEN m[1] ELSE m[1] + 32768 * m[2]

\* ---- expansion (percent phase, for variables, delayed phase) ---------------
RECURSIVE Exp(_, _, _)
ExpPart(p, fv, e) ==
  CASE p.t = "lit" -> p.s
    [] p.t = "pct" -> (IF p.arg THEN (IF p.tilde THEN Unquote(ArgN(NatOf(p.s))) ELSE ArgN(NatOf(p.s))) ELSE Get(e, p.s))
    [] p.t = "forvar" -> Get(fv, p.s)
    [] p.t = "bang" -> LET v == Get(e, Exp(p.name, fv, e)) IN
                       IF ~p.hasSub THEN v
                       ELSE LET a == NatOf(Exp(p.a, fv, e))
                                rest == IF a >= Len(v) THEN "" ELSE SubSeq(v, a + 1, Len(v))
                            IN IF ~p.hasB THEN rest
                               ELSE LET b == NatOf(Exp(p.b, fv, e)) IN IF b >= Len(rest) THEN rest ELSE SubSeq(rest, 1, b)
Exp(parts, fv, e) == IF parts = <<>> THEN "" ELSE ExpPart(parts[1], fv, e) \o Exp(Tail(parts), fv, e)

\* ---- set /A -----------------------------------------------------------------
OpndVal(s, e) == IF IsInt(s) THEN FromDec(s) ELSE IF IsInt(Get(e, s)) THEN FromDec(Get(e, s)) ELSE Zero
RECURSIVE EvalA(_, _, _)
EvalA(x, fv, e) ==
  CASE x.k = "opnd" -> OpndVal(Exp(x.parts, fv, e), e)
    [] x.k = "neg" -> Sub(Zero, EvalA(x.e, fv, e), 32)
    [] x.k = "bin" -> LET l == EvalA(x.l, fv, e)
                          r == EvalA(x.r, fv, e)
                      IN CASE x.op = "+" -> Add(l, r, 32) [] x.op = "-" -> Sub(l, r, 32) [] x.op = "*" -> Mul(l, r, 32)
                           [] x.op = "/" -> Quo(l, r, 32) [] x.op = "%" -> Rem(l, r, 32)
RECURSIVE DivZero(_, _, _)
DivZero(x, fv, e) == CASE x.k = "bin" -> (DivZero(x.l, fv, e) \/ DivZero(x.r, fv, e) \/ (x.op \in {"/", "%"} /\ IsZero(EvalA(x.r, fv, e))))
                       [] x.k = "neg" -> DivZero(x.e, fv, e) [] OTHER -> FALSE

\* ---- if ---------------------------------------------------------------------
Ascii == "-0123456789"
Ord(c) == CHOOSE i \in 1..Len(Ascii) : SubSeq(Ascii, i, i) = c
RECURSIVE StrCmp(_, _)           \* ordinal, only for texts over Ascii
StrCmp(a, b) == IF a = "" /\ b = "" THEN 0 ELSE IF a = "" THEN -1 ELSE IF b = "" THEN 1
                ELSE LET x == Ord(SubSeq(a, 1, 1)) y == Ord(SubSeq(b, 1, 1)) IN
                     IF x < y THEN -1 ELSE IF x > y THEN 1 ELSE StrCmp(Tail(a), Tail(b))
OverAscii(s) == \A i \in 1..Len(s) : \E j \in 1..Len(Ascii) : SubSeq(Ascii, j, j) = SubSeq(s, i, i)
Rel(op, c) == CASE op = "equ" -> c = 0 [] op = "neq" -> c # 0 [] op = "lss" -> c < 0
                [] op = "leq" -> c <= 0 [] op = "gtr" -> c > 0 [] op = "geq" -> c >= 0
CondKnown(c, fv, e) ==
  IF c.kind = "defined" THEN TRUE
  ELSE LET l == Exp(c.l, fv, e) r == Exp(c.r, fv, e) IN
       IF ~c.q /\ IsInt(l) /\ IsInt(r) THEN TRUE
       ELSE c.cmp \in {"equ", "neq"} \/ (OverAscii(l) /\ OverAscii(r))
CondVal(c, fv, e) ==
  IF c.kind = "defined" THEN Fold(c.var) \in DOMAIN e
  ELSE LET l == Exp(c.l, fv, e) r == Exp(c.r, fv, e) IN
       IF ~c.q /\ IsInt(l) /\ IsInt(r) THEN Rel(c.cmp, Cmp(FromDec(l), FromDec(r)))     \* numeric (R6)
       ELSE IF c.cmp = "equ" THEN l = r ELSE IF c.cmp = "neq" THEN l # r
       ELSE Rel(c.cmp, StrCmp(l, r))                                                       \* string-wise (R6)

\* ---- labels (R7) ------------------------------------------------------------
IsLabel(i, L) == Script[i].cmd.op = "label" /\ Fold(Script[i].cmd.name) = Fold(L)
Find(L) == LET F == {i \in pc..NLines : IsLabel(i, L)}
               Bk == {i \in 1..(pc - 1) : IsLabel(i, L)}
               Min(S) == CHOOSE i \in S : \A j \in S : i <= j
           IN IF F # {} THEN Min(F) ELSE IF Bk # {} THEN Min(Bk) ELSE 0

Init == /\ ci \in 1..Len(Cases) /\ pc = 1 /\ blk = <<>> /\ calls = <<>> /\ env = Empty
        /\ out = "" /\ status = "run" /\ code = 0 /\ steps = 0

Top == blk[Len(blk)]
Cur == Top.cmds[Top.i]
Advanced == IF Top.i < Len(Top.cmds) THEN [blk EXCEPT ![Len(blk)].i = @ + 1] ELSE SubSeq(blk, 1, Len(blk) - 1)

ReadUnit == /\ blk = <<>> /\ pc <= NLines
            /\ blk' = <<[cmds |-> <<Script[pc].cmd>>, i |-> 1, fv |-> Empty]>>
            /\ pc' = Script[pc].next
            /\ UNCHANGED <<calls, env, out, status, code>>
EndOfFile == /\ blk = <<>> /\ pc > NLines
             /\ IF calls = <<>> THEN status' = "exit" /\ UNCHANGED <<pc, blk, calls>>
                ELSE /\ pc' = calls[Len(calls)].pc /\ blk' = calls[Len(calls)].blk
                     /\ calls' = SubSeq(calls, 1, Len(calls) - 1) /\ UNCHANGED status
             /\ UNCHANGED <<env, out, code>>
Exec ==
  /\ blk # <<>>
  /\ LET c == Cur  fv == Top.fv  rest == Advanced IN
     CASE c.op \in {"nop", "label", "strayclose", "strayelse"} ->
            blk' = rest /\ UNCHANGED <<pc, calls, env, out, status, code>>
       [] c.op = "setlf" -> blk' = rest /\ env' = Put(env, "LF", "\n") /\ UNCHANGED <<pc, calls, out, status, code>>
       [] c.op = "set" -> blk' = rest /\ env' = Put(env, Exp(c.name, fv, env), Exp(c.value, fv, env))
                          /\ UNCHANGED <<pc, calls, out, status, code>>
       [] c.op = "seta" -> IF c.expr.k = "bad" \/ DivZero(c.expr, fv, env)
                           THEN status' = "cmderror" /\ UNCHANGED <<pc, blk, calls, env, out, code>>
                           ELSE blk' = rest /\ env' = Put(env, c.name, ToDec(EvalA(c.expr, fv, env)))
                                /\ UNCHANGED <<pc, calls, out, status, code>>
       [] c.op = "if" -> IF ~CondKnown(c, fv, env) THEN status' = "unsupported" /\ UNCHANGED <<pc, blk, calls, env, out, code>>
                         ELSE LET body == IF CondVal(c, fv, env) # c.neg THEN c.then ELSE c.else IN      \* if not <condition>
                              /\ blk' = IF body = <<>> THEN rest ELSE Append(rest, [cmds |-> body, i |-> 1, fv |-> fv])
                              /\ UNCHANGED <<pc, calls, env, out, status, code>>
       [] c.op = "forf" -> LET s == Exp(c.src, fv, env) IN
                           /\ blk' = IF s = "" THEN rest ELSE Append(rest, [cmds |-> c.body, i |-> 1, fv |-> (c.var :> s) @@ fv])
                           /\ UNCHANGED <<pc, calls, env, out, status, code>>
       [] c.op = "goto" -> IF Find(c.label) = 0 THEN status' = "cmderror" /\ UNCHANGED <<pc, blk, calls, env, out, code>>
                           ELSE blk' = <<>> /\ pc' = Find(c.label) + 1 /\ UNCHANGED <<calls, env, out, status, code>>
       [] c.op = "call" -> IF Find(c.label) = 0 THEN status' = "cmderror" /\ UNCHANGED <<pc, blk, calls, env, out, code>>
                           ELSE /\ calls' = Append(calls, [pc |-> pc, blk |-> rest, args |-> [i \in 1..Len(c.args) |-> Exp(c.args[i], fv, env)]])
                                /\ blk' = <<>> /\ pc' = Find(c.label) + 1 /\ UNCHANGED <<env, out, status, code>>
       [] c.op = "exitb" -> /\ code' = IF c.hasCode THEN NatOf(Exp(c.code, fv, env)) ELSE code
                            /\ IF calls = <<>> THEN status' = "exit" /\ UNCHANGED <<pc, blk, calls>>
                               ELSE /\ pc' = calls[Len(calls)].pc /\ blk' = calls[Len(calls)].blk
                                    /\ calls' = SubSeq(calls, 1, Len(calls) - 1) /\ UNCHANGED status
                            /\ UNCHANGED <<env, out>>
       \* R13: ECHO [ON | OFF] - an argument that IS the word on or off (any letter case, after expansion) switches command echoing and prints nothing
       [] c.op = "echo" -> LET txt == IF c.dot THEN "" ELSE Exp(c.text, fv, env) IN
                           /\ blk' = rest /\ out' = (IF ~c.dot /\ Fold(txt) \in {"on", "off"} THEN out ELSE out \o txt \o "\n")
                           /\ UNCHANGED <<pc, calls, env, status, code>>
       [] OTHER -> status' = "unsupported" /\ UNCHANGED <<pc, blk, calls, env, out, code>>

MaxSteps == 60000
Step == ReadUnit \/ EndOfFile \/ Exec
Next == \/ (status = "run" /\ steps < MaxSteps /\ Step /\ steps' = steps + 1 /\ UNCHANGED ci)
        \/ (status = "run" /\ steps >= MaxSteps /\ status' = "diverge" /\ UNCHANGED <<ci, pc, blk, calls, env, out, code, steps>>)
        \/ (status # "run" /\ UNCHANGED vars)
Spec == Init /\ [][Next]_vars
Ref == Cases[ci].ref
Verdict == (status # "run") => PrintT(ToJson([id |-> Cases[ci].id, st |-> status, steps |-> steps,
             ok |-> (status \in {"unsupported", "diverge"} \/ (status = "exit" /\ out = Ref.out /\ code = Ref.code)), out |-> out, code |-> code]))
\* frames are only pushed by call and popped by exit /B or end of file
FrameDiscipline == [][Len(calls') \in {Len(calls) - 1, Len(calls), Len(calls) + 1}]_vars
=============================================================================
