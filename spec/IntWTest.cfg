INIT Init
NEXT Next
