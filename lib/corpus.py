"""The repository's own test programs (tests/*.go, extracted with go/ast) and examples as direction-B inputs: their text is parsed by the
real parser, exported to the specification's abstract syntax (vh astexport) and run like any other case; the expectation each test
states is used to calibrate the specification (a disagreement between TshDyn and the test's expectation is an infrastructure error)."""
import json
import os

import progflow
from vlib import Infra, read_ndjson, write_ndjson

KINDS = {
    "C18": {"app"},
    "C17": {"write", "read", "exists"},
    "C03": {"slicelit", "index", "setidx", "substr", "len", "copy"},
    "C02": {"func", "call"},
}


def kinds(x, acc):
    if isinstance(x, dict):
        if "k" in x:
            acc.add(x["k"])
        for v in x.values():
            kinds(v, acc)
    elif isinstance(x, list):
        for v in x:
            kinds(v, acc)


def classify(body):
    ks = set()
    kinds(body, ks)
    if "input" in ks:
        return None
    for prop in ("C18", "C17", "C03", "C02"):
        if ks & KINDS[prop]:
            return prop
    return "C01"


def load(ctx):
    if not getattr(ctx, "astexport", True):
        ctx.dropped["corpus-skipped-no-astexport"] = 1
        return []
    wd = ctx.sub("corpus")
    p0, p1 = os.path.join(wd, "t0.ndjson"), os.path.join(wd, "t1.ndjson")
    import vlib
    ctx.run_vh("repotests", vlib.REPO, p0)
    ctx.run_vh("astexport", p0, p1, os.path.join(wd, "scr"))
    out = []
    for c in read_ndjson(p1):
        if "mbody" not in c:
            continue
        c["prop"] = classify(c["mbody"])
        out.append(c)
    return out


def judge(ctx, prop):
    """Runs the corpus programs that belong to `prop`; returns failures like progflow.judge."""
    mine = [c for c in load(ctx) if c["prop"] == prop]
    if not mine:
        return []
    wd = ctx.sub("corpus-run")
    p0, p1 = os.path.join(wd, "c0.ndjson"), os.path.join(wd, "c1.ndjson")
    write_ndjson(p0, [{"id": c["id"], "src": c["src"]} for c in mine])
    ctx.run_vh("run", p0, p1, os.path.join(wd, "scr"), "-j", 8, "-scripts", "-timeout", 20)
    ran = {c["id"]: c for c in read_ndjson(p1)}
    slim = [{"id": c["id"], "prog": {"body": c["mbody"]}, "obs": {k: v for k, v in ran[c["id"]]["obs"].items() if k not in ("stderr", "err", "sha")}} for c in mine]
    p2 = os.path.join(wd, "cases.ndjson")
    write_ndjson(p2, slim)
    verd, _ = ctx.tlc("TshRun", workdir=ctx.sub("tlc-corpus"), files=[(p2, "cases.ndjson")], constants={"W": "64"})
    by = {v["id"]: v for v in verd}
    failures = []
    for c in mine:
        v = by[c["id"]]
        r = ran[c["id"]]
        ctx.evaluations += 1
        if v["st"].startswith("undef") or v["st"] == "diverge" or v["st"].startswith("stuck"):
            ctx.dropped["corpus-" + v["st"]] = ctx.dropped.get("corpus-" + v["st"], 0) + 1
            continue
        if "testExpects" in c and v["out"].replace("\r\n", "\n").strip() != c["testExpects"].strip():
            raise Infra("the specification disagrees with the expectation stated by the repository's test %s: TshDyn %r, test %r" % (c["id"], v["out"], c["testExpects"]))
        ctx.traces_validated += 1
        ctx.distinct.add(c["src"])
        ctx.notes["corpus_programs"] = ctx.notes.get("corpus_programs", 0) + 1
        if not v["ok"]:
            failures.append((r, v, progflow.signature(r, v)))
    return failures


def cases(ctx, props):
    """Corpus programs as ordinary cases: `src` is what the real pipeline gets, `prog.body` (exported by the real parser) what TLC runs."""
    return [{"id": c["id"], "src": c["src"], "prog": {"body": c["mbody"]}, "testExpects": c.get("testExpects")} for c in load(ctx) if c["prop"] in props]
