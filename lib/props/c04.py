"""C04 - Operands are evaluated exactly once, in source order, conditions eagerly."""
import progflow

RULE = ("direction A: TLC enumerates spec/FamC04.tla: every operand position of every statement kind (binary/compare/logical "
        "operands for all operator pairs and truth assignments, call arguments, nested calls, return lists, print arguments, "
        "definition/assignment/compound right-hand sides, slice literal elements, slice-assignment index and value, slice and "
        "string indices, subscript bounds, builtin and command arguments, if/else-if chains of length 1..3 for all truth "
        "assignments, nested ifs/switches in every branch position, switch cases, all loop forms) is filled with an effectful probe that prints "
        "its id and a global counter, so stdout is the evaluation log; direction B: random programs from `vh gen effects` "
        "whose functions print. TLC validates the log against TshDyn's eager left-to-right rules.")
ASSUME = ["spec/TshDyn.tla: ExprPushOperands (all operands, left to right, once), IfEvalAllConds, LoopHead state C04",
          "a plain variable read is not an effect: programs never read, in one statement, a global that a later operand's callee writes (unspecified in Go as well)"]


def run(ctx):
    fam = ctx.tlc_family("FamC04", constants={"Tier": '"%s"' % ctx.tier})
    ctx.exhaustive["FamC04"] = True
    failures = progflow.judge(ctx, fam, "fam")
    n = 300 if ctx.tier == "quick" else 2500
    failures += progflow.judge(ctx, progflow.generate(ctx, "funcs", n, extra=("-effects",)), "gen")
    # beyond the small scope: sizes that cross the one-digit / two-digit boundary of names, counters and indices (spec/FamScale.tla)
    failures += progflow.judge(ctx, progflow.scale_cases(ctx, "C04"), "scale")
    # every ordered pair of feature snippets x every composition mode (spec/FamPairs.tla): the pairs whose highest property is this one
    failures += progflow.judge(ctx, progflow.pair_cases(ctx, "C04"), "pairs")
    # run-time histories (spec/FamHist.tla): a function with nested loops, left by a return from the inner loop, called again - condition and increment probed
    failures += progflow.judge(ctx, [c for c in progflow.hist_cases(ctx, ("calls",)) if "/nestretp/" in c["id"] or "/loop/" in c["id"]], "hist")
    progflow.report(ctx, failures)
    return ctx.finish(rule=RULE, assumptions=ASSUME)
