"""C08 - String values are opaque data on every path: never expanded or executed."""
import progflow

RULE = ("direction A: TLC enumerates spec/FamC08.tla: each of the 95 printable ASCII characters, newline and tab x position {only, first, middle, last} x 12 "
        "data paths (print, assign, concat, compare/switch, argument, return, slice store/load/range, range over the string, subscripts, len, file write+read, "
        "simultaneous assignment) x origin {literal, file at run time} (thorough: also raw literal, standard input, command output); one program per case; "
        "TshDyn is the identity on data, so stdout, exit status, empty stderr and the resulting files are validated byte for byte; a canary file shows execution of data. "
        "Thorough adds random strings over the full alphabet. Distinct = distinct source text/world with a defined meaning.")
ASSUME = ["only /bin/bash 5.2 is observed", "a value read from a file or standard input cannot end in / contain a newline (those cells are not generated)"]


def run(ctx):
    fam = ctx.tlc_family("FamC08", constants={"Tier": '"%s"' % ctx.tier}, timeout=3000)
    ctx.exhaustive["FamC08"] = True
    failures = progflow.judge(ctx, fam, "fam")
    failures += progflow.judge(ctx, progflow.scale_cases(ctx, "C08"), "scale")      # values of 100 to 5000 (thorough 9000) characters, around the 4096 mark
    progflow.report(ctx, failures)
    return ctx.finish(rule=RULE, assumptions=ASSUME)
