------------------------------ MODULE GoStrings ------------------------------
(* Reference definitions of the functions of Go's package strings that std/strings.tsh offers, over TLC strings   *)
(* (ASCII), written from the Go documentation.  Calibrated against the real package by the harness on every run.    *)
EXTENDS Integers, Sequences, TLC
At(s, i, sub) == i + Len(sub) - 1 <= Len(s) /\ SubSeq(s, i, i + Len(sub) - 1) = sub          \* 1-based
RECURSIVE IndexFrom(_, _, _)
IndexFrom(s, sub, i) == IF i + Len(sub) - 1 > Len(s) THEN 0 ELSE IF At(s, i, sub) THEN i ELSE IndexFrom(s, sub, i + 1)
Index(s, sub) == IndexFrom(s, sub, 1) - 1                                                      \* -1 if absent; Index(s, "") = 0
Contains(s, sub) == Index(s, sub) >= 0
HasPrefix(s, p) == Len(s) >= Len(p) /\ SubSeq(s, 1, Len(p)) = p
HasSuffix(s, p) == Len(s) >= Len(p) /\ SubSeq(s, Len(s) - Len(p) + 1, Len(s)) = p
RECURSIVE CountFrom(_, _, _)
CountFrom(s, sub, i) == LET k == IndexFrom(s, sub, i) IN IF k = 0 THEN 0 ELSE 1 + CountFrom(s, sub, k + Len(sub))
Count(s, sub) == IF sub = "" THEN Len(s) + 1 ELSE CountFrom(s, sub, 1)                       \* non-overlapping
RECURSIVE SplitFrom(_, _, _)
SplitFrom(s, sep, i) == LET k == IndexFrom(s, sep, i) IN
                        IF k = 0 THEN <<SubSeq(s, i, Len(s))>> ELSE <<SubSeq(s, i, k - 1)>> \o SplitFrom(s, sep, k + Len(sep))
Split(s, sep) == IF sep = "" THEN [i \in 1..Len(s) |-> SubSeq(s, i, i)] ELSE SplitFrom(s, sep, 1)
RECURSIVE Join(_, _)
Join(es, sep) == IF es = <<>> THEN "" ELSE IF Len(es) = 1 THEN es[1] ELSE es[1] \o sep \o Join(Tail(es), sep)
RECURSIVE Repeat(_, _)
Repeat(s, n) == IF n <= 0 THEN "" ELSE s \o Repeat(s, n - 1)                                    \* n < 0 panics in Go: not generated
\* Replace: the first n non-overlapping instances (all if n < 0); an empty `old` matches at the beginning and after each character
RECURSIVE ReplFrom(_, _, _, _, _)
ReplFrom(s, old, new, n, i) ==
  IF n = 0 THEN SubSeq(s, i, Len(s))
  ELSE IF old = "" THEN (IF i > Len(s) THEN new ELSE new \o SubSeq(s, i, i) \o (IF n = 1 THEN SubSeq(s, i + 1, Len(s)) ELSE ReplFrom(s, old, new, n - 1, i + 1)))
  ELSE LET k == IndexFrom(s, old, i) IN
       IF k = 0 THEN SubSeq(s, i, Len(s)) ELSE SubSeq(s, i, k - 1) \o new \o ReplFrom(s, old, new, n - 1, k + Len(old))
Replace(s, old, new, n) == IF old = new \/ n = 0 THEN s ELSE ReplFrom(s, old, new, IF n < 0 THEN Len(s) + 2 ELSE n, 1)
ReplaceAll(s, old, new) == Replace(s, old, new, -1)
Cut(s, sep) == LET k == Index(s, sep) IN IF k < 0 THEN <<s, "", FALSE>> ELSE <<SubSeq(s, 1, k), SubSeq(s, k + Len(sep) + 1, Len(s)), TRUE>>
CutPrefix(s, p) == IF HasPrefix(s, p) THEN <<SubSeq(s, Len(p) + 1, Len(s)), TRUE>> ELSE <<s, FALSE>>
CutSuffix(s, p) == IF HasSuffix(s, p) THEN <<SubSeq(s, 1, Len(s) - Len(p)), TRUE>> ELSE <<s, FALSE>>
TrimPrefix(s, p) == CutPrefix(s, p)[1]
TrimSuffix(s, p) == CutSuffix(s, p)[1]
InSet(c, set) == \E i \in 1..Len(set) : SubSeq(set, i, i) = c
RECURSIVE TrimLeft(_, _), TrimRight(_, _)
TrimLeft(s, set) == IF s # "" /\ InSet(SubSeq(s, 1, 1), set) THEN TrimLeft(SubSeq(s, 2, Len(s)), set) ELSE s
TrimRight(s, set) == IF s # "" /\ InSet(SubSeq(s, Len(s), Len(s)), set) THEN TrimRight(SubSeq(s, 1, Len(s) - 1), set) ELSE s
Trim(s, set) == TrimRight(TrimLeft(s, set), set)
TrimSpace(s) == Trim(s, " \t\n\r")
=============================================================================
