"""What MANIFEST.json claims.  Edited by hand; lib/mkmanifest.py turns it into MANIFEST.json."""

NOTES = ("Exit codes: 0 held (KNOWN-FINDING lines allowed), 1 VIOLATION, 2 infrastructure (never a verdict). "
         "VERIF_SEED seeds the direction-B generators; the direction-A families are enumerated by TLC and do not depend on it. "
         "Known findings and fixed defects: /verif/KNOWN_FINDINGS.jsonl. Design: /verif/DESIGN.md.")

TRUST = ("Trusted: TLC; the TLA+ specification states the intended semantics (DESIGN.md section 6); the Go harness renders "
         "abstract syntax to text and projects observations faithfully; /bin/bash 5.2 as the interpreter.")

CHECKS = {
    "C01": {
        "text": "TLC enumerates the scalar families of spec/FamC01.tla exhaustively and runs the abstract machine spec/TshDyn.tla "
                "(one action per language rule) over them and over seeded random programs; every run of the real pipeline "
                "(parser, transpiler, Bash converter, /bin/bash) is recorded and validated against the machine by TLC: stdout bytes, "
                "exit status, empty stderr. Machine invariants (never stuck = type soundness within bounds, balanced stacks, "
                "frame isolation) are checked in every visited state. Further families added after six rounds of seeded changes: negated comparisons, simultaneous assignment with wrapped operands, jumps of an outer loop around nested loops, jump sites in every kind of branch body, re-evaluation of one expression text before and inside loops; every typed position x every offered expression of spec/FamC06.tla is also run (compositional family); spec/FamScale.tla repeats the constructs at sizes across the digit boundaries (9-33). Rounds 8-9 added spec/FamPairs.tla (every ordered pair of 40 feature snippets x 8 composition modes; each property takes the pairs whose highest property it is), spec/FamSkel.tla (EVERY control skeleton of up to 2, thorough 3, constructs out of 8 kinds with at most one jump site), self-referencing assignments and guards at the end of branches. The thorough tier instruments TLC with -coverage and fails (exit 2) if a rule of TshDyn the property is about was never taken. Rounds 13-15: a share of every run family is run once more in another legal spelling of the same program (harness/respell.go: redundant brackets; no blanks and no optional brackets, !!x; var for :=; blank and comment lines around braces), strings that look like numbers / booleans / shell words (NumStr), Bash runs in a working directory with decoy files (unquoted pattern characters expand) whose path holds a blank.",
        "note": TRUST,
        "technique": "TLA+ abstract machine (TshDyn) + TLC trace validation of real transpile-and-run observations",
    },
    "C02": {
        "text": "TLC enumerates spec/FamC02.tla (every legal assignment of names to the roles global-before/parameter/local of two functions/global-after, "
                "all arities and call shapes, in-place global updates by every assignment form, simultaneous and re-entrant multi-assignments, nested calls) "
                "and validates each recorded Bash run against TshDyn's CallEnter/Return/AssignIn rules; FrameIsolation is an action property checked on every transition. Also: statement calls whose arguments are calls, loops that are live across a call, return forwarding, bracketless definitions, shadowing multi-definitions, and the FamScale cases (10+ functions, parameters, results, calls, locals). Rounds 8-9 added the C02 part of spec/FamPairs.tla and the BlockDef family (one name defined in several blocks of a callee, some skipped at run time, while a variable of that name lives in the caller / at top level). Rounds 13-15: awkward-looking argument values bound to every parameter position (ArgVal, with decoy files in the working directory), multi-name short definitions that re-use a name (ReDef), slice results next to other calls (SliceRet), and a share of all cases in other legal spellings (harness/respell.go).",
        "note": TRUST,
        "technique": "TLA+ abstract machine (frames, globals) + TLC trace validation of real transpile-and-run observations",
    },
    "C03": {
        "text": "TLC enumerates spec/FamC03.tla (all in-range (a,b) subscripts per string length, growth for every (length, index, element type) incl. two-digit "
                "values, all two-step aliasing histories over three slice variables, copy for all length pairs) and validates each recorded Bash run against "
                "TshDyn's slice heap (SliceNew, SetIdxApply, ApplyCopy, ApplyIndex, ApplySubstr); RefsValid is checked in every state. Also: nested / sequential range loops over every pair of lengths, copy as a statement and from / into globals inside functions, element values with punctuation, the compositional run family (FamC06 RunCases with slices and strings), FamScale (10+ slices, 9-33 elements, strings of 9-100 characters). Rounds 8-9 added the C03 part of spec/FamPairs.tla (slice and string snippets paired with every other feature in 8 composition modes). Rounds 14-15: every way of declaring several slices x store histories (Decl), and a share of all cases in other legal spellings (harness/respell.go).",
        "note": TRUST,
        "technique": "TLA+ abstract machine (slice heap with references) + TLC trace validation of real transpile-and-run observations",
    },
    "C04": {
        "text": "Every operand position of every statement kind is filled with an effectful probe so that stdout is the evaluation log; TLC enumerates "
                "spec/FamC04.tla and validates each recorded log against the eager, left-to-right, evaluate-once rules of TshDyn "
                "(ExprPushOperands, IfEvalAllConds, LoopHead). Also: one operand a literal or variable and the other with an effect (folding), arithmetic identities, exists / read next to a later operand that changes the file, continue from every kind of branch body with probed condition and increment, switches of 9-33 cases with the default in any position, 9-33 operands / arguments / conditions / elements. Rounds 8-9 added the C04 part of spec/FamPairs.tla and the Inert family (callees that do nothing with their arguments x argument expressions with nested effects). Rounds 14-15: a share of all cases in other legal spellings (harness/respell.go).",
        "note": TRUST + " A plain variable read is not an effect (ordering of reads against later callee writes is unspecified, as in Go).",
        "technique": "effect-probe families enumerated by TLC + trace validation of the evaluation log against the TLA+ machine",
    },
    "C11": {
        "text": "spec/Lexer.tla is the reference scanner as a state machine (one action per token class, longest match); TLC checks on it that every consumed "
                "character is accounted for once (Accounted), that positions are those of the first character (Positions) and that exactly one token class "
                "applies at every point (Deterministic), and validates the token list lexer.Tokenize returns for every text of spec/FamC11.tla "
                "(all lexeme pairs x separators, all short string bodies in both quote styles, error and position texts): types, values, rows, columns, error flag.",
        "note": "Trusted: TLC; the token grammar of DESIGN.md 6.2 (Go's, with '-' joining a number only in prefix position); the harness maps one two-byte UTF-8 letter to an ASCII placeholder.",
        "technique": "TLA+ reference scanner + TLC validation of recorded lexer.Tokenize results over TLC-enumerated text families",
    },
    "C12": {
        "text": "spec/Layout.tla defines token-preserving re-layouts over the reference scanner: TLC segments every base program and decides for every candidate "
                "(all single-gap separator substitutions, whole-file transforms, seeded random multi-gap re-layouts) whether its token sequence equals the base's "
                "after dropping comments and collapsing line ends; for each token-preserving candidate the real transpiler must return the base's verdict and "
                "byte-identical Bash and Batch scripts.",
        "note": "Trusted: TLC; spec/Lexer.tla as the judge of token preservation (never the lexer under test); single-gap candidates are judged on a four-token window.",
        "technique": "TLA+ layout relation over the reference scanner (TLC decides token preservation) + differential run of the real transpiler on base and re-layout",
    },
    "C13": {
        "text": "spec/Totality.tla (the outcome protocol of one Transpile call) is model-checked exhaustively incl. termination under fairness; spec/TotalRun.tla binds "
                "recorded outcomes to it: every call (both targets) runs in a worker subprocess with stack, memory and time caps and must end in exactly one of the two "
                "well-formed returns; inputs: all strings up to length 3/4 over 16 characters (TLC-enumerated, lexical errors decided by the reference scanner), every "
                "single-token edit of 47 base programs, all 729 import graphs over three files judged by spec/TshModules.tla, near-miss programs, seeded random texts. Rounds 8-9 added the multi-file programs of spec/FamC09.tla and a sample of spec/FamPairs.tla to the outcome protocol, and import-time code in the import-graph family.",
        "note": "Trusted: TLC; the worker harness attributes a dead worker or exceeded deadline to the single input it was processing; bytes are represented by ASCII plus one UTF-8 letter.",
        "technique": "TLA+ outcome protocol model-checked by TLC + trace validation of recorded Transpile outcomes from sandboxed workers",
    },
    "C06": {
        "text": "spec/TshStatic.tla is the static semantics as typing rules (one rule per typed position, pseudo types void/multi never legal operands); TLC evaluates it on every "
                "case of spec/FamC06.tla (87 positions x offered types x contexts, return positions at any depth, arity/value-count cases) and validates the verdict the real "
                "transpiler gave for Bash and for Batch (script, or error and no script) against it. Rounds 14-15: double negation positions; every second case once more in another legal spelling (brackets / lean / var / airy), the verdict may not depend on it.",
        "note": "Trusted: TLC; Appendix E of DESIGN.md as the statement of Go's rules and the README signatures; constructs marked '?' by the specification are not compared.",
        "technique": "TLA+ typing rules (TshStatic) evaluated by TLC + validation of recorded accept/reject verdicts of both targets",
    },
    "C07": {
        "text": "TLC evaluates spec/TshStatic.tla (block-scoped contexts, function bodies restricted to earlier globals, placement rules) on every (definition site, use site) pair of "
                "spec/FamC07.tla for variables and functions, every placement of break/continue/return/func in 23 contexts and the redefinition variants, and validates the recorded "
                "verdict of the real transpiler for both targets. Rounds 14-15: public / private name shapes across the import boundary (FamC09 NameShape), what is checked where a function body ends x spellings (EndCases), every second case once more in another legal spelling.",
        "note": "Trusted: TLC; the scoping rules of DESIGN.md section 3.2 / 6.1 (no shadowing; break needs an enclosing loop).",
        "technique": "TLA+ scoping rules (TshStatic) evaluated by TLC over site-pair families + validation of recorded accept/reject verdicts",
    },
    "C08": {
        "text": "TLC enumerates spec/FamC08.tla (97 characters x 4 positions x 12 data paths x origins literal/raw/file/stdin/command output, plus 46 whole values named in the property: "
                "leading dashes, globs, blanks, things a shell would execute) and validates every recorded Bash run byte for byte (stdout, status, stderr, files, canary) against TshDyn, "
                "which is the identity on string data. Cells that fail on the unchanged tree are listed as known findings K03-K08 by (path, origin, character); every other cell must pass.",
        "note": TRUST + " Known findings mask changes that only affect the listed cells.",
        "technique": "character x path x origin family enumerated by TLC + trace validation of real runs against the TLA+ machine (identity on data)",
    },
    "C17": {
        "text": "TLC enumerates spec/FamC17.tla (all one- and two-step, reduced three-step histories of write/append/read/exists over four paths incl. a blank and a sub-directory, "
                "several contents and append-flag forms, top level and function) and validates stdout, status, stderr and the final directory of every recorded Bash run against "
                "TshDyn's fs; WriteLocal (a write changes exactly one path) and LineStore are checked by TLC on every transition/state.",
        "note": TRUST,
        "technique": "operation-history family enumerated by TLC + trace validation of real runs (incl. final file system) against the TLA+ machine",
    },
    "C18": {
        "text": "TLC enumerates spec/FamC18.tla (argument classes x forms x positions, pipelines of 1..3 commands, exit statuses, statement/captured, top level/function) and validates, "
                "for every recorded Bash run, the probe's invocation log (argv and stdin of every command), stdout, captured output and status against TshDyn!ApplyAppCall. "
                "Argument classes that fail on the unchanged tree are known findings K10/K11.",
        "note": TRUST + " The probe command reports argv/stdin faithfully.",
        "technique": "argument/pipeline family enumerated by TLC + trace validation of recorded command invocations against the TLA+ machine",
    },
    "C15": {
        "text": "spec/GoStrings.tla defines the 19 functions from the Go documentation; TLC evaluates it for every argument tuple of spec/FamC15.tla (all short strings on a small "
                "alphabet, counts, element lists) and validates the output of the compiled bundled library (one program per call, real pipeline, /bin/bash); the reference is "
                "calibrated against Go's package strings on every case in the same run.",
        "note": "Trusted: TLC; Go's package strings of the installed toolchain; the harness's program template per function.",
        "technique": "TLA+ reference definitions (GoStrings) evaluated by TLC, calibrated against Go, + validation of recorded runs of the compiled library",
    },
    "C14": {
        "text": "spec/Purity.tla is a trace specification with the partial function memo the history has revealed: a call event is enabled only if it agrees with memo, so TLC accepts a "
                "recorded history iff ONE function of (content id, target) explains all of it (NoCrossTalk as an action property). TLC enumerates all histories of 1-2 calls and the "
                "3-call histories sharing a process over 4 source trees x 2 targets x {same object, new object, new process[, relocated copy]}; the harness replays each into the real library. Rounds 8-9 added copied modules (two paths, identical bytes), single calls from a relocated tree in every tier, and programs in which one caller with several callees is known to two import parsers.",
        "note": "Trusted: TLC; the harness's process/segment handling; map-iteration seeds are sampled by process count, not enumerated.",
        "technique": "TLA+ trace specification with an unknown function (memo) + TLC validation of recorded call histories enumerated by TLC",
    },
    "C19": {
        "text": "spec/Cli.tla states the outcome relation of one tsh invocation on (output directory, input): well-formedness of argv decided by the specification, success => exit 0 and "
                "each requested target's file holds exactly the library's bytes and nothing else changes, failure => non-zero exit and no new or changed file for a failing target, the "
                "input never changes. TLC enumerates every order of the option pairs for 6 target lists in both spellings, input names, program kinds, output-directory states and 25 "
                "ill-formed option lists (spec/FamC19.tla); the real tsh binary is run once per case and the recorded outcome validated by TLC. Rounds 8-9 added input programs with imports (import-time code, an ill-typed import) and programs with nothing to execute (functions only, comments only, an unused import, no bytes). Round 13: the two paths written relative, with ./ and a trailing separator, through .., from inside the input's directory; output directories with a blank, an output extension, several dots.",
        "note": "Trusted: TLC; the harness's directory snapshots (SHA-256) and its library call on a copy of the input as the standard.",
        "technique": "TLA+ outcome relation (Cli) + TLC validation of recorded runs of the real tsh binary over TLC-enumerated invocations",
    },
    "C16": {
        "text": "spec/Emit.tla is the emission protocol between the transpiler and a converter as a trace specification: open constructs own their labels, jumps must land on the label "
                "their construct defines, no label twice, every target defined, balanced parentheses, helper routines present exactly when called. A decorator around the real Batch "
                "converter records every Converter call with the line facts of what it appended; TLC validates each trace. Bash scripts are checked with `bash -n`. Rounds 8-9 added spec/FamSkel.tla and spec/FamPairs.tla to the traced programs; TLC's action coverage of Emit!Event is recorded (thorough: every event kind must be taken).",
        "note": "Trusted: TLC; attribution of lines to converter calls by Dump() diff (checked insertion-only); recognition of labels/jumps/calls by line shape; bash -n.",
        "technique": "TLA+ protocol trace specification (Emit) + TLC validation of recorded converter-call traces; bash -n for the Bash target",
    },
    "C05": {
        "text": "No cmd.exe exists in the sandbox, so the Batch target is decided under an explicit TLA+ model of the rules the property names (spec/CmdExe.tla: units, %- and !-expansion phases, "
                "set /A in 32 bits, numeric-vs-text IF, forward-then-wrap label search from the end of the current unit, call/exit /B frames). The REAL emitted script of every program "
                "(C01-C04 families in the int32/cmd-neutral fragment, label-allocation shapes across functions, seeded random programs) is parsed into units and executed by TLC; stdout and "
                "status must equal the reference semantics TshDyn(W=32); the Bash run is a third witness. Rounds 8-9 added spec/FamSkel.tla (every control skeleton up to a size) and spec/FamPairs.tla under the cmd.exe model, the GuardTail family, rule R9 for ') else (' met outside a block, and a guard that ends the run as an infrastructure error when the model cannot execute the script of a program without file / command / input builtins. Rounds 14-15: a share of the programs in other legal spellings; number-looking strings (FamC01 NumStr) taken whole; the scripts go to CmdExe in chunks of 3000.",
        "note": "Trusted: TLC; spec/CmdExe.tla as the statement of cmd.exe's documented rules (a model, not cmd.exe); harness/batparse.go as the splitter of emitted lines into commands and segments.",
        "technique": "TLA+ model of cmd.exe executing the real emitted Batch script in TLC, compared with the TLA+ reference semantics",
    },
    "C09": {
        "text": "spec/TshModules.tla states linking: files visited depth first in import order, each file once, every name qualified by its file, alias.Name resolving to the public function of the "
                "aliased file, private/undefined/unknown-alias calls static errors. TLC links every import graph of spec/FamC09.tla (single, pair, chain, diamonds, two aliases, std + local, "
                "repeated imports followed by top-level code) x content kinds x hash-prefix class, checks the result with TshStatic and validates the recorded Bash run of the real multi-file "
                "program against TshDyn on the linked program (a removed function shows as stderr output); verdicts are compared for both targets. Round 14: 17 more use sites for the unused-function clause (argument of panic, else-if condition, loop initialiser, ...), 16 shapes of function names for the public / private rule.",
        "note": TRUST + " Calls into the bundled std library are replaced in the model program by the values of spec/GoStrings.tla.",
        "technique": "TLA+ linking function (TshModules) + static check + trace validation of real multi-file runs against the TLA+ machine on the linked program",
    },
    "C10": {
        "text": "spec/Rename.tla applies a consistent renaming to the abstract syntax; TLC enumerates spec/FamC10.tla: 13 base programs covering every name-allocating construct x each user "
                "identifier x a catalog of 60 variable / 23 function names the back-ends reserve or inherit from the shell, case-only variants, rotations, and names composed of other names "
                "of the program with '_'. For every renamed program the recorded Bash run must be the behaviour TshDyn prescribes, or the transpiler must refuse; the specification's own "
                "alpha invariance (expectation of renaming = expectation of base) is checked on every case. Captures on the unchanged tree are known findings K13-K15. Batch side: every renamed program without file/command builtins is also converted by the real Batch converter and executed by TLC under spec/CmdExe.tla, in which variable names and labels fold letter case; findings K16-K19. Further name families: 59 name shapes, pairs of one shape, names that coincide once a function number is appended, write-only variables, same-spelling locals in caller and callee. Round 15: names are also DERIVED from the scripts the tree under test emits for the base programs (every name assigned or expanded there, with and without the f<k>_ prefix) and tried as the spelling of every user variable, so that a new hidden-name scheme is met by names no known finding lists.",
        "note": TRUST + " There is no cmd.exe in the sandbox: the Batch script runs under spec/CmdExe.tla.",
        "technique": "TLA+ renaming function (Rename) over TLC-enumerated base x identifier x name families + trace validation of real Bash runs and of the real Batch script under the TLA+ cmd.exe model",
    },
}

NOT_APPLICABLE = {}
