------------------------------ MODULE TshModules ------------------------------
(* Import graphs (C09, C13).  A graph is a function from file names to the sequence of files each imports; names   *)
(* outside the domain are missing files.  Linking visits files depth first in import order.                        *)
EXTENDS Naturals, Sequences, FiniteSets, TLC
Targets(g, f) == {g[f][i] : i \in 1..Len(g[f])}
RECURSIVE ReachN(_, _, _)
ReachN(g, S, n) == IF n = 0 THEN S
                   ELSE ReachN(g, S \cup UNION {Targets(g, f) : f \in S \cap DOMAIN g}, n - 1)
Reach(g, main) == ReachN(g, {main}, Cardinality(DOMAIN g) + 1)            \* files reachable from main (including missing names)
ReachFrom(g, f) == ReachN(g, Targets(g, f), Cardinality(DOMAIN g) + 1)      \* files reachable in one or more steps
OnCycle(g, f) == f \in ReachFrom(g, f)
HasCycle(g, main) == \E f \in Reach(g, main) \cap DOMAIN g : OnCycle(g, f)
HasMissing(g, main) == Reach(g, main) \ DOMAIN g # {}
\* an alias may be used once per importing file: importing the same file twice needs two aliases (the family gives fresh ones)
Links(g, main) == ~HasCycle(g, main) /\ ~HasMissing(g, main)

(***************************************************************************)
(* Linking (C09).  A program is [main, files], files a sequence of         *)
(* [path, imports (sequence of [alias, path]), body].  Link turns it into  *)
(* ONE body for TshDyn/TshStatic:                                           *)
(*  - files are visited depth first in import order, EACH FILE ONCE (a file *)
(*    reached along several paths or under several aliases is defined once  *)
(*    and its top-level code runs once), imports before the importer;       *)
(*  - every name of file f is qualified "f#name", so equal names in         *)
(*    different files never interfere; alias.Name resolves to the PUBLIC    *)
(*    (upper-case initial) function Name of the aliased file;               *)
(*  - a private or undefined name behind an alias, or an unknown alias,     *)
(*    is a static error (LinkError).                                         *)
(***************************************************************************)
FileOf(prog, path) == CHOOSE f \in {prog.files[i] : i \in 1..Len(prog.files)} : f.path = path
HasFile(prog, path) == \E i \in 1..Len(prog.files) : prog.files[i].path = path
ImportGraph(prog) == [p \in {prog.files[i].path : i \in 1..Len(prog.files)} |-> [k \in 1..Len(FileOf(prog, p).imports) |-> FileOf(prog, p).imports[k].path]]
RECURSIVE Visit(_, _, _)            \* depth-first post-order, each file once; `seen` is the sequence of files already placed
Visit(prog, path, seen) ==
  IF \E i \in 1..Len(seen) : seen[i] = path THEN seen
  ELSE LET f == FileOf(prog, path)
           RECURSIVE Through(_, _)
           Through(k, acc) == IF k > Len(f.imports) THEN acc ELSE Through(k + 1, Visit(prog, f.imports[k].path, acc))
       IN Append(Through(1, seen), path)
Order(prog) == Visit(prog, prog.main, <<>>)
Upper == "ABCDEFGHIJKLMNOPQRSTUVWXYZ"
IsPublic(name) == name # "" /\ \E i \in 1..Len(Upper) : SubSeq(Upper, i, i) = SubSeq(name, 1, 1)
Qn(file, name) == file \o "#" \o name
AliasOf(f, a) == LET I == {k \in 1..Len(f.imports) : f.imports[k].alias = a} IN IF I = {} THEN "" ELSE f.imports[CHOOSE k \in I : TRUE].path
FuncNames(f) == {f.body[i].name : i \in {j \in 1..Len(f.body) : f.body[j].k = "func"}}

RECURSIVE QE(_, _), QS(_, _), QEs(_, _, _), QSs(_, _, _)
QEs(es, f, i) == IF i > Len(es) THEN <<>> ELSE <<QE(es[i], f)>> \o QEs(es, f, i + 1)
QSs(ss, f, i) == IF i > Len(ss) THEN <<>> ELSE <<QS(ss[i], f)>> \o QSs(ss, f, i + 1)
QOpt(n, f) == IF n.k = "none" THEN n ELSE QE(n, f)
QE(e, f) ==
  CASE e.k = "var" -> [e EXCEPT !.name = Qn(f.path, @)]
    [] e.k \in {"not", "group", "len", "itoa", "exists", "read"} -> [e EXCEPT !.e = QE(@, f)]
    [] e.k \in {"bin", "cmp", "logic"} -> [e EXCEPT !.l = QE(@, f), !.r = QE(@, f)]
    [] e.k = "call" -> [k |-> "call", alias |-> "", name |-> (IF e.alias = "" THEN Qn(f.path, e.name) ELSE Qn(AliasOf(f, e.alias), e.name)), args |-> QEs(e.args, f, 1)]
    [] e.k = "slicelit" -> [e EXCEPT !.elems = QEs(@, f, 1)]
    [] e.k = "index" -> [e EXCEPT !.x = QE(@, f), !.i = QE(@, f)]
    [] e.k = "substr" -> [e EXCEPT !.x = QE(@, f), !.lo = QOpt(@, f), !.hi = QOpt(@, f)]
    [] e.k = "input" -> [e EXCEPT !.prompt = QOpt(@, f)]
    [] e.k = "copy" -> [e EXCEPT !.dst = Qn(f.path, @), !.src = QE(@, f)]
    [] e.k = "app" -> [e EXCEPT !.chain = [i \in 1..Len(@) |-> [@[i] EXCEPT !.args = QEs(@, f, 1)]]]
    [] OTHER -> e
QNames(ns, f) == [i \in 1..Len(ns) |-> Qn(f.path, ns[i])]
QS(s, f) ==
  CASE s.k = "define" -> [s EXCEPT !.names = QNames(@, f), !.values = QEs(@, f, 1)]
    [] s.k = "assign" -> [s EXCEPT !.names = QNames(@, f), !.values = QEs(@, f, 1)]
    [] s.k = "compound" -> [s EXCEPT !.name = Qn(f.path, @), !.value = QE(@, f)]
    [] s.k = "incdec" -> [s EXCEPT !.name = Qn(f.path, @)]
    [] s.k = "setidx" -> [s EXCEPT !.name = Qn(f.path, @), !.i = QE(@, f), !.v = QE(@, f)]
    [] s.k = "if" -> [s EXCEPT !.branches = [i \in 1..Len(@) |-> [cond |-> QE(@[i].cond, f), body |-> QSs(@[i].body, f, 1)]], !.else = QSs(@, f, 1)]
    [] s.k = "switch" -> [s EXCEPT !.tag = QOpt(@, f), !.cases = [i \in 1..Len(@) |-> [e |-> QE(@[i].e, f), body |-> QSs(@[i].body, f, 1)]], !.default = QSs(@, f, 1)]
    [] s.k = "for" -> [s EXCEPT !.init = (IF @.k = "none" THEN @ ELSE QS(@, f)), !.cond = QOpt(@, f), !.post = (IF @.k = "none" THEN @ ELSE QS(@, f)), !.body = QSs(@, f, 1)]
    [] s.k = "range" -> [s EXCEPT !.i = Qn(f.path, @), !.v = (IF @ = "" THEN "" ELSE Qn(f.path, @)), !.x = QE(@, f), !.body = QSs(@, f, 1)]
    [] s.k = "return" -> [s EXCEPT !.values = QEs(@, f, 1)]
    [] s.k = "print" -> [s EXCEPT !.args = QEs(@, f, 1)]
    [] s.k = "panic" -> [s EXCEPT !.e = QE(@, f)]
    [] s.k = "write" -> [s EXCEPT !.path = QE(@, f), !.data = QE(@, f), !.append = QOpt(@, f)]
    [] s.k = "expr" -> [s EXCEPT !.e = QE(@, f)]
    [] s.k = "func" -> [s EXCEPT !.name = Qn(f.path, @), !.params = [i \in 1..Len(@) |-> [@[i] EXCEPT !.name = Qn(f.path, @)]], !.body = QSs(@, f, 1)]
    [] OTHER -> s
RECURSIVE LinkFrom(_, _, _)
LinkFrom(prog, order, i) == IF i > Len(order) THEN <<>> ELSE QSs(FileOf(prog, order[i]).body, FileOf(prog, order[i]), 1) \o LinkFrom(prog, order, i + 1)
Linked(prog) == LinkFrom(prog, Order(prog), 1)

\* static link errors: calls through aliases
RECURSIVE CE(_), CS(_), CEs(_, _), CSs(_, _)
CEs(es, i) == IF i > Len(es) THEN {} ELSE CE(es[i]) \cup CEs(es, i + 1)
CSs(ss, i) == IF i > Len(ss) THEN {} ELSE CS(ss[i]) \cup CSs(ss, i + 1)
COpt(n) == IF n.k = "none" THEN {} ELSE CE(n)
CE(e) ==
  CASE e.k \in {"not", "group", "len", "itoa", "exists", "read"} -> CE(e.e)
    [] e.k \in {"bin", "cmp", "logic"} -> CE(e.l) \cup CE(e.r)
    [] e.k = "call" -> {[alias |-> e.alias, name |-> e.name]} \cup CEs(e.args, 1)
    [] e.k = "slicelit" -> CEs(e.elems, 1)
    [] e.k = "index" -> CE(e.x) \cup CE(e.i)
    [] e.k = "substr" -> CE(e.x) \cup COpt(e.lo) \cup COpt(e.hi)
    [] e.k = "input" -> COpt(e.prompt)
    [] e.k = "copy" -> CE(e.src)
    [] e.k = "app" -> UNION {CEs(e.chain[i].args, 1) : i \in 1..Len(e.chain)}
    [] OTHER -> {}
CS(s) ==
  CASE s.k \in {"define", "assign", "return"} -> CEs(s.values, 1)
    [] s.k = "compound" -> CE(s.value)
    [] s.k = "setidx" -> CE(s.i) \cup CE(s.v)
    [] s.k = "if" -> UNION {CE(s.branches[i].cond) \cup CSs(s.branches[i].body, 1) : i \in 1..Len(s.branches)} \cup CSs(s.else, 1)
    [] s.k = "switch" -> COpt(s.tag) \cup UNION {CE(s.cases[i].e) \cup CSs(s.cases[i].body, 1) : i \in 1..Len(s.cases)} \cup CSs(s.default, 1)
    [] s.k = "for" -> (IF s.init.k = "none" THEN {} ELSE CS(s.init)) \cup COpt(s.cond) \cup (IF s.post.k = "none" THEN {} ELSE CS(s.post)) \cup CSs(s.body, 1)
    [] s.k = "range" -> CE(s.x) \cup CSs(s.body, 1)
    [] s.k = "print" -> CEs(s.args, 1)
    [] s.k \in {"panic", "expr"} -> CE(s.e)
    [] s.k = "write" -> CE(s.path) \cup CE(s.data) \cup COpt(s.append)
    [] s.k = "func" -> CSs(s.body, 1)
    [] OTHER -> {}
BadCall(prog, f, c) == c.alias # "" /\ (AliasOf(f, c.alias) = "" \/ ~IsPublic(c.name) \/ c.name \notin FuncNames(FileOf(prog, AliasOf(f, c.alias))))
LinkError(prog) ==
  LET g == ImportGraph(prog) IN
  IF HasMissing(g, prog.main) THEN "!missing-import"
  ELSE IF HasCycle(g, prog.main) THEN "!import-cycle"
  ELSE IF \E i \in 1..Len(prog.files) : prog.files[i].path \in Reach(g, prog.main) /\ \E c \in CSs(prog.files[i].body, 1) : BadCall(prog, prog.files[i], c)
       THEN "!bad-qualified-call" ELSE ""
=============================================================================
