package main

// C15 support: vh strcases <in.ndjson> <out.ndjson>: for every call (fn, string args s, int n, slice elems) builds the
// TypeShell program that performs the call through the bundled std/strings and prints the result, and computes what
// Go's package strings returns, in the same output format (calibration of spec/GoStrings.tla).

import (
	"fmt"
	"strconv"
	"strings"
)

func b01(b bool) string {
	if b {
		return "1"
	}
	return "0"
}

func cmdStrCases(args []string) {
	cases := readCases(args[0])
	for _, c := range cases {
		fn := c["fn"].(string)
		sa := []string{}
		for _, x := range list(c["s"]) {
			sa = append(sa, x.(string))
		}
		n := int(c["n"].(float64))
		elems := []string{}
		for _, x := range list(c["elems"]) {
			elems = append(elems, x.(string))
		}
		q := func(i int) string { return quoteStr(sa[i], false) }
		br := func(s string) string { return "[" + s + "]" }
		var src, want string
		call2 := fmt.Sprintf("strings.%s(", fn)
		switch fn {
		case "Index":
			src = "print(" + call2 + q(0) + ", " + q(1) + "))\n"
			want = strconv.Itoa(strings.Index(sa[0], sa[1])) + "\n"
		case "Count":
			src = "print(" + call2 + q(0) + ", " + q(1) + "))\n"
			want = strconv.Itoa(strings.Count(sa[0], sa[1])) + "\n"
		case "Contains":
			src = "print(" + call2 + q(0) + ", " + q(1) + "))\n"
			want = b01(strings.Contains(sa[0], sa[1])) + "\n"
		case "HasPrefix":
			src = "print(" + call2 + q(0) + ", " + q(1) + "))\n"
			want = b01(strings.HasPrefix(sa[0], sa[1])) + "\n"
		case "HasSuffix":
			src = "print(" + call2 + q(0) + ", " + q(1) + "))\n"
			want = b01(strings.HasSuffix(sa[0], sa[1])) + "\n"
		case "Split":
			src = "r := " + call2 + q(0) + ", " + q(1) + ")\nprint(len(r))\nfor i, v := range r {\n\tprint(\"[\" + v + \"]\")\n}\n"
			r := strings.Split(sa[0], sa[1])
			want = strconv.Itoa(len(r)) + "\n"
			for _, v := range r {
				want += br(v) + "\n"
			}
		case "Join":
			es := []string{}
			for _, e := range elems {
				es = append(es, quoteStr(e, false))
			}
			src = "print(\"[\" + strings.Join([]string{" + strings.Join(es, ", ") + "}, " + q(0) + ") + \"]\")\n"
			want = br(strings.Join(elems, sa[0])) + "\n"
		case "Repeat":
			src = "print(\"[\" + strings.Repeat(" + q(0) + ", " + strconv.Itoa(n) + ") + \"]\")\n"
			want = br(strings.Repeat(sa[0], n)) + "\n"
		case "Replace":
			src = "print(\"[\" + strings.Replace(" + q(0) + ", " + q(1) + ", " + q(2) + ", " + strconv.Itoa(n) + ") + \"]\")\n"
			want = br(strings.Replace(sa[0], sa[1], sa[2], n)) + "\n"
		case "ReplaceAll":
			src = "print(\"[\" + strings.ReplaceAll(" + q(0) + ", " + q(1) + ", " + q(2) + ") + \"]\")\n"
			want = br(strings.ReplaceAll(sa[0], sa[1], sa[2])) + "\n"
		case "Cut":
			src = "x, y, z := strings.Cut(" + q(0) + ", " + q(1) + ")\nprint(\"[\" + x + \"][\" + y + \"]\", z)\n"
			x, y, z := strings.Cut(sa[0], sa[1])
			want = br(x) + br(y) + " " + b01(z) + "\n"
		case "CutPrefix":
			src = "x, z := strings.CutPrefix(" + q(0) + ", " + q(1) + ")\nprint(\"[\" + x + \"]\", z)\n"
			x, z := strings.CutPrefix(sa[0], sa[1])
			want = br(x) + " " + b01(z) + "\n"
		case "CutSuffix":
			src = "x, z := strings.CutSuffix(" + q(0) + ", " + q(1) + ")\nprint(\"[\" + x + \"]\", z)\n"
			x, z := strings.CutSuffix(sa[0], sa[1])
			want = br(x) + " " + b01(z) + "\n"
		case "TrimPrefix":
			src = "print(\"[\" + strings.TrimPrefix(" + q(0) + ", " + q(1) + ") + \"]\")\n"
			want = br(strings.TrimPrefix(sa[0], sa[1])) + "\n"
		case "TrimSuffix":
			src = "print(\"[\" + strings.TrimSuffix(" + q(0) + ", " + q(1) + ") + \"]\")\n"
			want = br(strings.TrimSuffix(sa[0], sa[1])) + "\n"
		case "TrimLeft":
			src = "print(\"[\" + strings.TrimLeft(" + q(0) + ", " + q(1) + ") + \"]\")\n"
			want = br(strings.TrimLeft(sa[0], sa[1])) + "\n"
		case "TrimRight":
			src = "print(\"[\" + strings.TrimRight(" + q(0) + ", " + q(1) + ") + \"]\")\n"
			want = br(strings.TrimRight(sa[0], sa[1])) + "\n"
		case "Trim":
			src = "print(\"[\" + strings.Trim(" + q(0) + ", " + q(1) + ") + \"]\")\n"
			want = br(strings.Trim(sa[0], sa[1])) + "\n"
		case "TrimSpace":
			src = "print(\"[\" + strings.TrimSpace(" + q(0) + ") + \"]\")\n"
			want = br(strings.TrimSpace(sa[0])) + "\n"
		default:
			fatal("unknown function %s", fn)
		}
		// every second call runs AFTER other uses of the library and of the helper routines in the same script (round 16: the substring helper left a stale
		// result behind for an empty subject; a script with one call cannot see that); the warm-up prints nothing, so the expectation is unchanged
		warm := ""
		if id, _ := c["id"].(string); (len(sa) > 0 && sa[0] == "") || (len(id) > 0 && (len(id)+int(id[len(id)-1]))%2 == 0) {
			warm = "w0 := \"warm up\"\nw1 := w0[1:4] + w0[:2] + w0[5]\nw2 := strings.HasPrefix(w0, \"wa\") && strings.Contains(w1, \"rm\")\nw3 := strings.Replace(w0, \"m\", \"mm\", -1) + strings.TrimSuffix(w0, \"up\")\n" +
				"w4 := strings.Split(w3, \" \")\nw5 := strings.Join(w4, \"-\") + strings.Repeat(w1, 2)\nw6 := w0[0:3]\nif len(w5) < 0 || w2 == false || w6 == \"\" {\n\tprint(\"never\")\n}\n"
		}
		c["src"] = "import \"strings\"\n" + warm + src
		c["go"] = want
	}
	writeCases(args[1], cases)
}
