------------------------------- MODULE Rename -------------------------------
(* Consistent renaming of the user's identifiers (C10).  rho = [v |-> map of variable/parameter names, f |-> map of  *)
(* function names]; names outside the maps stay.  Rename(body, rho) is the program with every occurrence renamed.   *)
(* For an injective rho that avoids the names already in the program the result has the same static verdict and the *)
(* same run under TshDyn (alpha invariance) - checked on every family member by comparing the specification's own    *)
(* expectations for base and renamed program.                                                                         *)
EXTENDS Integers, Sequences, FiniteSets, TLC
MV(rho, n) == IF n \in DOMAIN rho.v THEN rho.v[n] ELSE n
MF(rho, n) == IF n \in DOMAIN rho.f THEN rho.f[n] ELSE n
RECURSIVE RE(_, _), RS(_, _), REs(_, _, _), RSs(_, _, _)
REs(es, f, i) == IF i > Len(es) THEN <<>> ELSE <<RE(es[i], f)>> \o REs(es, f, i + 1)
RSs(ss, f, i) == IF i > Len(ss) THEN <<>> ELSE <<RS(ss[i], f)>> \o RSs(ss, f, i + 1)
ROpt(n, f) == IF n.k = "none" THEN n ELSE RE(n, f)
RE(e, f) ==
  CASE e.k = "var" -> [e EXCEPT !.name = MV(f, @)]
    [] e.k \in {"not", "group", "len", "itoa", "exists", "read"} -> [e EXCEPT !.e = RE(@, f)]
    [] e.k \in {"bin", "cmp", "logic"} -> [e EXCEPT !.l = RE(@, f), !.r = RE(@, f)]
    [] e.k = "call" -> [k |-> "call", alias |-> e.alias, name |-> (IF e.alias = "" THEN MF(f, e.name) ELSE e.name), args |-> REs(e.args, f, 1)]
    [] e.k = "slicelit" -> [e EXCEPT !.elems = REs(@, f, 1)]
    [] e.k = "index" -> [e EXCEPT !.x = RE(@, f), !.i = RE(@, f)]
    [] e.k = "substr" -> [e EXCEPT !.x = RE(@, f), !.lo = ROpt(@, f), !.hi = ROpt(@, f)]
    [] e.k = "input" -> [e EXCEPT !.prompt = ROpt(@, f)]
    [] e.k = "copy" -> [e EXCEPT !.dst = MV(f, @), !.src = RE(@, f)]
    [] e.k = "app" -> [e EXCEPT !.chain = [i \in 1..Len(@) |-> [@[i] EXCEPT !.args = REs(@, f, 1)]]]
    [] OTHER -> e
RNames(ns, f) == [i \in 1..Len(ns) |-> MV(f, ns[i])]
RS(s, f) ==
  CASE s.k = "define" -> [s EXCEPT !.names = RNames(@, f), !.values = REs(@, f, 1)]
    [] s.k = "assign" -> [s EXCEPT !.names = RNames(@, f), !.values = REs(@, f, 1)]
    [] s.k = "compound" -> [s EXCEPT !.name = MV(f, @), !.value = RE(@, f)]
    [] s.k = "incdec" -> [s EXCEPT !.name = MV(f, @)]
    [] s.k = "setidx" -> [s EXCEPT !.name = MV(f, @), !.i = RE(@, f), !.v = RE(@, f)]
    [] s.k = "if" -> [s EXCEPT !.branches = [i \in 1..Len(@) |-> [cond |-> RE(@[i].cond, f), body |-> RSs(@[i].body, f, 1)]], !.else = RSs(@, f, 1)]
    [] s.k = "switch" -> [s EXCEPT !.tag = ROpt(@, f), !.cases = [i \in 1..Len(@) |-> [e |-> RE(@[i].e, f), body |-> RSs(@[i].body, f, 1)]], !.default = RSs(@, f, 1)]
    [] s.k = "for" -> [s EXCEPT !.init = (IF @.k = "none" THEN @ ELSE RS(@, f)), !.cond = ROpt(@, f), !.post = (IF @.k = "none" THEN @ ELSE RS(@, f)), !.body = RSs(@, f, 1)]
    [] s.k = "range" -> [s EXCEPT !.i = MV(f, @), !.v = (IF @ = "" THEN "" ELSE MV(f, @)), !.x = RE(@, f), !.body = RSs(@, f, 1)]
    [] s.k = "return" -> [s EXCEPT !.values = REs(@, f, 1)]
    [] s.k = "print" -> [s EXCEPT !.args = REs(@, f, 1)]
    [] s.k = "panic" -> [s EXCEPT !.e = RE(@, f)]
    [] s.k = "write" -> [s EXCEPT !.path = RE(@, f), !.data = RE(@, f), !.append = ROpt(@, f)]
    [] s.k = "expr" -> [s EXCEPT !.e = RE(@, f)]
    [] s.k = "func" -> [s EXCEPT !.name = MF(f, @), !.params = [i \in 1..Len(@) |-> [@[i] EXCEPT !.name = MV(f, @)]], !.body = RSs(@, f, 1)]
    [] OTHER -> s
Rename(body, rho) == RSs(body, rho, 1)
=============================================================================
