package main

// Runner: the REAL pipeline. Renders a case, transpiles it with the converters built from the repository's
// working tree, executes the emitted Bash under /bin/bash in an empty directory and environment, and records
// the observable projection (DESIGN.md 4.2).

import (
	"bufio"
	"bytes"
	"crypto/sha256"
	"encoding/json"
	"fmt"
	"io"
	"os"
	"os/exec"
	"path/filepath"
	"runtime/debug"
	"sort"
	"strings"
	"sync"
	"syscall"
	"time"

	"github.com/monstermichl/typeshell/converters/bash"
	"github.com/monstermichl/typeshell/converters/batch"
	"github.com/monstermichl/typeshell/transpiler"
)

type fileEnt struct {
	Path    string `json:"path"`
	Content string `json:"content"`
}

type alogEnt struct {
	Name  string   `json:"name"`
	Args  []string `json:"args"`
	Stdin string   `json:"stdin"`
}

type obs struct {
	Accepted bool      `json:"accepted"`
	Err      string    `json:"err"`
	Panic    bool      `json:"panic"`
	Out      string    `json:"out"`
	ErrEmpty bool      `json:"errEmpty"`
	Stderr   string    `json:"stderr"`
	Code     int       `json:"code"`
	Hang     bool      `json:"hang"`
	Fs       []fileEnt `json:"fs"`
	Alog     []alogEnt `json:"alog"`
	Sha      string    `json:"sha"`
	Canary   bool      `json:"canary"`
}

func readCases(path string) []N {
	f, err := os.Open(path)
	if err != nil {
		fatal("open cases: %v", err)
	}
	defer f.Close()
	r := bufio.NewReaderSize(f, 1<<20)
	out := []N{}
	for {
		line, err := r.ReadBytes('\n')
		if len(bytes.TrimSpace(line)) > 0 {
			var c N
			if e := json.Unmarshal(line, &c); e != nil {
				fatal("bad case line: %v", e)
			}
			out = append(out, c)
		}
		if err == io.EOF {
			break
		}
		if err != nil {
			fatal("read cases: %v", err)
		}
	}
	return out
}

func writeCases(path string, cases []N) {
	f, err := os.Create(path)
	if err != nil {
		fatal("create: %v", err)
	}
	w := bufio.NewWriterSize(f, 1<<20)
	enc := json.NewEncoder(w)
	enc.SetEscapeHTML(false)
	for _, c := range cases {
		if err := enc.Encode(c); err != nil {
			fatal("encode: %v", err)
		}
	}
	w.Flush()
	f.Close()
}

// materialise writes the source files of a case below dir and returns the main file.
func materialise(c N, dir string) (string, string) {
	os.MkdirAll(dir, 0o755)
	prog, _ := c["prog"].(N)
	if src, ok := c["src"].(string); ok && (prog == nil || prog["files"] == nil) {
		mainFile := filepath.Join(dir, "main.tsh")
		os.WriteFile(mainFile, []byte(src), 0o644)
		if files, ok := c["files"].([]any); ok { // extra raw files next to the main file
			for _, f := range files {
				fn := f.(N)
				p := filepath.Join(dir, fn["path"].(string))
				os.MkdirAll(filepath.Dir(p), 0o755)
				os.WriteFile(p, []byte(fn["content"].(string)), 0o644)
			}
		}
		return mainFile, src
	}
	if files, ok := prog["files"].([]any); ok {
		mainPath := str(prog["main"])
		mainSrc := ""
		for _, f := range files {
			fn := f.(N)
			var text string
			if raw, ok := fn["text"].(string); ok {
				text = raw
			} else {
				text = renderFile(list(fn["imports"]), respell(list(fn["body"]), str(c["spell"])))
				if c["spell"] == "airy" {
					text = airy(text)
				}
			}
			// a file may ask for a content hash (the parser's name prefix for imported files) that starts with a digit or a letter
			if hc, ok := fn["hash"].(string); ok {
				for n := 0; n < 4096; n++ {
					cand := text
					if n > 0 {
						cand = text + fmt.Sprintf("// nonce %d\n", n)
					}
					sum := sha256.Sum256([]byte(cand))
					first := fmt.Sprintf("%x", sum[:1])[0]
					isDigit := first >= '0' && first <= '9'
					if (hc == "digit") == isDigit {
						text = cand
						break
					}
				}
			}
			p := filepath.Join(dir, fn["path"].(string))
			os.MkdirAll(filepath.Dir(p), 0o755)
			os.WriteFile(p, []byte(text), 0o644)
			if fn["path"].(string) == mainPath {
				mainSrc = text
			}
		}
		return filepath.Join(dir, mainPath), mainSrc
	}
	src := renderFile(list(prog["imports"]), respell(list(prog["body"]), str(c["spell"])))
	if c["spell"] == "airy" {
		src = airy(src)
	}
	mainFile := filepath.Join(dir, "main.tsh")
	os.WriteFile(mainFile, []byte(src), 0o644)
	return mainFile, src
}

func newConverter(target string) transpiler.Converter {
	if target == "batch" {
		return batch.New()
	}
	return bash.New()
}

// transpileSafe calls the library under recover(); a panic is reported, never propagated.
func transpileSafe(file string, target string) (script string, err error, panicked bool) {
	defer func() {
		if r := recover(); r != nil {
			err = fmt.Errorf("PANIC: %v", r)
			script = ""
			panicked = true
		}
	}()
	t := transpiler.New()
	script, err = t.Transpile(file, newConverter(target))
	return
}

func appNames(v any, acc map[string]bool) {
	switch x := v.(type) {
	case map[string]any:
		if x["k"] == "app" {
			for _, st := range list(x["chain"]) {
				acc[st.(N)["name"].(string)] = true
			}
		}
		for _, y := range x {
			appNames(y, acc)
		}
	case []any:
		for _, y := range x {
			appNames(y, acc)
		}
	}
}

// decoyMark is the content of the decoy files: regular files placed in the working directory so that a value with pattern
// characters (* ? [..]) that reaches the shell unquoted EXPANDS to something else (in an empty directory it would stay as it is
// and the omission would be invisible). An untouched decoy is not part of the observed file system; a changed one is.
const decoyMark = "vh-decoy\n"

// allStrings collects every string value of a case (literals, stdin lines, file contents).
func allStrings(v any, acc map[string]bool) {
	switch x := v.(type) {
	case string:
		acc[x] = true
	case map[string]any:
		for _, y := range x {
			allStrings(y, acc)
		}
	case []any:
		for _, y := range x {
			allStrings(y, acc)
		}
	}
}

// decoyFor returns a file name the pattern word w matches (and that differs from w), or "".
func decoyFor(w string) string {
	var b strings.Builder
	for i := 0; i < len(w); i++ {
		switch c := w[i]; c {
		case '*':
			b.WriteString("Gq")
		case '?':
			b.WriteByte('G')
		case '[':
			j := strings.IndexByte(w[i+1:], ']')
			if j < 1 || w[i+1] == '!' || w[i+1] == '^' {
				return ""
			}
			b.WriteByte(w[i+1])
			i += j + 1
		case '/', 0, '\\':
			return ""
		default:
			b.WriteByte(c)
		}
	}
	if b.String() == w || b.Len() == 0 || b.Len() > 60 || b.String() == "." || b.String() == ".." {
		return ""
	}
	return b.String()
}

func installDecoys(prog N, wd string) {
	strs := map[string]bool{}
	allStrings(prog, strs)
	names := map[string]bool{"Gq": true}
	for s := range strs {
		if !strings.ContainsAny(s, "*?[") || len(s) > 80 {
			continue
		}
		for _, w := range strings.FieldsFunc(s, func(r rune) bool { return r == ' ' || r == '\t' || r == '\n' }) {
			if strings.ContainsAny(w, "*?[") {
				if d := decoyFor(w); d != "" {
					names[d] = true
				}
			}
		}
	}
	for d := range names {
		if strs[d] {
			continue // the program talks about this very name
		}
		p := filepath.Join(wd, d)
		if _, err := os.Lstat(p); err == nil {
			continue
		}
		os.WriteFile(p, []byte(decoyMark), 0o644)
	}
}

func snapshot(root string) []fileEnt {
	ents := []fileEnt{}
	filepath.Walk(root, func(p string, info os.FileInfo, err error) error {
		if err != nil || info.IsDir() || info.Mode()&os.ModeSymlink != 0 { // symlinks are the probe programs the harness installed
			return nil
		}
		rel, _ := filepath.Rel(root, p)
		b, _ := os.ReadFile(p)
		if string(b) == decoyMark {
			return nil
		}
		ents = append(ents, fileEnt{Path: rel, Content: string(b)})
		return nil
	})
	sort.Slice(ents, func(i, j int) bool { return ents[i].Path < ents[j].Path })
	return ents
}

func runBash(c N, dir string, self string, timeout time.Duration) (obs, string, string) {
	mainFile, src := materialise(c, filepath.Join(dir, "src"))
	script, err, panicked := transpileSafe(mainFile, "bash")
	if err != nil {
		return obs{Accepted: false, Err: err.Error(), Panic: panicked, Fs: []fileEnt{}, Alog: []alogEnt{}}, src, ""
	}
	o := obs{Accepted: true, Fs: []fileEnt{}, Alog: []alogEnt{}}
	sum := sha256.Sum256([]byte(script))
	o.Sha = fmt.Sprintf("%x", sum[:8])
	sf := filepath.Join(dir, "main.sh")
	os.WriteFile(sf, []byte(script), 0o755)
	wd := filepath.Join(dir, "w d") // a blank in the path of the working directory: nothing a script does may depend on it
	os.MkdirAll(wd, 0o755)
	bin := filepath.Join(dir, "bin")
	os.MkdirAll(bin, 0o755)
	prog, _ := c["prog"].(N)
	stdin := ""
	if prog != nil {
		if world, ok := prog["world"].(N); ok {
			for _, f := range list(world["fs"]) {
				fn := f.(N)
				p := filepath.Join(wd, fn["path"].(string))
				os.MkdirAll(filepath.Dir(p), 0o755)
				os.WriteFile(p, []byte(fn["content"].(string)), 0o644)
			}
			for _, l := range list(world["stdin"]) {
				stdin += l.(string) + "\n"
			}
		}
		apps := map[string]bool{}
		appNames(prog, apps)
		for name := range apps {
			if !strings.ContainsAny(name, "/\\") {
				os.Symlink(self, filepath.Join(bin, name))
			} else if !filepath.IsAbs(name) && !strings.Contains(name, "..") {
				// a program named by a relative path (string-literal form): installed below the working directory
				p := filepath.Join(wd, name)
				os.MkdirAll(filepath.Dir(p), 0o755)
				os.Symlink(self, p)
			}
		}
	}
	if prog != nil && os.Getenv("VH_NO_DECOYS") == "" {
		installDecoys(prog, wd)
	}
	logf := filepath.Join(dir, "probe.log")
	cmd := exec.Command("/bin/bash", sf)
	cmd.Dir = wd
	cmd.Env = []string{"PATH=" + bin + ":/usr/bin:/bin", "VH_PROBE_LOG=" + logf}
	cmd.Stdin = strings.NewReader(stdin)
	cmd.SysProcAttr = &syscall.SysProcAttr{Setpgid: true}
	var so, se bytes.Buffer
	cmd.Stdout, cmd.Stderr = &limitWriter{w: &so, n: 1 << 20}, &limitWriter{w: &se, n: 1 << 16}
	if err := cmd.Start(); err != nil {
		o.Err = "start: " + err.Error()
		o.Hang = true
		return o, src, script
	}
	done := make(chan error, 1)
	go func() { done <- cmd.Wait() }()
	select {
	case <-done:
	case <-time.After(timeout):
		syscall.Kill(-cmd.Process.Pid, syscall.SIGKILL)
		<-done
		o.Hang = true
	}
	o.Out, o.Stderr, o.ErrEmpty = so.String(), se.String(), se.Len() == 0
	o.Code = cmd.ProcessState.ExitCode()
	o.Fs = snapshot(wd)
	if b, err := os.ReadFile(logf); err == nil {
		for _, line := range bytes.Split(b, []byte("\n")) {
			if len(line) == 0 {
				continue
			}
			var e alogEnt
			if json.Unmarshal(line, &e) == nil {
				if e.Args == nil {
					e.Args = []string{}
				}
				o.Alog = append(o.Alog, e)
			}
		}
	}
	if _, err := os.Stat(filepath.Join(wd, "CANARY")); err == nil {
		o.Canary = true
	}
	return o, src, script
}

type limitWriter struct {
	w io.Writer
	n int
}

func (l *limitWriter) Write(p []byte) (int, error) {
	if l.n <= 0 {
		return len(p), nil
	}
	q := p
	if len(q) > l.n {
		q = q[:l.n]
	}
	l.n -= len(q)
	l.w.Write(q)
	return len(p), nil
}

// cmdRun: vh run <cases.ndjson> <out.ndjson> <scratchdir> [-j N] [-keep]
func cmdRun(args []string) {
	in, out, scratch := args[0], args[1], args[2]
	jobs := 16
	keepScripts := false
	timeout := 20 * time.Second
	for i := 3; i < len(args); i++ {
		switch args[i] {
		case "-j":
			fmt.Sscan(args[i+1], &jobs)
			i++
		case "-scripts":
			keepScripts = true
		case "-timeout":
			var s int
			fmt.Sscan(args[i+1], &s)
			timeout = time.Duration(s) * time.Second
			i++
		}
	}
	debug.SetMaxStack(256 << 20)
	self, _ := os.Executable()
	cases := readCases(in)
	var wg sync.WaitGroup
	sem := make(chan struct{}, jobs)
	for i := range cases {
		wg.Add(1)
		sem <- struct{}{}
		go func(i int) {
			defer wg.Done()
			defer func() { <-sem }()
			dir := filepath.Join(scratch, fmt.Sprintf("c%06d", i))
			o, src, script := runBash(cases[i], dir, self, timeout)
			cases[i]["src"] = src
			if keepScripts {
				cases[i]["script"] = script
			}
			var on N
			b, _ := json.Marshal(o)
			json.Unmarshal(b, &on)
			cases[i]["obs"] = on
			os.RemoveAll(dir)
		}(i)
	}
	wg.Wait()
	writeCases(out, cases)
}

// probe mode: the binary, invoked under another name through a symlink, is the command-call probe of C18.
func probeMain(name string) {
	args := os.Args[1:]
	in, _ := io.ReadAll(os.Stdin)
	var b strings.Builder
	b.WriteString(name)
	for _, a := range args {
		b.WriteString("[" + a + "]")
	}
	b.WriteString("\n")
	// log first: the next stage of a pipeline sees end-of-input only after this process has logged
	if lf := os.Getenv("VH_PROBE_LOG"); lf != "" {
		if args == nil {
			args = []string{}
		}
		e, _ := json.Marshal(alogEnt{Name: name, Args: args, Stdin: string(in)})
		f, err := os.OpenFile(lf, os.O_APPEND|os.O_CREATE|os.O_WRONLY, 0o644)
		if err == nil {
			f.Write(append(e, '\n'))
			f.Close()
		}
	}
	os.Stdout.WriteString(b.String())
	os.Stdout.Write(in)
	os.Stdout.Close()
	code := 0
	if len(args) > 0 && len(args[0]) > 1 && args[0][0] == 'x' {
		n := 0
		ok := true
		for _, ch := range args[0][1:] {
			if ch < '0' || ch > '9' {
				ok = false
				break
			}
			n = n*10 + int(ch-'0')
		}
		if ok {
			code = n % 256
		}
	}
	os.Exit(code)
}
