package main

// C05 support: vh batch <cases.ndjson> <out.ndjson> <scratch>: transpiles every program with the REAL Batch converter and
// parses the emitted text into the units CmdExe.tla executes (batparse.go).  Lines outside the inventory are kept as
// op "unsupported" (with their text) so that the model stops there and the case is never compared.

import (
	"fmt"
	"os"
	"path/filepath"
	"sync"
)

func collectUnsupported(v any, acc *[]string) {
	switch x := v.(type) {
	case map[string]any:
		if x["op"] == "unsupported" {
			*acc = append(*acc, fmt.Sprint(x["text"]))
		}
		for _, y := range x {
			collectUnsupported(y, acc)
		}
	case []any:
		for _, y := range x {
			collectUnsupported(y, acc)
		}
	}
}

func cmdBatch(args []string) {
	cases := readCases(args[0])
	scratch := args[2]
	var wg sync.WaitGroup
	sem := make(chan struct{}, 16)
	for i := range cases {
		wg.Add(1)
		sem <- struct{}{}
		go func(i int) {
			defer wg.Done()
			defer func() { <-sem }()
			c := cases[i]
			dir := filepath.Join(scratch, fmt.Sprintf("b%06d", i))
			mainFile, src := materialise(c, dir)
			c["src"] = src
			script, err, _ := transpileSafe(mainFile, "batch")
			os.RemoveAll(dir)
			if err != nil {
				c["batAccepted"] = false
				c["batErr"] = firstLine(err.Error())
				return
			}
			c["batAccepted"] = true
			c["bat"] = script
			parsed := ParseScript(script)
			uns := []string{}
			collectUnsupported(parsed, &uns)
			c["script"] = parsed
			c["unsupported"] = uns
		}(i)
	}
	wg.Wait()
	writeCases(args[1], cases)
}
