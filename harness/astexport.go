//go:build astexport

package main

// vh astexport <cases.ndjson> <out.ndjson> <scratch>: parses the source text of every case with the REAL parser and exports the
// (linked, desugared, cleaned) program through the parser's public getters into the abstract syntax of spec/TshAst.tla, so that
// programs that exist only as text (the repository's own test programs, examples, std/*.tsh) can be run by TshDyn.
// The parser desugars: switch -> if chain of == comparisons, range -> three-part loop, op= and ++ -> assignment, nil -> "",
// s[a:b] -> inclusive end index (b - 1).  The exporter undoes only the last one.
//
// vh repotests <repo> <out.ndjson>: extracts with go/ast every program literal passed to a transpilerFunc in tests/*.go together
// with the expectation the test states (expected stdout, or that an error is expected).

import (
	"fmt"
	"go/ast"
	goparser "go/parser"
	"go/token"
	"os"
	"path/filepath"
	"strconv"
	"strings"

	"github.com/monstermichl/typeshell/parser"
)

type exporter struct {
	defined []map[string]bool
}

func (x *exporter) isDefined(n string) bool {
	for _, m := range x.defined {
		if m[n] {
			return true
		}
	}
	return false
}
func (x *exporter) define(n string) { x.defined[len(x.defined)-1][n] = true }

func tyName(vt parser.ValueType) string { return vt.String() }

func (x *exporter) exprs(es []parser.Expression) []any {
	out := []any{}
	for _, e := range es {
		out = append(out, x.expr(e))
	}
	return out
}

func (x *exporter) expr(e parser.Expression) N {
	if e == nil {
		return N{"k": "none"}
	}
	switch v := e.(type) {
	case parser.BooleanLiteral:
		return N{"k": "bool", "v": v.Value()}
	case parser.IntegerLiteral:
		return N{"k": "int", "v": strconv.Itoa(v.Value())}
	case parser.StringLiteral:
		return N{"k": "str", "v": v.Value(), "raw": false}
	case parser.UnaryOperation:
		return N{"k": "not", "e": x.expr(v.Expression())}
	case parser.BinaryOperation:
		return N{"k": "bin", "op": v.Operator(), "l": x.expr(v.Left()), "r": x.expr(v.Right())}
	case parser.Comparison:
		return N{"k": "cmp", "op": v.Operator(), "l": x.expr(v.Left()), "r": x.expr(v.Right())}
	case parser.LogicalOperation:
		return N{"k": "logic", "op": v.Operator(), "l": x.expr(v.Left()), "r": x.expr(v.Right())}
	case parser.Group:
		return N{"k": "group", "e": x.expr(v.Child())}
	case parser.VariableEvaluation:
		return N{"k": "var", "name": v.Name()}
	case parser.FunctionCall:
		return N{"k": "call", "alias": "", "name": v.Name(), "args": x.exprs(v.Args())}
	case parser.AppCall:
		chain := []any{}
		for c := &v; c != nil; c = c.Next() {
			chain = append(chain, N{"name": c.Name(), "lit": false, "args": x.exprs(c.Args())})
		}
		return N{"k": "app", "chain": chain}
	case parser.SliceInstantiation:
		return N{"k": "slicelit", "ty": strings.TrimPrefix(tyName(v.ValueType()), "[]"), "elems": x.exprs(v.Values())}
	case parser.SliceEvaluation:
		return N{"k": "index", "x": x.expr(v.Value()), "i": x.expr(v.Index())}
	case parser.StringSubscript:
		if !v.HasEndIndex() {
			return N{"k": "index", "x": x.expr(v.Value()), "i": x.expr(v.StartIndex())}
		}
		// the parser stores an inclusive end index "b - 1"; undo it
		var hi N
		if b, ok := v.EndIndex().(parser.BinaryOperation); ok && b.Operator() == "-" {
			if one, ok := b.Right().(parser.IntegerLiteral); ok && one.Value() == 1 {
				hi = x.expr(b.Left())
			}
		}
		if hi == nil {
			hi = N{"k": "bin", "op": "+", "l": x.expr(v.EndIndex()), "r": N{"k": "int", "v": "1"}}
		}
		return N{"k": "substr", "x": x.expr(v.Value()), "lo": x.expr(v.StartIndex()), "hi": hi}
	case parser.Len:
		return N{"k": "len", "e": x.expr(v.Expression())}
	case parser.Itoa:
		return N{"k": "itoa", "e": x.expr(v.Value())}
	case parser.Exists:
		return N{"k": "exists", "e": x.expr(v.Path())}
	case parser.Read:
		return N{"k": "read", "e": x.expr(v.Path())}
	case parser.Input:
		return N{"k": "input", "prompt": x.expr(v.Prompt())}
	case parser.Copy:
		return N{"k": "copy", "dst": v.Destination().Name(), "src": x.expr(v.Source())}
	}
	panic(fmt.Sprintf("astexport: unknown expression %T", e))
}

func (x *exporter) block(ss []parser.Statement) []any {
	x.defined = append(x.defined, map[string]bool{})
	out := []any{}
	for _, s := range ss {
		out = append(out, x.stmt(s))
	}
	x.defined = x.defined[:len(x.defined)-1]
	return out
}

func varNames(vs []parser.Variable) []any {
	out := []any{}
	for _, v := range vs {
		out = append(out, v.Name())
	}
	return out
}

// storeStmt: a definition if any target is not defined yet (the parser turns range variables into plain assignments)
func (x *exporter) storeStmt(vs []parser.Variable, values []any, isDef bool) N {
	def := isDef
	for _, v := range vs {
		if !x.isDefined(v.Name()) {
			def = true
		}
	}
	for _, v := range vs {
		x.define(v.Name())
	}
	if def {
		return N{"k": "define", "form": "short", "names": varNames(vs), "ty": "", "values": values}
	}
	return N{"k": "assign", "names": varNames(vs), "values": values}
}

func (x *exporter) stmt(s parser.Statement) N {
	switch v := s.(type) {
	case parser.VariableDefinition:
		return x.storeStmt(v.Variables(), x.exprs(v.Values()), true)
	case parser.VariableDefinitionCallAssignment:
		return x.storeStmt(v.Variables(), []any{x.expr(v.Call())}, true)
	case parser.VariableAssignment:
		return x.storeStmt(v.Variables(), x.exprs(v.Values()), false)
	case parser.VariableAssignmentCallAssignment:
		return x.storeStmt(v.Variables(), []any{x.expr(v.Call())}, false)
	case parser.SliceAssignment:
		return N{"k": "setidx", "name": v.Name(), "i": x.expr(v.Index()), "v": x.expr(v.Value())}
	case parser.FunctionDefinition:
		x.defined = append(x.defined, map[string]bool{})
		params := []any{}
		for _, p := range v.Params() {
			params = append(params, N{"name": p.Name(), "ty": tyName(p.ValueType())})
			x.define(p.Name())
		}
		results := []any{}
		for _, r := range v.ReturnTypes() {
			results = append(results, tyName(r))
		}
		body := x.block(v.Body())
		x.defined = x.defined[:len(x.defined)-1]
		return N{"k": "func", "name": v.Name(), "params": params, "results": results, "body": body}
	case parser.Return:
		return N{"k": "return", "values": x.exprs(v.Values())}
	case parser.If:
		brs := []any{N{"cond": x.expr(v.IfBranch().Condition()), "body": x.block(v.IfBranch().Body())}}
		for _, b := range v.ElseIfBranches() {
			brs = append(brs, N{"cond": x.expr(b.Condition()), "body": x.block(b.Body())})
		}
		els := []any{}
		if v.HasElse() {
			els = x.block(v.Else().Body())
		}
		return N{"k": "if", "branches": brs, "else": els}
	case parser.For:
		x.defined = append(x.defined, map[string]bool{})
		var init, post any = N{"k": "none"}, N{"k": "none"}
		if v.Init() != nil {
			init = x.stmt(v.Init())
		}
		cond := x.expr(v.Condition())
		if v.Increment() != nil {
			post = x.stmt(v.Increment())
		}
		body := x.block(v.Body())
		x.defined = x.defined[:len(x.defined)-1]
		return N{"k": "for", "form": "three", "init": init, "cond": cond, "post": post, "body": body}
	case parser.Break:
		return N{"k": "break"}
	case parser.Continue:
		return N{"k": "continue"}
	case parser.Print:
		return N{"k": "print", "args": x.exprs(v.Expressions())}
	case parser.Panic:
		return N{"k": "panic", "e": x.expr(v.Expression())}
	case parser.Write:
		return N{"k": "write", "path": x.expr(v.Path()), "data": x.expr(v.Data()), "append": x.expr(v.Append())}
	}
	if e, ok := s.(parser.Expression); ok {
		return N{"k": "expr", "e": x.expr(e)}
	}
	panic(fmt.Sprintf("astexport: unknown statement %T", s))
}

func exportProgram(mainFile string) (body []any, err error) {
	defer func() {
		if r := recover(); r != nil {
			err = fmt.Errorf("export: %v", r)
		}
	}()
	p := parser.New()
	prog, perr := p.Parse(mainFile)
	if perr != nil {
		return nil, perr
	}
	x := &exporter{defined: []map[string]bool{{}}}
	body = []any{}
	for _, s := range prog.Body() {
		body = append(body, x.stmt(s))
	}
	return body, nil
}

func cmdAstExport(args []string) {
	cases := readCases(args[0])
	scratch := args[2]
	for i, c := range cases {
		dir := filepath.Join(scratch, fmt.Sprintf("x%06d", i))
		mainFile, _ := materialise(c, dir)
		body, err := exportProgram(mainFile)
		os.RemoveAll(dir)
		if err != nil {
			c["exportErr"] = firstLine(err.Error())
			continue
		}
		c["mbody"] = body
	}
	writeCases(args[1], cases)
}

// ---- repository test programs -------------------------------------------------------------------------------------

func strLit(e ast.Expr) (string, bool) {
	switch v := e.(type) {
	case *ast.BasicLit:
		if v.Kind == token.STRING {
			s, err := strconv.Unquote(v.Value)
			return s, err == nil
		}
	case *ast.BinaryExpr:
		if v.Op == token.ADD {
			l, ok1 := strLit(v.X)
			r, ok2 := strLit(v.Y)
			return l + r, ok1 && ok2
		}
	case *ast.ParenExpr:
		return strLit(v.X)
	case *ast.CallExpr: // strings.TrimSpace(`...`)
		if sel, ok := v.Fun.(*ast.SelectorExpr); ok && sel.Sel.Name == "TrimSpace" && len(v.Args) == 1 {
			s, ok := strLit(v.Args[0])
			return strings.TrimSpace(s), ok
		}
	}
	return "", false
}

func cmdRepoTests(args []string) {
	repo := args[0]
	fset := token.NewFileSet()
	files, _ := filepath.Glob(filepath.Join(repo, "tests", "*.go"))
	out := []N{}
	for _, f := range files {
		if strings.HasSuffix(f, "_test.go") || strings.HasSuffix(f, "helpers.go") {
			continue
		}
		af, err := goparser.ParseFile(fset, f, nil, 0)
		if err != nil {
			continue
		}
		for _, d := range af.Decls {
			fd, ok := d.(*ast.FuncDecl)
			if !ok || fd.Body == nil {
				continue
			}
			n := 0
			ast.Inspect(fd.Body, func(nd ast.Node) bool {
				call, ok := nd.(*ast.CallExpr)
				if !ok || len(call.Args) != 3 {
					return true
				}
				id, ok := call.Fun.(*ast.Ident)
				if !ok || id.Name != "transpilerFunc" {
					return true
				}
				src, ok := strLit(call.Args[1])
				cb, ok2 := call.Args[2].(*ast.FuncLit)
				if !ok || !ok2 {
					return true
				}
				c := N{"id": fmt.Sprintf("repo/%s/%d", fd.Name.Name, n), "src": src, "origin": filepath.Base(f)}
				n++
				ast.Inspect(cb.Body, func(x ast.Node) bool {
					rc, ok := x.(*ast.CallExpr)
					if !ok {
						return true
					}
					sel, ok := rc.Fun.(*ast.SelectorExpr)
					if !ok {
						return true
					}
					switch sel.Sel.Name {
					case "Equal":
						if len(rc.Args) == 3 {
							if a, ok := rc.Args[2].(*ast.Ident); ok && a.Name == "output" {
								if s, ok := strLit(rc.Args[1]); ok {
									c["testExpects"] = s
								}
							}
						}
					case "Nil":
						c["testWantsErr"] = false
					case "NotNil", "EqualError", "Error":
						c["testWantsErr"] = true
					}
					return true
				})
				out = append(out, c)
				return true
			})
		}
	}
	// the examples and the std files themselves as further texts
	for _, g := range []string{"examples/*.tsh"} {
		ms, _ := filepath.Glob(filepath.Join(repo, g))
		for _, m := range ms {
			b, _ := os.ReadFile(m)
			out = append(out, N{"id": "repo/" + filepath.Base(m), "src": string(b), "origin": g})
		}
	}
	writeCases(args[1], out)
}

func init() {
	commands["astexport"] = cmdAstExport
	commands["repotests"] = cmdRepoTests
}
