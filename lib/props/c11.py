"""C11 - Tokenisation is faithful: every source character is accounted for, once."""
import os

from vlib import Infra, read_ndjson, write_ndjson

RULE = ("direction A: TLC enumerates spec/FamC11.tla: every lexeme of a 67-entry catalog alone and every ordered pair with each of "
        "6 separators (thorough: also all triples over a 21-entry catalog x 3 x 3 separators), every string-literal body of up to 2 "
        "(thorough 3) units over 15 interpreted / 9 raw units (quotes, escapes incl. \\x \\ooo \\u, backquote, newline, a two-byte UTF-8 "
        "letter, comment openers) in both quote styles, unknown characters and unterminated literals in 4 contexts, 80 position texts. "
        "lexer.Tokenize is called on each; TLC validates the recorded (type, value, row, column) list and error flag against the "
        "reference scanner spec/Lexer.tla. Distinct = distinct text.")
ASSUME = ["spec/Lexer.tla is the token grammar with longest match (DESIGN.md 6.2); '-' before a digit is part of a number only in prefix position",
          "TLC checks Accounted, Positions and Deterministic of the reference scanner in every state",
          "non-ASCII: a two-byte UTF-8 letter travels as the placeholder '~' (TLC strings are not byte strings); columns are not compared on those texts"]


def lexflow(ctx, cases, tag):
    wd = ctx.sub("lex-" + tag)
    p0, p1 = os.path.join(wd, "c0.ndjson"), os.path.join(wd, "cases.ndjson")
    write_ndjson(p0, cases)
    ctx.run_vh("lex", p0, p1)
    ran = read_ndjson(p1)
    verdicts, _ = ctx.tlc("LexRun", workdir=ctx.sub("tlc-" + tag), files=[(p1, "cases.ndjson")], timeout=3000, cover=[("Lexer", "Step")])
    by = {v["id"]: v for v in verdicts}
    bad = []
    for c in ran:
        v = by.get(c["id"])
        if v is None:
            raise Infra("no verdict for " + c["id"])
        ctx.evaluations += 1
        ctx.traces_validated += 1
        ctx.distinct.add(c["text"])
        if len(ctx.samples) < 6 and 3 < len(c["text"]) < 40:
            ctx.samples.append({"id": c["id"], "text": c["text"], "expected": v["toks"] if not v["err"] else "error", "accepted_by_spec": v["ok"]})
        if not v["ok"]:
            bad.append((c, v))
    return bad


def sig(c, v):
    o = c["obs"]
    if v["err"] != o["err"]:
        return "error flag: reference %s, lexer %s (%s)" % (v["err"], o["err"], o.get("msg", ""))
    at = v.get("at", 0)
    exp = v["toks"][at - 1] if 0 < at <= len(v["toks"]) else "<end>"
    got = o["toks"][at - 1] if 0 < at <= len(o["toks"]) else "<end>"
    return "token %d: expected %s, lexer %s" % (at, exp, got)


def run(ctx):
    wd = ctx.sub("fam")
    ctx.tlc("FamC11", workdir=wd, constants={"Tier": '"%s"' % ctx.tier}, workers=1, count=False)
    fam = read_ndjson(os.path.join(wd, "fam.ndjson")) + read_ndjson(os.path.join(wd, "famstr.ndjson"))
    ctx.exhaustive["FamC11"] = True
    bad = []
    chunk = 20000
    for i in range(0, len(fam), chunk):
        bad += lexflow(ctx, fam[i:i + chunk], "f%d" % (i // chunk))
    for c, v in bad:
        s = sig(c, v)
        ctx.report_failure(c["id"], {"property": "C11", "case": c["id"], "text": c["text"], "why": s, "expected": v["toks"],
                                     "expected_error": v["err"], "observed": c["obs"],
                                     "reproduce": "lexer.Tokenize(text) with '~' replaced by U+00E9"}, s)
    return ctx.finish(rule=RULE, assumptions=ASSUME)
