------------------------------- MODULE TshDyn -------------------------------
(***************************************************************************)
(* Dynamic semantics of TypeShell as an abstract machine (DESIGN.md 3.3).  *)
(*                                                                         *)
(* One initial state per case of the constant Cases (a sequence of         *)
(* records [id, prog, obs?]).  The machine is a deterministic CEK-style     *)
(* small-step interpreter: `ctl` is the control stack, `vals` the value     *)
(* stack, `glob`/`frames` the stores, `heap` the slice heap, `out` stdout,   *)
(* `fs` the file system, `stdin` the input queue, `alog` the log of command *)
(* invocations.  Every rule of the language is one named action so that     *)
(* TLC's -coverage output can be read rule by rule.                         *)
(*                                                                         *)
(* The semantics are those of the README and of the property statements,   *)
(* NOT a transcription of transpiler.go: eager left-to-right evaluation of  *)
(* all operands, all if/else-if/case conditions before any body, post/cond/ *)
(* body loop order, simultaneous multi-assignment, call by value with slice *)
(* references, Go-like strings.  Behaviour the properties exclude is the    *)
(* explicit terminal status "undef/<reason>".                               *)
(***************************************************************************)
EXTENDS IntW, TLC, Json, FiniteSets

CONSTANTS W           \* integer width: 64 (Bash), 32 (Batch)

\* The cases: a sequence of [id |-> STRING, prog |-> [body |-> ...], obs |-> ...] the harness wrote.  A plain
\* definition (not a substituted constant) so that TLC evaluates the file once, when it processes the module.
Cases == ndJsonDeserialize("cases.ndjson")

VARIABLES ci, ctl, vals, glob, frames, heap, out, status, fs, stdin, alog, steps
vars == <<ci, ctl, vals, glob, frames, heap, out, status, fs, stdin, alog, steps>>

Prog == Cases[ci].prog
Body == Prog.body
HasWorld == "world" \in DOMAIN Prog

(*************************** values ****************************************)
IntV(x)  == [ty |-> "int", v |-> x]
BoolV(b) == [ty |-> "bool", v |-> b]
StrV(s)  == [ty |-> "string", v |-> s]
SliceV(ety, ref) == [ty |-> "[]" \o ety, v |-> ref]
IsSliceTy(ty) == Len(ty) > 2 /\ SubSeq(ty, 1, 2) = "[]"
ElemTy(ty) == SubSeq(ty, 3, Len(ty))
NormTy(ty) == IF ty = "error" THEN "string" ELSE IF ty = "[]error" THEN "[]string" ELSE ty
ZeroOf(ty) == CASE NormTy(ty) = "int" -> IntV(Zero) [] NormTy(ty) = "bool" -> BoolV(FALSE) [] OTHER -> StrV("")
Show(x) == CASE x.ty = "int" -> ToDec(x.v) [] x.ty = "bool" -> (IF x.v THEN "1" ELSE "0") [] OTHER -> x.v

IsSmallNat(a) == ~a.neg /\ Len(a.mag) <= 2
NatOf(a) == IF a.mag = <<>> THEN 0 ELSE IF Len(a.mag) = 1 THEN a.mag[1] ELSE a.mag[1] + B * a.mag[2]
MinInt == Mk(TRUE, Pow2(W - 1))

(*************************** stacks ****************************************)
Top == ctl[Len(ctl)]
Pop == SubSeq(ctl, 1, Len(ctl) - 1)
Rev(s) == [i \in 1..Len(s) |-> s[Len(s) + 1 - i]]
ExprFrames(es) == [i \in 1..Len(es) |-> [t |-> "expr", n |-> es[Len(es) + 1 - i]]]   \* first expression ends on top
TopVals(n) == SubSeq(vals, Len(vals) - n + 1, Len(vals))
DropVals(n) == SubSeq(vals, 1, Len(vals) - n)
TopVal == vals[Len(vals)]
None == [k |-> "none"]
IsNone(n) == n.k = "none"

InFunc == frames # <<>>
Frame == frames[Len(frames)]
Bound(name) == (InFunc /\ name \in DOMAIN Frame) \/ name \in DOMAIN glob
Lookup(name) == IF InFunc /\ name \in DOMAIN Frame THEN Frame[name] ELSE glob[name]

\* a definition binds in the innermost function frame, or at top level in the global store
DefineIn(g, fr, name, val) ==
  IF fr # <<>> THEN <<g, [fr EXCEPT ![Len(fr)] = (name :> val) @@ @]>>
  ELSE <<(name :> val) @@ g, fr>>
\* an assignment writes the variable the name resolves to: local first, else the global (in place)
AssignIn(g, fr, name, val) ==
  IF fr # <<>> /\ name \in DOMAIN fr[Len(fr)] THEN <<g, [fr EXCEPT ![Len(fr)] = (name :> val) @@ @]>>
  ELSE <<(name :> val) @@ g, fr>>
RECURSIVE StoreAll(_, _, _, _, _, _)
StoreAll(g, fr, names, vs, def, i) ==
  IF i > Len(names) THEN <<g, fr>>
  ELSE LET r == IF def THEN DefineIn(g, fr, names[i], vs[i]) ELSE AssignIn(g, fr, names[i], vs[i])
       IN StoreAll(r[1], r[2], names, vs, def, i + 1)

RECURSIVE FindFuncIn(_, _, _)
FindFuncIn(b, name, i) == IF i > Len(b) THEN None
                          ELSE IF b[i].k = "func" /\ b[i].name = name THEN b[i] ELSE FindFuncIn(b, name, i + 1)
FuncOf(n) == FindFuncIn(Body, n.name, 1)

RECURSIVE Join(_, _)
Join(vs, i) == IF i > Len(vs) THEN "" ELSE (IF i > 1 THEN " " ELSE "") \o Show(vs[i]) \o Join(vs, i + 1)

Halt(st) == /\ status' = st /\ ctl' = <<>> /\ vals' = <<>>
Undef(why) == Halt("undef/" \o why)

(*************************** initial state *********************************)
InitFs == IF HasWorld /\ "fs" \in DOMAIN Prog.world
          THEN [p \in {Prog.world.fs[i].path : i \in 1..Len(Prog.world.fs)} |->
                  (CHOOSE e \in {Prog.world.fs[i] : i \in 1..Len(Prog.world.fs)} : e.path = p).content]
          ELSE <<>>
InitStdin == IF HasWorld /\ "stdin" \in DOMAIN Prog.world THEN Prog.world.stdin ELSE <<>>

Init == /\ ci \in 1..Len(Cases)
        /\ ctl = <<[t |-> "block", s |-> Body]>>
        /\ vals = <<>> /\ glob = <<>> /\ frames = <<>> /\ heap = <<>>
        /\ out = "" /\ status = "run" /\ fs = InitFs /\ stdin = InitStdin /\ alog = <<>> /\ steps = 0

(*************************** statements ************************************)
UNCH_STORE == UNCHANGED <<glob, frames, heap>>
UNCH_WORLD == UNCHANGED <<out, fs, stdin, alog>>

BlockNext ==
  /\ Top.t = "block"
  /\ ctl' = IF Top.s = <<>> THEN Pop
            ELSE Pop \o <<[t |-> "block", s |-> Tail(Top.s)], [t |-> "stmt", n |-> Head(Top.s)]>>
  /\ UNCHANGED <<vals, status>> /\ UNCH_STORE /\ UNCH_WORLD

ZeroExpr(ty) == IF IsSliceTy(ty) THEN [k |-> "slicelit", ty |-> ElemTy(ty), elems |-> <<>>] ELSE [k |-> "zero", ty |-> ty]
StmtDefineAssign ==          \* all right-hand sides, left to right, then all targets
  /\ Top.t = "stmt" /\ Top.n.k \in {"define", "assign"}
  /\ LET n == Top.n
         rhs == IF n.k = "define" /\ n.values = <<>> THEN [i \in 1..Len(n.names) |-> ZeroExpr(n.ty)] ELSE n.values
     IN ctl' = Pop \o <<[t |-> "store", names |-> n.names, def |-> (n.k = "define")]>> \o ExprFrames(rhs)
  /\ UNCHANGED <<vals, status>> /\ UNCH_STORE /\ UNCH_WORLD
Store ==                     \* simultaneous: the values were all computed before the first write
  /\ Top.t = "store"
  /\ LET k == Len(Top.names)
         r == StoreAll(glob, frames, Top.names, TopVals(k), Top.def, 1)
     IN IF Len(vals) < k THEN Halt("stuck/store-arity") /\ UNCHANGED <<glob, frames>>
        ELSE /\ glob' = r[1] /\ frames' = r[2] /\ vals' = DropVals(k) /\ ctl' = Pop /\ UNCHANGED status
  /\ UNCHANGED heap /\ UNCH_WORLD

VarE(name) == [k |-> "var", name |-> name]
Desugar(n) ==
  CASE n.k = "compound" -> [k |-> "assign", names |-> <<n.name>>,
                            values |-> <<[k |-> "bin", op |-> n.op, l |-> VarE(n.name), r |-> n.value]>>]
    [] n.k = "incdec" -> [k |-> "assign", names |-> <<n.name>>,
                          values |-> <<[k |-> "bin", op |-> (IF n.inc THEN "+" ELSE "-"),
                                        l |-> VarE(n.name), r |-> [k |-> "int", v |-> "1"]]>>]
StmtDesugar ==               \* x op= e  ==  x = x op e ;  x++  ==  x = x + 1
  /\ Top.t = "stmt" /\ Top.n.k \in {"compound", "incdec"}
  /\ ctl' = Pop \o <<[t |-> "stmt", n |-> Desugar(Top.n)]>>
  /\ UNCHANGED <<vals, status>> /\ UNCH_STORE /\ UNCH_WORLD

StmtSetIdx ==                \* s[i] = v : index, then value
  /\ Top.t = "stmt" /\ Top.n.k = "setidx"
  /\ ctl' = Pop \o <<[t |-> "setidx", name |-> Top.n.name]>> \o ExprFrames(<<Top.n.i, Top.n.v>>)
  /\ UNCHANGED <<vals, status>> /\ UNCH_STORE /\ UNCH_WORLD
Extend(s, upto, z) == s \o [j \in 1..(upto - Len(s)) |-> z]       \* zero-fill
SetIdxApply ==               \* growable: writing at or beyond the end extends and zero-fills the gap
  /\ Top.t = "setidx"
  /\ LET sv == Lookup(Top.name)
         i == vals[Len(vals) - 1].v
         v == TopVal
     IN IF i.neg THEN Undef("negative-index") /\ UNCHANGED heap
        ELSE IF ~IsSmallNat(i) THEN Undef("huge-index") /\ UNCHANGED heap
        ELSE LET k == NatOf(i)
                 old == heap[sv.v]
                 ext == IF k >= Len(old) THEN Extend(old, k + 1, ZeroOf(ElemTy(sv.ty))) ELSE old
             IN /\ heap' = [heap EXCEPT ![sv.v] = [ext EXCEPT ![k + 1] = v]]
                /\ vals' = DropVals(2) /\ ctl' = Pop /\ UNCHANGED status
  /\ UNCHANGED <<glob, frames>> /\ UNCH_WORLD

IfEvalAllConds ==            \* README "Condition evaluation": every condition of the chain first
  /\ Top.t = "stmt" /\ Top.n.k = "if"
  /\ ctl' = Pop \o <<[t |-> "ifdispatch", n |-> Top.n]>>
                \o ExprFrames([i \in 1..Len(Top.n.branches) |-> Top.n.branches[i].cond])
  /\ UNCHANGED <<vals, status>> /\ UNCH_STORE /\ UNCH_WORLD
IfDispatch ==
  /\ Top.t = "ifdispatch"
  /\ LET nb == Len(Top.n.branches)
         cs == TopVals(nb)
         T == {i \in 1..nb : cs[i].v}
         body == IF T # {} THEN Top.n.branches[CHOOSE i \in T : \A j \in T : i <= j].body ELSE Top.n.else
     IN /\ ctl' = Pop \o <<[t |-> "block", s |-> body]>>
        /\ vals' = DropVals(nb)
  /\ UNCHANGED status /\ UNCH_STORE /\ UNCH_WORLD
SwitchToIf(n) ==             \* no fall-through; tagless switch compares against true; default anywhere
  IF n.cases = <<>> THEN [k |-> "if", branches |-> <<[cond |-> [k |-> "bool", v |-> FALSE], body |-> <<>>]>>, else |-> n.default]
  ELSE [k |-> "if",
        branches |-> [i \in 1..Len(n.cases) |->
                       [cond |-> IF IsNone(n.tag) THEN n.cases[i].e
                                 ELSE [k |-> "cmp", op |-> "==", l |-> n.tag, r |-> n.cases[i].e],
                        body |-> n.cases[i].body]],
        else |-> n.default]
SwitchDesugar ==
  /\ Top.t = "stmt" /\ Top.n.k = "switch"
  /\ ctl' = Pop \o <<[t |-> "switchmark"], [t |-> "stmt", n |-> SwitchToIf(Top.n)]>>
  /\ UNCHANGED <<vals, status>> /\ UNCH_STORE /\ UNCH_WORLD
SwitchEnd == /\ Top.t = "switchmark" /\ ctl' = Pop /\ UNCHANGED <<vals, status>> /\ UNCH_STORE /\ UNCH_WORLD

RangeToFor(n) ==             \* for i, v := range x  ==  for i := 0; i < len(x); i++ { v := x[i]; ... }
  [k |-> "for", form |-> "three",
   init |-> [k |-> "define", form |-> "short", names |-> <<n.i>>, ty |-> "", values |-> <<[k |-> "int", v |-> "0"]>>],
   cond |-> [k |-> "cmp", op |-> "<", l |-> VarE(n.i), r |-> [k |-> "len", e |-> n.x]],
   post |-> [k |-> "incdec", name |-> n.i, inc |-> TRUE],
   body |-> (IF n.v = "" THEN <<>>
             ELSE <<[k |-> "define", form |-> "short", names |-> <<n.v>>, ty |-> "",
                     values |-> <<[k |-> "index", x |-> n.x, i |-> VarE(n.i)]>>]>>) \o n.body]
RangeDesugar ==
  /\ Top.t = "stmt" /\ Top.n.k = "range"
  /\ ctl' = Pop \o <<[t |-> "stmt", n |-> RangeToFor(Top.n)]>>
  /\ UNCHANGED <<vals, status>> /\ UNCH_STORE /\ UNCH_WORLD

ForInit ==
  /\ Top.t = "stmt" /\ Top.n.k = "for"
  /\ ctl' = Pop \o <<[t |-> "loop", n |-> Top.n, first |-> TRUE]>>
                \o (IF IsNone(Top.n.init) THEN <<>> ELSE <<[t |-> "stmt", n |-> Top.n.init]>>)
  /\ UNCHANGED <<vals, status>> /\ UNCH_STORE /\ UNCH_WORLD
TrueLit == [k |-> "bool", v |-> TRUE]
LoopHead ==                  \* per iteration: post (not before the first), then the condition, then the body
  /\ Top.t = "loop"
  /\ LET n == Top.n IN
     ctl' = Pop \o <<[t |-> "loopcond", n |-> n]>>
                \o <<[t |-> "expr", n |-> IF IsNone(n.cond) THEN TrueLit ELSE n.cond]>>
                \o (IF Top.first \/ IsNone(n.post) THEN <<>> ELSE <<[t |-> "stmt", n |-> n.post]>>)
  /\ UNCHANGED <<vals, status>> /\ UNCH_STORE /\ UNCH_WORLD
LoopCond ==
  /\ Top.t = "loopcond"
  /\ ctl' = IF TopVal.v
            THEN Pop \o <<[t |-> "loop", n |-> Top.n, first |-> FALSE], [t |-> "block", s |-> Top.n.body]>>
            ELSE Pop
  /\ vals' = DropVals(1) /\ UNCHANGED status /\ UNCH_STORE /\ UNCH_WORLD

\* innermost frame of one of the given kinds, above the innermost call boundary
Innermost(kinds) ==
  LET C == {i \in 1..Len(ctl) : ctl[i].t = "callmark"}
      lo == IF C = {} THEN 0 ELSE CHOOSE i \in C : \A j \in C : j <= i
      I == {i \in (lo + 1)..Len(ctl) : ctl[i].t \in kinds}
  IN IF I = {} THEN 0 ELSE CHOOSE i \in I : \A j \in I : j <= i
Break ==
  /\ Top.t = "stmt" /\ Top.n.k = "break"
  /\ LET i == Innermost({"loop", "switchmark"}) IN
     IF i = 0 THEN Halt("stuck/break-outside")
     ELSE IF ctl[i].t = "switchmark" THEN Undef("break-in-switch")
     ELSE ctl' = SubSeq(ctl, 1, i - 1) /\ UNCHANGED <<vals, status>>
  /\ UNCH_STORE /\ UNCH_WORLD
Continue ==
  /\ Top.t = "stmt" /\ Top.n.k = "continue"
  /\ LET i == Innermost({"loop"}) IN
     IF i = 0 THEN Halt("stuck/continue-outside")
     ELSE ctl' = SubSeq(ctl, 1, i) /\ UNCHANGED <<vals, status>>
  /\ UNCH_STORE /\ UNCH_WORLD

StmtPrint ==
  /\ Top.t = "stmt" /\ Top.n.k = "print"
  /\ ctl' = Pop \o <<[t |-> "emit", c |-> Len(Top.n.args)]>> \o ExprFrames(Top.n.args)
  /\ UNCHANGED <<vals, status>> /\ UNCH_STORE /\ UNCH_WORLD
PrintEmit ==                 \* values joined by one blank, one line
  /\ Top.t = "emit"
  /\ out' = out \o Join(TopVals(Top.c), 1) \o "\n"
  /\ vals' = DropVals(Top.c) /\ ctl' = Pop
  /\ UNCHANGED <<status, fs, stdin, alog>> /\ UNCH_STORE
StmtPanic ==
  /\ Top.t = "stmt" /\ Top.n.k = "panic"
  /\ ctl' = Pop \o <<[t |-> "panic"]>> \o ExprFrames(<<Top.n.e>>)
  /\ UNCHANGED <<vals, status>> /\ UNCH_STORE /\ UNCH_WORLD
PanicExit ==                 \* "panic: <e>" on stdout, exit status exactly 1, nothing runs afterwards
  /\ Top.t = "panic"
  /\ out' = out \o "panic: " \o Show(TopVal) \o "\n"
  /\ Halt("exit1")
  /\ UNCHANGED <<fs, stdin, alog>> /\ UNCH_STORE

StmtWrite ==
  /\ Top.t = "stmt" /\ Top.n.k = "write"
  /\ LET n == Top.n
         hasApp == ~IsNone(n.append)
     IN ctl' = Pop \o <<[t |-> "write", app |-> hasApp]>>
                   \o ExprFrames(<<n.path, n.data>> \o (IF hasApp THEN <<n.append>> ELSE <<>>))
  /\ UNCHANGED <<vals, status>> /\ UNCH_STORE /\ UNCH_WORLD
WriteFile ==                 \* a line store: the file holds s plus newline; append adds a further line
  /\ Top.t = "write"
  /\ LET k == IF Top.app THEN 3 ELSE 2
         a == TopVals(k)
         p == a[1].v
         app == Top.app /\ a[3].v
         old == IF app /\ p \in DOMAIN fs THEN fs[p] ELSE ""
     IN IF p = "" THEN Undef("write-to-the-empty-path") /\ UNCHANGED fs      \* no file has the empty name
        ELSE /\ fs' = (p :> (old \o a[2].v \o "\n")) @@ fs
             /\ vals' = DropVals(k) /\ ctl' = Pop /\ UNCHANGED status
  /\ UNCHANGED <<out, stdin, alog>> /\ UNCH_STORE

RECURSIVE Ungroup(_)
Ungroup(e) == IF e.k = "group" THEN Ungroup(e.e) ELSE e
StmtExpr ==                  \* an expression used as a statement: evaluated for its effects, value(s) dropped; parentheses around it mean nothing
  /\ Top.t = "stmt" /\ Top.n.k = "expr"
  /\ ctl' = Pop \o <<[t |-> "exprdrop", base |-> Len(vals)]>> \o <<[t |-> "expr", n |-> Ungroup(Top.n.e)]>>
  /\ UNCHANGED <<vals, status>> /\ UNCH_STORE /\ UNCH_WORLD
ExprDrop ==
  /\ Top.t = "exprdrop"
  /\ vals' = SubSeq(vals, 1, Top.base) /\ ctl' = Pop
  /\ UNCHANGED status /\ UNCH_STORE /\ UNCH_WORLD
StmtFunc ==                  \* a definition has no run-time effect
  /\ Top.t = "stmt" /\ Top.n.k = "func"
  /\ ctl' = Pop /\ UNCHANGED <<vals, status>> /\ UNCH_STORE /\ UNCH_WORLD

StmtReturn ==
  /\ Top.t = "stmt" /\ Top.n.k = "return"
  /\ ctl' = Pop \o <<[t |-> "ret", c |-> Len(Top.n.values)]>> \o ExprFrames(Top.n.values)
  /\ UNCHANGED <<vals, status>> /\ UNCH_STORE /\ UNCH_WORLD
Return ==                    \* the values (left to right) reach the call site in order; the frame is discarded
  /\ Top.t = "ret"
  /\ LET C == {i \in 1..Len(ctl) : ctl[i].t = "callmark"} IN
     IF C = {} \/ frames = <<>> THEN Halt("stuck/return-outside") /\ UNCHANGED frames
     ELSE /\ ctl' = SubSeq(ctl, 1, (CHOOSE i \in C : \A j \in C : j <= i) - 1)
          /\ frames' = SubSeq(frames, 1, Len(frames) - 1)
          /\ UNCHANGED <<vals, status>>
  /\ UNCHANGED <<glob, heap>> /\ UNCH_WORLD
CallExit ==                  \* falling off the end of a function body
  /\ Top.t = "callmark"
  /\ ctl' = Pop /\ frames' = SubSeq(frames, 1, Len(frames) - 1)
  /\ UNCHANGED <<vals, status, glob, heap>> /\ UNCH_WORLD

(*************************** expressions ***********************************)
ExprLeaf ==
  /\ Top.t = "expr" /\ Top.n.k \in {"int", "bool", "str", "nil", "var", "zero"}
  /\ LET n == Top.n IN
     IF n.k = "var" /\ ~Bound(n.name) THEN Halt("stuck/unbound-" \o n.name)
     ELSE /\ vals' = Append(vals, CASE n.k = "int" -> IntV(FromDec(n.v))
                                    [] n.k = "bool" -> BoolV(n.v)
                                    [] n.k = "str" -> StrV(n.v)
                                    [] n.k = "nil" -> StrV("")
                                    [] n.k = "zero" -> ZeroOf(n.ty)
                                    [] n.k = "var" -> Lookup(n.name))
          /\ ctl' = Pop /\ UNCHANGED status
  /\ UNCH_STORE /\ UNCH_WORLD

RECURSIVE ChainArgs(_, _)
ChainArgs(chain, i) == IF i > Len(chain) THEN <<>> ELSE chain[i].args \o ChainArgs(chain, i + 1)
Operands(n) ==               \* in source order
  CASE n.k \in {"bin", "cmp", "logic"} -> <<n.l, n.r>>
    [] n.k \in {"not", "group", "itoa", "len", "exists", "read"} -> <<n.e>>
    [] n.k = "index" -> <<n.x, n.i>>
    [] n.k = "substr" -> <<n.x>> \o (IF IsNone(n.lo) THEN <<>> ELSE <<n.lo>>) \o (IF IsNone(n.hi) THEN <<>> ELSE <<n.hi>>)
    [] n.k = "call" -> n.args
    [] n.k = "slicelit" -> n.elems
    [] n.k = "input" -> (IF IsNone(n.prompt) THEN <<>> ELSE <<n.prompt>>)
    [] n.k = "copy" -> <<n.src>>
    [] n.k = "app" -> ChainArgs(n.chain, 1)
    [] OTHER -> <<>>
CompoundKinds == {"bin", "cmp", "logic", "not", "group", "itoa", "len", "exists", "read", "index", "substr",
                  "call", "slicelit", "input", "copy", "app"}
ExprPushOperands ==          \* eager: every operand, left to right, exactly once -- also for && and ||
  /\ Top.t = "expr" /\ Top.n.k \in CompoundKinds
  /\ ctl' = Pop \o <<[t |-> "apply", n |-> Top.n]>> \o ExprFrames(Operands(Top.n))
  /\ UNCHANGED <<vals, status>> /\ UNCH_STORE /\ UNCH_WORLD

CmpRes(op, c) == CASE op = "==" -> c = 0 [] op = "!=" -> c # 0 [] op = "<" -> c < 0
                   [] op = "<=" -> c <= 0 [] op = ">" -> c > 0 [] op = ">=" -> c >= 0
Arith(op, a, b) == CASE op = "+" -> Add(a, b, W) [] op = "-" -> Sub(a, b, W) [] op = "*" -> Mul(a, b, W)
                     [] op = "/" -> Quo(a, b, W) [] op = "%" -> Rem(a, b, W)
PureKinds == {"bin", "cmp", "logic", "not", "group", "itoa"}
PureUndef(n, a) ==
  IF n.k = "bin" /\ n.op \in {"/", "%"} /\ a[2].ty = "int" /\ IsZero(a[2].v) THEN "div-by-zero"
  ELSE IF n.k = "bin" /\ n.op \in {"/", "%"} /\ a[2].ty = "int" /\ a[1].v = MinInt /\ a[2].v = Mk(TRUE, <<1>>) THEN "minint-div-minus-one"
  ELSE IF n.k = "cmp" /\ a[1].ty = "string" /\ n.op \notin {"==", "!="} THEN "string-ordering"
  ELSE IF n.k = "cmp" /\ IsSliceTy(a[1].ty) THEN "slice-equality"
  ELSE ""
PureResult(n, a) ==
  CASE n.k = "not" -> BoolV(~a[1].v)
    [] n.k = "group" -> a[1]
    [] n.k = "itoa" -> StrV(ToDec(a[1].v))
    [] n.k = "logic" -> BoolV(IF n.op = "&&" THEN a[1].v /\ a[2].v ELSE a[1].v \/ a[2].v)
    [] n.k = "cmp" -> (IF a[1].ty = "int" THEN BoolV(CmpRes(n.op, Cmp(a[1].v, a[2].v)))
                       ELSE BoolV(IF n.op = "==" THEN a[1].v = a[2].v ELSE a[1].v # a[2].v))
    [] n.k = "bin" -> (IF a[1].ty = "string" THEN StrV(a[1].v \o a[2].v) ELSE IntV(Arith(n.op, a[1].v, a[2].v)))
ApplyPure ==
  /\ Top.t = "apply" /\ Top.n.k \in PureKinds
  /\ LET c == Len(Operands(Top.n))
         a == TopVals(c)
     IN IF PureUndef(Top.n, a) # "" THEN Undef(PureUndef(Top.n, a))
        ELSE vals' = Append(DropVals(c), PureResult(Top.n, a)) /\ ctl' = Pop /\ UNCHANGED status
  /\ UNCH_STORE /\ UNCH_WORLD

SeqLen(x) == IF x.ty = "string" THEN Len(x.v) ELSE Len(heap[x.v])
ApplyLen ==
  /\ Top.t = "apply" /\ Top.n.k = "len"
  /\ vals' = Append(DropVals(1), IntV(FromNat(SeqLen(TopVal)))) /\ ctl' = Pop
  /\ UNCHANGED status /\ UNCH_STORE /\ UNCH_WORLD
ApplyIndex ==                \* x[i] on a slice or a string (one-character string); 0 <= i < len
  /\ Top.t = "apply" /\ Top.n.k = "index"
  /\ LET x == vals[Len(vals) - 1]
         i == TopVal.v
     IN IF i.neg THEN Undef("negative-index")
        ELSE IF ~IsSmallNat(i) \/ NatOf(i) >= SeqLen(x) THEN Undef("index-out-of-range")
        ELSE /\ vals' = Append(DropVals(2), IF x.ty = "string" THEN StrV(SubSeq(x.v, NatOf(i) + 1, NatOf(i) + 1))
                                            ELSE heap[x.v][NatOf(i) + 1])
             /\ ctl' = Pop /\ UNCHANGED status
  /\ UNCH_STORE /\ UNCH_WORLD
ApplySubstr ==               \* s[a:b], s[:b], s[a:], s[:] with 0 <= a <= b <= len
  /\ Top.t = "apply" /\ Top.n.k = "substr"
  /\ LET n == Top.n
         c == Len(Operands(n))
         a == TopVals(c)
         s == a[1].v
         lo == IF IsNone(n.lo) THEN FromNat(0) ELSE a[2].v
         hi == IF IsNone(n.hi) THEN FromNat(Len(s)) ELSE a[c].v
     IN IF lo.neg \/ hi.neg THEN Undef("negative-index")
        ELSE IF ~IsSmallNat(lo) \/ ~IsSmallNat(hi) \/ NatOf(hi) > Len(s) \/ NatOf(lo) > NatOf(hi) THEN Undef("slice-bounds")
        ELSE vals' = Append(DropVals(c), StrV(SubSeq(s, NatOf(lo) + 1, NatOf(hi)))) /\ ctl' = Pop /\ UNCHANGED status
  /\ UNCH_STORE /\ UNCH_WORLD
SliceNew ==                  \* every instantiation allocates a fresh reference
  /\ Top.t = "apply" /\ Top.n.k = "slicelit"
  /\ LET c == Len(Top.n.elems) IN
     /\ heap' = Append(heap, TopVals(c))
     /\ vals' = Append(DropVals(c), SliceV(NormTy(Top.n.ty), Len(heap) + 1))
  /\ ctl' = Pop /\ UNCHANGED <<status, glob, frames>> /\ UNCH_WORLD
ApplyCopy ==                 \* dst[i] = src[i] for every i < len(src) (extending dst); value len(src)
  /\ Top.t = "apply" /\ Top.n.k = "copy"
  /\ LET d == Lookup(Top.n.dst)
         s == heap[TopVal.v]
         old == heap[d.v]
     IN /\ heap' = [heap EXCEPT ![d.v] = s \o (IF Len(old) > Len(s) THEN SubSeq(old, Len(s) + 1, Len(old)) ELSE <<>>)]
        /\ vals' = Append(DropVals(1), IntV(FromNat(Len(s))))
  /\ ctl' = Pop /\ UNCHANGED <<status, glob, frames>> /\ UNCH_WORLD

RECURSIVE BindParams(_, _, _)
BindParams(ps, as, i) == IF i > Len(ps) THEN <<>> ELSE (ps[i].name :> as[i]) @@ BindParams(ps, as, i + 1)
CallEnter ==                 \* arguments bound to parameters in order, by value (a slice value is its reference)
  /\ Top.t = "apply" /\ Top.n.k = "call"
  /\ LET f == FuncOf(Top.n)
         c == Len(Top.n.args)
     IN IF IsNone(f) THEN Halt("stuck/unknown-function-" \o Top.n.name) /\ UNCHANGED frames
        ELSE IF Len(f.params) # c THEN Halt("stuck/arity") /\ UNCHANGED frames
        ELSE /\ frames' = Append(frames, BindParams(f.params, TopVals(c), 1))
             /\ vals' = DropVals(c)
             /\ ctl' = Pop \o <<[t |-> "callmark", f |-> f.name], [t |-> "block", s |-> f.body]>>
             /\ UNCHANGED status
  /\ UNCHANGED <<glob, heap>> /\ UNCH_WORLD

StripNl(s) == IF Len(s) > 0 /\ SubSeq(s, Len(s), Len(s)) = "\n" THEN SubSeq(s, 1, Len(s) - 1) ELSE s
\* a path exists if it is a file or a directory on the way to one
IsDirOf(d, q) == Len(q) > Len(d) + 1 /\ SubSeq(q, 1, Len(d) + 1) = d \o "/"
PathExists(p) == p \in DOMAIN fs \/ (p # "" /\ \E q \in DOMAIN fs : IsDirOf(p, q))
ApplyExists ==
  /\ Top.t = "apply" /\ Top.n.k = "exists"
  /\ vals' = Append(DropVals(1), BoolV(PathExists(TopVal.v))) /\ ctl' = Pop
  /\ UNCHANGED status /\ UNCH_STORE /\ UNCH_WORLD
ApplyRead ==                 \* the content without its final newline
  /\ Top.t = "apply" /\ Top.n.k = "read"
  /\ IF TopVal.v \notin DOMAIN fs THEN Undef("read-absent")
     ELSE vals' = Append(DropVals(1), StrV(StripNl(fs[TopVal.v]))) /\ ctl' = Pop /\ UNCHANGED status
  /\ UNCH_STORE /\ UNCH_WORLD
ApplyInput ==                \* the next line of standard input
  /\ Top.t = "apply" /\ Top.n.k = "input"
  /\ LET c == Len(Operands(Top.n)) IN
     IF stdin = <<>> THEN Undef("input-eof") /\ UNCHANGED stdin
     ELSE vals' = Append(DropVals(c), StrV(Head(stdin))) /\ stdin' = Tail(stdin) /\ ctl' = Pop /\ UNCHANGED status
  /\ UNCH_STORE /\ UNCHANGED <<out, fs, alog>>

(* Command calls (C18).  The callee is the probe program the harness installs under the given name:
   it prints "<name>[a1][a2]...[an]" and a newline, then copies its standard input, and exits with the
   status named by its first argument when that is "x<digits>", else 0.  Each invocation is logged. *)
IsDigitC(c) == \E d \in 0..9 : SubSeq(Digits, d + 1, d + 1) = c
DigitsOnly(s) == Len(s) > 0 /\ \A i \in 1..Len(s) : IsDigitC(SubSeq(s, i, i))
RECURSIVE Brackets(_, _)
Brackets(as, i) == IF i > Len(as) THEN "" ELSE "[" \o as[i] \o "]" \o Brackets(as, i + 1)
ProbeOut(name, as, input) == name \o Brackets(as, 1) \o "\n" \o input
ProbeCode(as) == IF Len(as) > 0 /\ Len(as[1]) > 1 /\ SubSeq(as[1], 1, 1) = "x" /\ DigitsOnly(Tail(as[1]))
                 THEN NatOf(FromDec(Tail(as[1]))) % 256 ELSE 0
RECURSIVE RunChain(_, _, _, _, _)   \* <<log entries, last stdout, last status>>
RunChain(chain, args, i, input, log) ==
  LET st == chain[i]
      k == Len(st.args)
      as == [j \in 1..k |-> args[j].v]
      o == ProbeOut(st.name, as, input)
      lg == Append(log, [name |-> st.name, args |-> as, stdin |-> input])
  IN IF i = Len(chain) THEN <<lg, o, ProbeCode(as)>>
     ELSE RunChain(chain, SubSeq(args, k + 1, Len(args)), i + 1, o, lg)
RECURSIVE JoinLines(_)
JoinLines(ls) == IF ls = <<>> THEN "" ELSE ls[1] \o "\n" \o JoinLines(Tail(ls))
ApplyAppCall ==                \* the first command of a chain inherits (and drains) the script's standard input
  /\ Top.t = "apply" /\ Top.n.k = "app"
  /\ LET c == Len(Operands(Top.n))
         r == RunChain(Top.n.chain, TopVals(c), 1, JoinLines(stdin), alog)
         used == Len(ctl) >= 2 /\ ctl[Len(ctl) - 1].t # "exprdrop"
     IN /\ alog' = r[1]
        /\ IF used                 \* captured: stdout minus its final newline, "", status; nothing printed
           THEN vals' = DropVals(c) \o <<StrV(StripNl(r[2])), StrV(""), IntV(FromNat(r[3]))>> /\ UNCHANGED out
           ELSE vals' = DropVals(c) /\ out' = out \o r[2]
  /\ stdin' = <<>>
  /\ ctl' = Pop /\ UNCHANGED <<status, fs>> /\ UNCH_STORE

(*************************** the machine ***********************************)
Step == \/ BlockNext \/ StmtDefineAssign \/ Store \/ StmtDesugar \/ StmtSetIdx \/ SetIdxApply
        \/ IfEvalAllConds \/ IfDispatch \/ SwitchDesugar \/ SwitchEnd \/ RangeDesugar
        \/ ForInit \/ LoopHead \/ LoopCond \/ Break \/ Continue
        \/ StmtPrint \/ PrintEmit \/ StmtPanic \/ PanicExit \/ StmtWrite \/ WriteFile
        \/ StmtExpr \/ ExprDrop \/ StmtFunc \/ StmtReturn \/ Return \/ CallExit
        \/ ExprLeaf \/ ExprPushOperands \/ ApplyPure \/ ApplyLen \/ ApplyIndex \/ ApplySubstr
        \/ SliceNew \/ ApplyCopy \/ CallEnter \/ ApplyExists \/ ApplyRead \/ ApplyInput \/ ApplyAppCall

MaxSteps == 60000
Finish == /\ status = "run" /\ ctl = <<>> /\ status' = "done"
          /\ UNCHANGED <<ci, ctl, vals, glob, frames, heap, out, fs, stdin, alog, steps>>
Diverge == /\ status = "run" /\ ctl # <<>> /\ steps >= MaxSteps /\ status' = "diverge"
           /\ UNCHANGED <<ci, ctl, vals, glob, frames, heap, out, fs, stdin, alog, steps>>
Next == \/ (status = "run" /\ ctl # <<>> /\ steps < MaxSteps /\ Step /\ steps' = steps + 1 /\ UNCHANGED ci)
        \/ Finish
        \/ Diverge
        \/ (status # "run" /\ UNCHANGED vars)          \* terminal states stutter, so a deadlock is a stuck state
Spec == Init /\ [][Next]_vars

Terminal == status # "run"
IsUndef == Len(status) >= 5 /\ SubSeq(status, 1, 5) = "undef"
IsStuck == Len(status) >= 5 /\ SubSeq(status, 1, 5) = "stuck"
Code == IF status = "exit1" THEN 1 ELSE 0

(*************************** properties of the machine *********************)
\* Type soundness within bounds: a statically accepted program never gets stuck (checked with
\* deadlock detection on: no action enabled in a running state is reported by TLC) and never
\* reaches an explicit stuck status.
NeverStuck == ~IsStuck
\* The value stack is balanced at statement boundaries of the top level.
Balanced == (status = "done") => (vals = <<>> /\ frames = <<>>)
\* References are never dangling (AliasCoherence / FreshRefs of DESIGN 3.3: a slice value always
\* designates a heap cell, and SliceNew returns an index no live value held before).
RefsOf(f) == {f[n].v : n \in {m \in DOMAIN f : IsSliceTy(f[m].ty)}}
LiveRefs == RefsOf(glob) \cup UNION {RefsOf(frames[i]) : i \in 1..Len(frames)}
              \cup {vals[i].v : i \in {j \in 1..Len(vals) : IsSliceTy(vals[j].ty)}}
RefsValid == \A r \in LiveRefs : r \in 1..Len(heap)
\* Frame isolation (C02) as an action property: a step changes no local of a frame other than the
\* innermost one (frames below the top are the callers').
FrameIsolation == [][\A i \in 1..Len(frames) : (i < Len(frames) /\ i <= Len(frames')) => frames'[i] = frames[i]]_vars
\* Writes are local (C17): WriteFile changes exactly one path.
WriteLocal == [][\A p \in DOMAIN fs : (p \in DOMAIN fs' /\ fs'[p] # fs[p]) =>
                   (Top.t = "write" /\ p = vals[Len(vals) - (IF Top.app THEN 2 ELSE 1)].v)]_vars
\* A line store: every file the program wrote ends in a newline (files of the initial world are arbitrary).
LineStore == \A p \in DOMAIN fs : (p \in DOMAIN InitFs /\ fs[p] = InitFs[p]) \/ SubSeq(fs[p], Len(fs[p]), Len(fs[p])) = "\n"
=============================================================================
