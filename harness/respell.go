package main

import (
	"fmt"
	"strings"
)

// Spellings: the same abstract program written in another LEGAL way (Go's grammar gives both texts the same meaning).  A case that
// carries "spell" is rendered through respell(); the specification still runs the program as it stands in the case, so the
// observation of the respelled text must be what TshDyn prescribes for the program.
//
//	brackets  redundant brackets around operands, conditions, values, arguments, subscripts
//	lean      no blank around binary operators (a-1, x<y&&!b), no brackets around a comparison that is the left operand of a comparison,
//	          a negation directly in front of a negation (!!x)
//	var       a one-name short definition in statement position written `var x = v`

func cloneN(v any) any {
	switch x := v.(type) {
	case map[string]any:
		m := N{}
		for k, y := range x {
			m[k] = cloneN(y)
		}
		return m
	case []any:
		l := make([]any, len(x))
		for i, y := range x {
			l[i] = cloneN(y)
		}
		return l
	}
	return v
}

func wrapG(e N) N {
	switch e["k"] {
	case "group", "call", "app", "slicelit", "nil", "input", "copy", "rawtext", "none":
		return e
	}
	return N{"k": "group", "e": e}
}

func spellExpr(v any, mode string) any {
	e, ok := v.(N)
	if !ok || e["k"] == nil || e["k"] == "none" {
		return v
	}
	sub := func(k string) {
		if c, ok := e[k].(N); ok {
			e[k] = spellExpr(c, mode)
		}
	}
	subW := func(k string) {
		if c, ok := e[k].(N); ok && c["k"] != "none" {
			c = spellExpr(c, mode).(N)
			if mode == "brackets" {
				c = wrapG(c)
			}
			e[k] = c
		}
	}
	switch e["k"] {
	case "bin", "cmp", "logic":
		subW("l")
		subW("r")
		if mode == "lean" {
			e["tight"] = true
		}
	case "not":
		subW("e")
		if mode == "lean" {
			e["tight"] = true
		}
	case "group", "len", "itoa", "exists", "read":
		sub("e")
	case "input":
		sub("prompt")
	case "copy":
		sub("src")
	case "index":
		sub("x")
		subW("i")
	case "substr":
		sub("x")
		subW("lo")
		subW("hi")
	case "call":
		args := list(e["args"])
		for i, a := range args {
			a2 := spellExpr(a, mode).(N)
			if mode == "brackets" && len(args) > 1 {
				a2 = wrapG(a2)
			}
			args[i] = a2
		}
	case "slicelit":
		es := list(e["elems"])
		for i, a := range es {
			es[i] = spellExpr(a, mode)
		}
	case "app":
		for _, st := range list(e["chain"]) {
			as := list(st.(N)["args"])
			for i, a := range as {
				as[i] = spellExpr(a, mode)
			}
		}
	}
	return e
}

func spellList(vs []any, mode string, wrap bool) {
	for i, a := range vs {
		a2 := spellExpr(a, mode)
		if n, ok := a2.(N); ok && wrap && mode == "brackets" {
			a2 = wrapG(n)
		}
		vs[i] = a2
	}
}

func spellStmt(s N, mode string, inBlock bool) {
	w := func(k string) {
		if c, ok := s[k].(N); ok && c["k"] != "none" {
			c = spellExpr(c, mode).(N)
			if mode == "brackets" {
				c = wrapG(c)
			}
			s[k] = c
		}
	}
	switch s["k"] {
	case "define", "assign":
		vals, nms := list(s["values"]), list(s["names"])
		spellList(vals, mode, len(vals) == len(nms))
		if mode == "var" && inBlock && s["k"] == "define" && s["form"] == "short" && len(nms) == 1 && len(vals) == 1 && nms[0] != "_" {
			s["form"] = "var"
			s["ty"] = ""
		}
	case "compound":
		w("value")
	case "setidx":
		w("i")
		w("v")
	case "print":
		spellList(list(s["args"]), mode, len(list(s["args"])) > 1)
	case "panic":
		w("e")
	case "write":
		w("path")
		w("data")
		w("append")
	case "expr":
		if c, ok := s["e"].(N); ok {
			s["e"] = spellExpr(c, mode)
		}
	case "return":
		vals := list(s["values"])
		spellList(vals, mode, len(vals) > 1)
	case "if":
		for _, br := range list(s["branches"]) {
			brn := br.(N)
			if c, ok := brn["cond"].(N); ok {
				c = spellExpr(c, mode).(N)
				if mode == "brackets" {
					c = wrapG(c)
				}
				brn["cond"] = c
			}
			spellBlock(list(brn["body"]), mode)
		}
		spellBlock(list(s["else"]), mode)
	case "switch":
		w("tag")
		for _, c := range list(s["cases"]) {
			cn := c.(N)
			if x, ok := cn["e"].(N); ok {
				x = spellExpr(x, mode).(N)
				if mode == "brackets" {
					x = wrapG(x)
				}
				cn["e"] = x
			}
			spellBlock(list(cn["body"]), mode)
		}
		spellBlock(list(s["default"]), mode)
	case "for":
		if c, ok := s["init"].(N); ok && c["k"] != "none" {
			spellStmt(c, mode, false)
		}
		if c, ok := s["post"].(N); ok && c["k"] != "none" {
			spellStmt(c, mode, false)
		}
		w("cond")
		spellBlock(list(s["body"]), mode)
	case "range":
		if c, ok := s["x"].(N); ok {
			s["x"] = spellExpr(c, mode)
		}
		spellBlock(list(s["body"]), mode)
	case "func":
		spellBlock(list(s["body"]), mode)
	}
}

func spellBlock(ss []any, mode string) {
	for _, s := range ss {
		if n, ok := s.(N); ok {
			spellStmt(n, mode, true)
		}
	}
}

// airy is a spelling of the TEXT: a blank or a comment line behind every line that opens a block and in front of every line that closes one or
// starts a case (round 15: a blank line in front of a function's closing brace switched the end-of-body checks off).
func airy(text string) string {
	if strings.Contains(text, "`") {
		return text // a raw string may span lines
	}
	lines := strings.Split(text, "\n")
	out := []string{}
	n := 0
	filler := func(ind string) string {
		n++
		switch n % 3 {
		case 0:
			return ""
		case 1:
			return ind + "// note " + fmt.Sprint(n)
		}
		return ind + "/* c */"
	}
	for _, l := range lines {
		t := strings.TrimLeft(l, "\t ")
		ind := l[:len(l)-len(t)]
		if strings.HasPrefix(t, "}") || strings.HasPrefix(t, "case ") || strings.HasPrefix(t, "default:") {
			out = append(out, filler(ind+"\t"))
		}
		out = append(out, l)
		if strings.HasSuffix(t, "{") {
			out = append(out, filler(ind+"\t"))
		}
	}
	return strings.Join(out, "\n")
}

// respell returns a respelled deep copy of a statement list.
func respell(body []any, mode string) []any {
	if mode == "" {
		return body
	}
	c := cloneN(body).([]any)
	spellBlock(c, mode)
	return c
}
