------------------------------- MODULE FamC15 -------------------------------
(* Direction-A family for C15: all argument tuples over short strings on a small alphabet (so that matches, overlaps *)
(* and empties are dense), counts -2..4, slices of up to 4 elements, for the 19 functions of std/strings.            *)
EXTENDS TshAst
CONSTANT Tier
Quick == Tier = "quick"
Alpha == IF Quick THEN <<"a", "b">> ELSE <<"a", "b", " ">>
RECURSIVE Strs(_)
Strs(n) == IF n = 0 THEN {""} ELSE Strs(n - 1) \cup {w \o Alpha[i] : w \in Strs(n - 1), i \in 1..Len(Alpha)}
Short == Strs(IF Quick THEN 2 ELSE 2)
Long == Strs(IF Quick THEN 3 ELSE 3) \cup (IF Quick THEN {"aaaa", "abab", "ababa", "aabaa", " a b "} ELSE {"aaaa", "abab", "ababa", "aabaa", "abba", "baab", " ab ", "  a", "a  "})
Name(s) == "'" \o s \o "'"
Mk(fn, as, n, elems) == [id |-> "C15/" \o fn \o "/" \o JoinS([i \in 1..Len(as) |-> Name(as[i])], ",") \o "/" \o ToString(n) \o "/" \o JoinS([i \in 1..Len(elems) |-> Name(elems[i])], ","),
                         fn |-> fn, s |-> as, n |-> n, elems |-> elems]
Two == {"Index", "Contains", "HasPrefix", "HasSuffix", "Count", "Split", "Cut", "CutPrefix", "CutSuffix", "TrimPrefix", "TrimSuffix", "TrimLeft", "TrimRight", "Trim"}
Cases2 == {Mk(f, <<s, t>>, 0, <<>>) : f \in Two, s \in Long, t \in Short}
Cases1 == {Mk("TrimSpace", <<s>>, 0, <<>>) : s \in Long \cup {" \t a \n", "\ta", "a\n"}}
CasesRep == {Mk("Repeat", <<s>>, n, <<>>) : s \in Short, n \in 0..4}
CasesRepl == {Mk("Replace", <<s, o, w>>, n, <<>>) : s \in (IF Quick THEN {"", "a", "ab", "aa", "aaa", "abab", "aabaa"} ELSE Long), o \in {"", "a", "ab", "aa"}, w \in {"", "b", "xy"}, n \in (IF Quick THEN {-1, 0, 1, 2} ELSE -2..4)}
CasesReplAll == {Mk("ReplaceAll", <<s, o, w>>, 0, <<>>) : s \in (IF Quick THEN {"", "a", "ab", "aa", "aaa", "abab", "aabaa"} ELSE Long), o \in {"", "a", "ab", "aa"}, w \in {"", "b", "xy"}}
Elems == {<<>>, <<"a">>, <<"">>, <<"a", "b">>, <<"", "">>, <<"a", "", "b">>, <<"ab", "c d", "e">>, <<"a", "b", "c", "d">>}
CasesJoin == {Mk("Join", <<sep>>, 0, es) : sep \in {"", ",", ", ", "ab"}, es \in Elems}
ASSUME ndJsonSerialize("fam.ndjson", SetToSeq(Cases2 \cup Cases1 \cup CasesRep \cup CasesRepl \cup CasesReplAll \cup CasesJoin))
=============================================================================
