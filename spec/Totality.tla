------------------------------ MODULE Totality ------------------------------
(* The protocol of C13 on its own, model-checked exhaustively: whatever the environment does, the only terminal    *)
(* states the protocol admits are the two well-formed returns.  (TotalRun binds recorded outcomes to it.)            *)
EXTENDS Naturals, TLC
VARIABLES phase, outcome
Outcomes == [kind : {"script", "error", "panic", "timeout"}, script : BOOLEAN, msg : BOOLEAN]
Allowed(o) == \/ (o.kind = "script" /\ o.script /\ ~o.msg)
              \/ (o.kind = "error" /\ ~o.script /\ o.msg)
Init == phase = "called" /\ outcome = [kind |-> "none", script |-> FALSE, msg |-> FALSE]
Return == /\ phase = "called" /\ \E o \in Outcomes : Allowed(o) /\ outcome' = o
          /\ phase' = "returned"
Next == Return \/ (phase = "returned" /\ UNCHANGED <<phase, outcome>>)
Spec == Init /\ [][Next]_<<phase, outcome>> /\ WF_<<phase, outcome>>(Return)
ScriptXorError == phase = "returned" => ((outcome.kind = "script") # (outcome.kind = "error")) /\ (outcome.script # outcome.msg)
NeverCrashes == outcome.kind \notin {"panic", "timeout"}
Terminates == <>(phase = "returned")
=============================================================================
