------------------------------ MODULE TshModules ------------------------------
(* Import graphs (C09, C13).  A graph is a function from file names to the sequence of files each imports; names   *)
(* outside the domain are missing files.  Linking visits files depth first in import order.                        *)
EXTENDS Naturals, Sequences, FiniteSets, TLC
Targets(g, f) == {g[f][i] : i \in 1..Len(g[f])}
RECURSIVE ReachN(_, _, _)
ReachN(g, S, n) == IF n = 0 THEN S
                   ELSE ReachN(g, S \cup UNION {Targets(g, f) : f \in S \cap DOMAIN g}, n - 1)
Reach(g, main) == ReachN(g, {main}, Cardinality(DOMAIN g) + 1)            \* files reachable from main (including missing names)
ReachFrom(g, f) == ReachN(g, Targets(g, f), Cardinality(DOMAIN g) + 1)      \* files reachable in one or more steps
OnCycle(g, f) == f \in ReachFrom(g, f)
HasCycle(g, main) == \E f \in Reach(g, main) \cap DOMAIN g : OnCycle(g, f)
HasMissing(g, main) == Reach(g, main) \ DOMAIN g # {}
\* an alias may be used once per importing file: importing the same file twice needs two aliases (the family gives fresh ones)
Links(g, main) == ~HasCycle(g, main) /\ ~HasMissing(g, main)
=============================================================================
