"""Reads TLC's `-coverage` report and answers, for the named actions of a specification module (the disjuncts of its step relation), how often
each one was taken.  An action that is never taken in a conformance run means the rule it states was never exercised against the implementation
(vacuity); the thorough tier treats that as an infrastructure error, every tier records the counts in the evidence file."""
import re

ENTRY = re.compile(r"^  line (\d+), col (\d+) to line (\d+), col (\d+) of module (\w+): (\d+)")
DEF = re.compile(r"^([A-Za-z_]\w*)(\([^)]*\))?\s*==")


def disjuncts(src_lines, defname):
    """names of the operators that are the disjuncts of `defname == \\/ A \\/ B ...` (possibly over several lines)"""
    out, on, text = [], False, []
    for ln in src_lines:
        m = DEF.match(ln)
        if m:
            if on:
                break
            on = m.group(1) == defname
        if on:
            body = ln.split("==", 1)[1] if DEF.match(ln) else ln
            body = body.split("\\*")[0]
            text.append(body)
    # the disjuncts are what stands between the \/ signs (the first one need not be preceded by one)
    for part in " ".join(text).split("\\/"):
        m = re.match(r"\s*([A-Za-z_]\w*)", part)
        if m and m.group(1) not in out:
            out.append(m.group(1))
    return out


def spans(src_lines, names):
    """{name: (first line, last line)} (1-based) of each definition"""
    starts = []
    for i, ln in enumerate(src_lines, 1):
        m = DEF.match(ln)
        if m:
            starts.append((i, m.group(1)))
    res = {}
    for k, (i, n) in enumerate(starts):
        if n in names:
            end = starts[k + 1][0] - 1 if k + 1 < len(starts) else len(src_lines)
            res[n] = (i, end)
    return res


def action_counts(tlc_text, module, src_lines, defname):
    names = disjuncts(src_lines, defname)
    sp = spans(src_lines, set(names))
    last = {}        # name -> (line, col, count): the textually last top-level conjunct that was reported
    for ln in tlc_text.splitlines():
        m = ENTRY.match(ln)
        if not m or m.group(5) != module:
            continue
        l, c, n = int(m.group(1)), int(m.group(2)), int(m.group(6))
        for name, (a, b) in sp.items():
            if a <= l <= b:
                cur = last.get(name)
                if cur is None or (l, c) > cur[:2] or ((l, c) == cur[:2] and n > cur[2]):
                    last[name] = (l, c, n)
    return {name: (last[name][2] if name in last else 0) for name in names}
