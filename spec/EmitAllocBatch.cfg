SPECIFICATION Spec
CONSTANTS
  MaxEvents = 8
  MaxDepth = 3
  MaxFuncs = 2
INVARIANTS FreshLabels StacksAgree BreakOwn ContinueOwn IfJumpsOwn OpenLabels Resolved Emitted
CHECK_DEADLOCK FALSE
