"""C09 - Multi-file programs link correctly and unused-function removal is safe."""
import os

import progflow
from vlib import Infra, read_ndjson, write_ndjson

RULE = ("direction A: TLC enumerates spec/FamC09.tla: import graphs {single, pair, chain, diamond, diamond with a direct edge, one file under two aliases, std + local, imported files with "
        "top-level calls} x file contents from a catalog {public function, public + private with an internal call, global + top-level statement, function using its file's global, "
        "call into its own import} x content-hash class {starts with a digit, starts with a letter} (a nonce comment makes the parser's 7-character prefix fall in the class), every file "
        "also defining the same names Pub/Same; 8 rejected programs (private, undefined, unknown alias, unqualified, imported global, transitive alias, argument type). Pass 1: TLC links "
        "each program with spec/TshModules.tla (depth-first, each file once, names qualified per file) and checks it with TshStatic; pass 2: the recorded Bash run (stdout, status, empty "
        "stderr - a removed function shows as 'command not found') is validated against TshDyn on the linked program; verdicts are compared for both targets.")
ASSUME = ["calls into the bundled std library are replaced, in the model program only, by the values spec/GoStrings.tla prescribes",
          "TshModules!Link is the statement of 'behaves as the composition of its modules' (imports before the importer, each file once)"]


def run(ctx):
    fam = ctx.tlc_family("FamC09", constants={"Tier": '"%s"' % ctx.tier}, timeout=3000)
    ctx.exhaustive["FamC09"] = True
    judge_cases(ctx, fam)
    return ctx.finish(rule=RULE, assumptions=ASSUME)


def judge_cases(ctx, fam, tag="link"):
    """link + type-check verdicts for both targets, then the Bash run of the accepted programs (also used by C07 for the rules across import boundaries)"""
    wd = ctx.sub(tag)
    p0 = os.path.join(wd, "cases.ndjson")
    write_ndjson(p0, fam)
    linked, _ = ctx.tlc("LinkRun", workdir=ctx.sub("tlc-" + tag), files=[(p0, "cases.ndjson")], timeout=3000)
    lk = {v["id"]: v for v in linked}
    # verdicts of the real transpiler for both targets
    p1 = os.path.join(wd, "out.ndjson")
    ctx.run_vh("outcome", p0, p1, os.path.join(wd, "scr"))
    outc = {c["id"]: c for c in read_ndjson(p1)}
    runnable = []
    for c in fam:
        v = lk.get(c["id"])
        if v is None:
            raise Infra("no link verdict for " + c["id"])
        ctx.evaluations += 1
        o = outc[c["id"]]["obsrec"]
        rule = v["rule"]
        if rule.startswith("?"):
            ctx.dropped[rule] = ctx.dropped.get(rule, 0) + 1
            continue
        exp = "A" if rule == "" else "R"
        if o["bash"] != exp or o["batch"] != exp:
            s = "specification: %s (%s); transpiler: bash=%s batch=%s %s" % ("accept" if exp == "A" else "reject", rule or "links and type-checks", o["bash"], o["batch"], o.get("bashErr", ""))
            ctx.report_failure(c["id"] + "#verdict", {"property": ctx.prop, "case": c["id"], "why": s, "files": c["prog"]["files"], "observed": o}, s)
            if exp == "A":
                continue
        if rule == "":
            runnable.append({"id": c["id"], "prog": c["prog"], "mbody": v["body"]})
        else:
            ctx.traces_validated += 1
            ctx.distinct.add(c["id"])
    # pass 2: run the accepted programs under Bash and validate against TshDyn on the linked body
    res = validate_linked(ctx, runnable)
    failures = []
    for cid, (c, v) in res.items():
        if v["st"].startswith("undef") or v["st"] == "diverge":
            ctx.dropped[v["st"]] = ctx.dropped.get(v["st"], 0) + 1
            continue
        if v["st"].startswith("stuck"):
            raise Infra("specification stuck on linked program %s: %s" % (cid, v["st"]))
        ctx.traces_validated += 1
        ctx.distinct.add(cid)
        if len(ctx.samples) < 3 and ctx.traces_validated % 29 == 1:
            ctx.samples.append({"id": cid, "link_order": lk[cid]["order"], "expected_stdout": v["out"], "observed_stdout": c["obs"].get("out")})
        if not v["ok"]:
            failures.append((c, v, progflow.signature(c, v)))
    for c, v, sig in failures:
        ctx.report_failure(c["id"], {"property": ctx.prop, "case": c["id"], "why": sig, "files": c["prog"].get("files"), "script": c.get("script"),
                                     "expected": {"stdout": v["out"], "status": v["code"]}, "observed": c.get("obs"), "link_order": lk[c["id"]]["order"]}, sig)
    return res


def validate_linked(ctx, cases):
    """vh run on the multi-file program; TshRun on the linked single body."""
    if not cases:
        return {}
    wd = ctx.sub("run-linked")
    p0, p1 = os.path.join(wd, "c0.ndjson"), os.path.join(wd, "c1.ndjson")
    write_ndjson(p0, [{"id": c["id"], "prog": c["prog"]} for c in cases])
    ctx.run_vh("run", p0, p1, os.path.join(wd, "scr"), "-j", 16, "-scripts", "-timeout", 10)
    ran = {c["id"]: c for c in read_ndjson(p1)}
    slim = []
    for c in cases:
        r = ran[c["id"]]
        slim.append({"id": c["id"], "prog": {"body": c["mbody"]}, "obs": {k: v for k, v in r["obs"].items() if k not in ("stderr", "err", "sha")}})
    p2 = os.path.join(wd, "cases.ndjson")
    write_ndjson(p2, slim)
    verd, _ = ctx.tlc("TshRun", workdir=ctx.sub("tlc-linked"), files=[(p2, "cases.ndjson")], constants={"W": "64"}, timeout=3000)
    by = {v["id"]: v for v in verd}
    return {cid: (ran[cid], by[cid]) for cid in ran}
