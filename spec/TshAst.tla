------------------------------- MODULE TshAst -------------------------------
(* Abstract syntax of TypeShell as TLA+ values (DESIGN.md Appendix C).  The same shape is what the  *)
(* harness renders to .tsh text and what TshDyn/TshStatic interpret: one definition of the syntax,  *)
(* owned by the specification.  Integers travel as decimal strings (TLC integers are 32-bit).        *)
EXTENDS Integers, Sequences, FiniteSets, TLC, Json, SequencesExt

NoneN == [k |-> "none"]
\* ---- expressions
IntL(v)        == [k |-> "int", v |-> v]                       \* v: decimal string
NatLit(n)     == [k |-> "int", v |-> ToString(n)]
BoolL(b)       == [k |-> "bool", v |-> b]
StrL(s)        == [k |-> "str", v |-> s, raw |-> FALSE]
RawStr(s)     == [k |-> "str", v |-> s, raw |-> TRUE]
Nil           == [k |-> "nil"]
Var(n)        == [k |-> "var", name |-> n]
Not(e)        == [k |-> "not", e |-> e]
Grp(e)        == [k |-> "group", e |-> e]
Bin(op, l, r) == [k |-> "bin", op |-> op, l |-> l, r |-> r]
CmpE(op, l, r) == [k |-> "cmp", op |-> op, l |-> l, r |-> r]
Lgc(op, l, r) == [k |-> "logic", op |-> op, l |-> l, r |-> r]
CallE(f, args) == [k |-> "call", alias |-> "", name |-> f, args |-> args]
ACall(a, f, args) == [k |-> "call", alias |-> a, name |-> f, args |-> args]
SliceLit(ty, es) == [k |-> "slicelit", ty |-> ty, elems |-> es]
IndexE(x, i)   == [k |-> "index", x |-> x, i |-> i]
Substr(x, lo, hi) == [k |-> "substr", x |-> x, lo |-> lo, hi |-> hi]
LenE(e)       == [k |-> "len", e |-> e]
Itoa(e)       == [k |-> "itoa", e |-> e]
ExistsE(e)     == [k |-> "exists", e |-> e]
ReadE(e)      == [k |-> "read", e |-> e]
Input(p)      == [k |-> "input", prompt |-> p]
CopyE(d, s)   == [k |-> "copy", dst |-> d, src |-> s]
Stage(n, as)  == [name |-> n, lit |-> FALSE, args |-> as]
App(chain)    == [k |-> "app", chain |-> chain]
\* ---- statements
Def(names, vals)         == [k |-> "define", form |-> "short", names |-> names, ty |-> "", values |-> vals]
Def1(n, v)               == Def(<<n>>, <<v>>)
VarDef(names, ty, vals)  == [k |-> "define", form |-> "var", names |-> names, ty |-> ty, values |-> vals]
Asg(names, vals)         == [k |-> "assign", names |-> names, values |-> vals]
Asg1(n, v)               == Asg(<<n>>, <<v>>)
Compound(n, op, v)       == [k |-> "compound", name |-> n, op |-> op, value |-> v]
Inc(n)                   == [k |-> "incdec", name |-> n, inc |-> TRUE]
Dec(n)                   == [k |-> "incdec", name |-> n, inc |-> FALSE]
SetIdx(n, i, v)          == [k |-> "setidx", name |-> n, i |-> i, v |-> v]
Branch(c, b)             == [cond |-> c, body |-> b]
If(brs, els)             == [k |-> "if", branches |-> brs, else |-> els]
If1(c, b)                == If(<<Branch(c, b)>>, <<>>)
IfElse(c, b, e)          == If(<<Branch(c, b)>>, e)
CaseB(e, b)               == [e |-> e, body |-> b]
SwitchAt(tag, cs, def, hasDef, at) == [k |-> "switch", tag |-> tag, cases |-> cs, default |-> def, hasDefault |-> hasDef, defaultAt |-> at]
Switch(tag, cs, def, hasDef) == SwitchAt(tag, cs, def, hasDef, Len(cs))   \* default written last
ForInf(b)                == [k |-> "for", form |-> "inf", init |-> NoneN, cond |-> NoneN, post |-> NoneN, body |-> b]
ForCond(c, b)            == [k |-> "for", form |-> "cond", init |-> NoneN, cond |-> c, post |-> NoneN, body |-> b]
For3(i, c, p, b)         == [k |-> "for", form |-> "three", init |-> i, cond |-> c, post |-> p, body |-> b]
RangeS(i, v, x, b)        == [k |-> "range", i |-> i, v |-> v, x |-> x, body |-> b]
BreakS                    == [k |-> "break"]
ContinueS                 == [k |-> "continue"]
RetS(vs)                  == [k |-> "return", values |-> vs]
PrintS(args)              == [k |-> "print", args |-> args]
Print1(e)                == PrintS(<<e>>)
PanicS(e)                 == [k |-> "panic", e |-> e]
WriteS(p, d)              == [k |-> "write", path |-> p, data |-> d, append |-> NoneN]
WriteA(p, d, a)          == [k |-> "write", path |-> p, data |-> d, append |-> a]
ExprS(e)                 == [k |-> "expr", e |-> e]
Param(n, ty)             == [name |-> n, ty |-> ty]
Func(n, ps, rs, b)       == [k |-> "func", name |-> n, params |-> ps, results |-> rs, body |-> b]
FuncBare(n, rs, b)       == [k |-> "func", name |-> n, params |-> <<>>, results |-> rs, body |-> b, bare |-> TRUE]   \* written "func n [type] {" (no brackets)

ProgOf(body) == [body |-> body]
CaseOf(id, body) == [id |-> id, prog |-> ProgOf(body)]

MaxInt64 == "9223372036854775807"
MinInt64 == "-9223372036854775808"
MaxInt32 == "2147483647"
MinInt32 == "-2147483648"

\* Go operator precedence, for building the tree that an unparenthesised spelling denotes
Prec(o) == IF o \in {"*", "/", "%"} THEN 5 ELSE IF o \in {"+", "-"} THEN 4 ELSE IF o = "&&" THEN 2 ELSE IF o = "||" THEN 1 ELSE 3
MkOp(o, l, r) == IF o \in {"&&", "||"} THEN Lgc(o, l, r) ELSE IF o \in {"+", "-", "*", "/", "%"} THEN Bin(o, l, r) ELSE CmpE(o, l, r)
\* x1 o1 x2 o2 ... xn as Go parses it: all binary operators are left associative, so the tree splits at the
\* rightmost operator of lowest precedence
RECURSIVE FlatN(_, _)
FlatN(xs, os) ==
  IF os = <<>> THEN xs[1]
  ELSE LET minp == CHOOSE p \in {Prec(os[i]) : i \in 1..Len(os)} : \A i \in 1..Len(os) : p <= Prec(os[i])
           K == {i \in 1..Len(os) : Prec(os[i]) = minp}
           k == CHOOSE i \in K : \A j \in K : j <= i
       IN MkOp(os[k], FlatN(SubSeq(xs, 1, k), SubSeq(os, 1, k - 1)), FlatN(SubSeq(xs, k + 1, Len(xs)), SubSeq(os, k + 1, Len(os))))
Flat3(o1, o2, a, b, c) == FlatN(<<a, b, c>>, <<o1, o2>>)
LeftG3(o1, o2, a, b, c) == MkOp(o2, Grp(MkOp(o1, a, b)), c)
RightG3(o1, o2, a, b, c) == MkOp(o1, a, Grp(MkOp(o2, b, c)))

RECURSIVE JoinS(_, _)
JoinS(ss, sep) == IF ss = <<>> THEN "" ELSE IF Len(ss) = 1 THEN ss[1] ELSE ss[1] \o sep \o JoinS(Tail(ss), sep)

\* Families are serialised by an ASSUME in the family's root module; this is the whole "behaviour" of such a module.
VARIABLE famDummy
FamInit == famDummy = 0
FamNext == UNCHANGED famDummy
FamSpec == FamInit /\ [][FamNext]_famDummy
=============================================================================
