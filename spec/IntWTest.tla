---- MODULE IntWTest ----
EXTENDS IntW, TLC
VARIABLE x
Init == x = 0
Next == x' = x
R == -20..20
TQ(a, b) == IF (a < 0) = (b < 0) THEN (IF a < 0 THEN (-a) \div (-b) ELSE a \div b) ELSE -((IF a < 0 THEN -a ELSE a) \div (IF b < 0 THEN -b ELSE b))
TR(a, b) == a - b * TQ(a, b)
ASSUME \A a, b \in R : ToDec(Add(FromNat(a), FromNat(b), 64)) = ToDec(FromNat(a + b))
ASSUME \A a, b \in R : ToDec(Sub(FromNat(a), FromNat(b), 64)) = ToDec(FromNat(a - b))
ASSUME \A a, b \in R : ToDec(Mul(FromNat(a), FromNat(b), 64)) = ToDec(FromNat(a * b))
ASSUME \A a \in R, b \in R \ {0} : ToDec(Quo(FromNat(a), FromNat(b), 64)) = ToDec(FromNat(TQ(a, b)))
ASSUME \A a \in R, b \in R \ {0} : ToDec(Rem(FromNat(a), FromNat(b), 64)) = ToDec(FromNat(TR(a, b)))
ASSUME \A a, b \in R : Cmp(FromNat(a), FromNat(b)) = (IF a < b THEN -1 ELSE IF a > b THEN 1 ELSE 0)
MaxS == "9223372036854775807"
MinS == "-9223372036854775808"
ASSUME PrintT(<<"max+1", ToDec(Add(FromDec(MaxS), FromDec("1"), 64))>>)
ASSUME PrintT(<<"min-1", ToDec(Sub(FromDec(MinS), FromDec("1"), 64))>>)
ASSUME PrintT(<<"max*max", ToDec(Mul(FromDec(MaxS), FromDec(MaxS), 64))>>)
ASSUME PrintT(<<"max*3", ToDec(Mul(FromDec(MaxS), FromDec("3"), 64))>>)
ASSUME PrintT(<<"12345678901234 * 98765", ToDec(Mul(FromDec("12345678901234"), FromDec("98765"), 64))>>)
ASSUME PrintT(<<"min/-1", ToDec(Quo(FromDec(MinS), FromDec("-1"), 64))>>)
ASSUME PrintT(<<"-7/2,-7%2", ToDec(Quo(FromDec("-7"), FromDec("2"), 64)), ToDec(Rem(FromDec("-7"), FromDec("2"), 64))>>)
ASSUME PrintT(<<"123456789012345678 / 987654321", ToDec(Quo(FromDec("123456789012345678"), FromDec("987654321"), 64)), ToDec(Rem(FromDec("123456789012345678"), FromDec("987654321"), 64))>>)
ASSUME PrintT(<<"32: 2147483647+1", ToDec(Add(FromDec("2147483647"), FromDec("1"), 32))>>)
ASSUME PrintT(<<"32: 65536*65536", ToDec(Mul(FromDec("65536"), FromDec("65536"), 32)), ToDec(Mul(FromDec("65537"), FromDec("65537"), 32))>>)
====
