package main

// Direction-B generator: typed, scope-correct, terminating random programs over the fragment selected by
// `kind` (scalar | funcs | slices | all).  Programs that stray into undefined behaviour (division by zero,
// out-of-range reads, ...) are recognised by the specification (status undef/...) and dropped there, so
// the generator only has to make them rare, not impossible.

import (
	"fmt"
	"math/rand"
	"os"
	"strconv"
	"strings"
)

var none = N{"k": "none"}

type vinfo struct {
	name   string
	ty     string
	minLen int  // known lower bound of the length (strings: exact while unassigned)
	ro     bool // loop counter or range variable: never written by generated statements
}

type fsig struct {
	mutates bool // writes a global scalar (directly or through a callee): only called where no earlier operand of the same statement reads a variable
	name    string
	params  []string
	results []string
}

type gen struct {
	r        *rand.Rand
	kind     string
	avoid    map[string]bool
	scopes   [][]*vinfo // innermost last; scopes[0] = globals visible
	inFunc   bool
	results  []string // results of the function being generated
	funcs    []fsig
	n        int
	depth    int
	loops    int
	budget   int
	small    bool // 32-bit friendly literals
	funcBody bool
	usedInFunc map[string]bool
	mutates  bool
}

var pool = []string{"a", "b", "c", "x", "y", "z", "n", "m", "s", "t", "v", "w", "k", "p", "q"}

func (g *gen) visible(name string) bool {
	for _, sc := range g.scopes {
		for _, v := range sc {
			if v.name == name {
				return true
			}
		}
	}
	for _, f := range g.funcs {
		if f.name == name {
			return true
		}
	}
	return false
}

func (g *gen) fresh(ty string) string {
	for try := 0; try < 6; try++ {
		c := pool[g.r.Intn(len(pool))]
		if g.r.Intn(3) > 0 {
			c = c + strconv.Itoa(g.r.Intn(4))
		}
		if !g.visible(c) && !g.usedInFunc[c] && !reservedWord[c] {
			g.noteUsed(c)
			return c
		}
	}
	g.n++
	c := fmt.Sprintf("%s%d_", string(ty[len(ty)-1]), g.n)
	g.noteUsed(c)
	return c
}

var reservedWord = map[string]bool{"len": true, "print": true, "copy": true, "read": true, "write": true, "itoa": true}

func (g *gen) pick(xs []string) string { return xs[g.r.Intn(len(xs))] }

func (g *gen) declare(v *vinfo) {
	g.scopes[len(g.scopes)-1] = append(g.scopes[len(g.scopes)-1], v)
}

func (g *gen) varsOf(ty string, writable bool) []*vinfo {
	out := []*vinfo{}
	if writable && g.inFunc {
		g.mutates = true // conservatively: a function that looks for a writable variable may pick a global
	}
	for _, sc := range g.scopes {
		for _, v := range sc {
			if v.ty == ty && (!writable || !v.ro) {
				out = append(out, v)
			}
		}
	}
	return out
}

func (g *gen) has(f string) bool {
	switch f {
	case "funcs":
		return g.kind == "funcs" || g.kind == "all" || g.kind == "slices"
	case "slices":
		return g.kind == "slices" || g.kind == "all"
	}
	return true
}

func lit(v int) N { return N{"k": "int", "v": strconv.Itoa(v)} }
func vr(n string) N { return N{"k": "var", "name": n} }

func (g *gen) intLit() N {
	lits := []string{"0", "1", "2", "3", "7", "-1", "-5", "10", "42", "9223372036854775807", "-9223372036854775808", "4294967296", "-2147483649"}
	if g.small {
		lits = []string{"0", "1", "2", "3", "7", "-1", "-5", "10", "42", "100", "2147483647", "-2147483648", "65536"}
	}
	return N{"k": "int", "v": g.pick(lits)}
}

func (g *gen) callsReturning(ty string) []fsig {
	out := []fsig{}
	for _, f := range g.funcs {
		if len(f.results) == 1 && f.results[0] == ty && !f.mutates {
			out = append(out, f)
		}
	}
	return out
}

func (g *gen) callExpr(f fsig, d int) N {
	args := []any{}
	for _, p := range f.params {
		args = append(args, g.expr(p, d-1))
	}
	return N{"k": "call", "alias": "", "name": f.name, "args": args}
}

func (g *gen) intExpr(d int) N {
	vs := g.varsOf("int", false)
	if d <= 0 || g.r.Intn(3) == 0 {
		if len(vs) > 0 && g.r.Intn(3) > 0 {
			return vr(vs[g.r.Intn(len(vs))].name)
		}
		return g.intLit()
	}
	switch c := g.r.Intn(12); {
	case c == 0:
		return N{"k": "group", "e": g.intExpr(d - 1)}
	case c == 1 && g.has("funcs"):
		if fs := g.callsReturning("int"); len(fs) > 0 {
			return g.callExpr(fs[g.r.Intn(len(fs))], d)
		}
		fallthrough
	case c == 2:
		// len of a string or slice
		if ss := g.varsOf("string", false); len(ss) > 0 && g.r.Intn(2) == 0 {
			return N{"k": "len", "e": vr(ss[g.r.Intn(len(ss))].name)}
		}
		if g.has("slices") {
			for _, ty := range []string{"[]int", "[]string", "[]bool"} {
				if ss := g.varsOf(ty, false); len(ss) > 0 {
					return N{"k": "len", "e": vr(ss[g.r.Intn(len(ss))].name)}
				}
			}
		}
		fallthrough
	case c == 3 && g.has("slices"):
		if e := g.sliceRead("[]int"); e != nil {
			return e
		}
		fallthrough
	default:
		op := g.pick([]string{"+", "-", "*", "/", "%", "+", "-"})
		r := g.intExpr(d - 1)
		if op == "/" || op == "%" {
			r = N{"k": "int", "v": g.pick([]string{"1", "2", "3", "-2", "7", "10"})}
		}
		return N{"k": "bin", "op": op, "l": g.intExpr(d - 1), "r": r}
	}
}

// sliceRead returns an in-range element read of some slice of the given type, or nil.
func (g *gen) sliceRead(ty string) N {
	ss := g.varsOf(ty, false)
	cands := []*vinfo{}
	for _, s := range ss {
		if s.minLen > 0 {
			cands = append(cands, s)
		}
	}
	if len(cands) == 0 {
		return nil
	}
	s := cands[g.r.Intn(len(cands))]
	i := g.r.Intn(s.minLen)
	var idx N = lit(i)
	if g.r.Intn(3) == 0 && i > 0 {
		idx = N{"k": "bin", "op": "-", "l": lit(i + 2), "r": lit(2)}
	}
	return N{"k": "index", "x": vr(s.name), "i": idx}
}

var strLits = []string{"", "a", "b c", "xyz", "Hello", "two  blanks", "7", "a-b_c", "UPPER lower"}

func (g *gen) strExpr(d int) N {
	vs := g.varsOf("string", false)
	if d <= 0 || g.r.Intn(3) == 0 {
		if len(vs) > 0 && g.r.Intn(2) == 0 {
			return vr(vs[g.r.Intn(len(vs))].name)
		}
		return N{"k": "str", "v": g.pick(strLits), "raw": g.r.Intn(8) == 0}
	}
	switch c := g.r.Intn(9); {
	case c == 0:
		return N{"k": "itoa", "e": g.intExpr(d - 1)}
	case c == 1 && g.has("funcs"):
		if fs := g.callsReturning("string"); len(fs) > 0 {
			return g.callExpr(fs[g.r.Intn(len(fs))], d)
		}
		fallthrough
	case c == 2 || c == 3:
		// subscript of a string variable with known length
		cands := []*vinfo{}
		for _, s := range vs {
			if s.minLen > 0 {
				cands = append(cands, s)
			}
		}
		if len(cands) > 0 {
			s := cands[g.r.Intn(len(cands))]
			a := g.r.Intn(s.minLen + 1)
			b := a + g.r.Intn(s.minLen-a+1)
			switch g.r.Intn(5) {
			case 0:
				if a < s.minLen {
					return N{"k": "index", "x": vr(s.name), "i": lit(a)}
				}
				fallthrough
			case 1:
				return N{"k": "substr", "x": vr(s.name), "lo": lit(a), "hi": lit(b)}
			case 2:
				return N{"k": "substr", "x": vr(s.name), "lo": none, "hi": lit(b)}
			case 3:
				return N{"k": "substr", "x": vr(s.name), "lo": lit(a), "hi": none}
			default:
				return N{"k": "substr", "x": vr(s.name), "lo": none, "hi": none}
			}
		}
		fallthrough
	case c == 4 && g.has("slices"):
		if e := g.sliceRead("[]string"); e != nil {
			return e
		}
		fallthrough
	default:
		return N{"k": "bin", "op": "+", "l": g.strExpr(d - 1), "r": g.strExpr(d - 1)}
	}
}

func (g *gen) boolExpr(d int) N {
	vs := g.varsOf("bool", false)
	if d <= 0 || g.r.Intn(4) == 0 {
		if len(vs) > 0 && g.r.Intn(2) == 0 {
			return vr(vs[g.r.Intn(len(vs))].name)
		}
		return N{"k": "bool", "v": g.r.Intn(2) == 0}
	}
	switch c := g.r.Intn(9); {
	case c == 0:
		return N{"k": "not", "e": N{"k": "group", "e": g.boolExpr(d - 1)}}
	case c == 1:
		return N{"k": "group", "e": g.boolExpr(d - 1)}
	case c == 2 || c == 3:
		return N{"k": "logic", "op": g.pick([]string{"&&", "||"}), "l": g.boolExpr(d - 1), "r": g.boolExpr(d - 1)}
	case c == 4:
		return N{"k": "cmp", "op": g.pick([]string{"==", "!="}), "l": g.strExpr(d - 1), "r": g.strExpr(d - 1)}
	case c == 5:
		return N{"k": "cmp", "op": g.pick([]string{"==", "!="}), "l": g.boolExpr(d - 1), "r": g.boolExpr(d - 1)}
	case c == 6 && g.has("funcs"):
		if fs := g.callsReturning("bool"); len(fs) > 0 {
			return g.callExpr(fs[g.r.Intn(len(fs))], d)
		}
		fallthrough
	case c == 7 && g.has("slices"):
		if e := g.sliceRead("[]bool"); e != nil {
			return e
		}
		fallthrough
	default:
		return N{"k": "cmp", "op": g.pick([]string{"==", "!=", "<", "<=", ">", ">="}), "l": g.intExpr(d - 1), "r": g.intExpr(d - 1)}
	}
}

func (g *gen) sliceExpr(ty string, d int) N {
	vs := g.varsOf(ty, false)
	if len(vs) > 0 && g.r.Intn(2) == 0 {
		return vr(vs[g.r.Intn(len(vs))].name)
	}
	if g.has("funcs") && g.r.Intn(3) == 0 {
		if fs := g.callsReturning(ty); len(fs) > 0 {
			return g.callExpr(fs[g.r.Intn(len(fs))], d)
		}
	}
	n := g.r.Intn(4)
	el := []any{}
	for i := 0; i < n; i++ {
		el = append(el, g.expr(ty[2:], d-1))
	}
	return N{"k": "slicelit", "ty": ty[2:], "elems": el}
}

func (g *gen) expr(ty string, d int) N {
	switch ty {
	case "int":
		return g.intExpr(d)
	case "bool":
		return g.boolExpr(d)
	case "string":
		return g.strExpr(d)
	}
	return g.sliceExpr(ty, d)
}

func staticLen(e N) int {
	switch e["k"] {
	case "str":
		return len(e["v"].(string))
	case "slicelit":
		return len(list(e["elems"]))
	}
	return 0
}

func (g *gen) scoped(f func() []any) []any {
	g.scopes = append(g.scopes, []*vinfo{})
	b := f()
	g.scopes = g.scopes[:len(g.scopes)-1]
	return b
}

func (g *gen) block(n int) []any {
	return g.scoped(func() []any {
		out := []any{}
		for i := 0; i < n; i++ {
			out = append(out, g.stmts()...)
		}
		return out
	})
}

func (g *gen) types() []string {
	t := []string{"int", "bool", "string", "int", "string"}
	if g.has("slices") {
		t = append(t, "[]int", "[]string", "[]bool", "[]int")
	}
	return t
}

func (g *gen) printOf(v *vinfo) N {
	if strings.HasPrefix(v.ty, "[]") {
		return N{"k": "print", "args": []any{N{"k": "len", "e": vr(v.name)}}}
	}
	return N{"k": "print", "args": []any{vr(v.name)}}
}

// stmts produces one logical statement (sometimes two, e.g. a counter definition plus its loop).
func (g *gen) stmts() []any {
	g.depth++
	g.budget--
	defer func() { g.depth-- }()
	tys := g.types()
	c := g.r.Intn(22)
	if (g.depth > 3 || g.budget < 0) && c >= 9 {
		c = g.r.Intn(9)
	}
	switch c {
	case 0, 1:
		ty := g.pick(tys)
		e := g.expr(ty, 2)
		name := g.fresh(ty)
		g.declare(&vinfo{name: name, ty: ty, minLen: staticLen(e)})
		return []any{N{"k": "define", "form": "short", "names": []any{name}, "ty": "", "values": []any{e}}}
	case 2:
		ty := g.pick(tys)
		name := g.fresh(ty)
		vals := []any{}
		ml := 0
		if g.r.Intn(2) == 0 {
			e := g.expr(ty, 1)
			vals = []any{e}
			ml = staticLen(e)
		}
		g.declare(&vinfo{name: name, ty: ty, minLen: ml})
		return []any{N{"k": "define", "form": "var", "names": []any{name}, "ty": ty, "values": vals}}
	case 3:
		ty := g.pick(tys)
		ws := g.varsOf(ty, true)
		if len(ws) == 0 {
			return []any{N{"k": "print", "args": []any{g.expr(g.pick([]string{"int", "bool", "string"}), 2)}}}
		}
		w := ws[g.r.Intn(len(ws))]
		e := g.expr(ty, 2)
		w.minLen = 0
		if e["k"] == "str" {
			w.minLen = staticLen(e)
		}
		return []any{N{"k": "assign", "names": []any{w.name}, "values": []any{e}}}
	case 4:
		ws := g.varsOf("int", true)
		if len(ws) == 0 {
			return []any{N{"k": "print", "args": []any{g.intExpr(2)}}}
		}
		w := ws[g.r.Intn(len(ws))]
		if g.r.Intn(2) == 0 {
			return []any{N{"k": "incdec", "name": w.name, "inc": g.r.Intn(2) == 0}}
		}
		op := g.pick([]string{"+", "-", "*", "/", "%"})
		v := g.intExpr(1)
		if op == "/" || op == "%" {
			v = N{"k": "int", "v": g.pick([]string{"3", "2", "-4"})}
		}
		return []any{N{"k": "compound", "name": w.name, "op": op, "value": v}}
	case 5, 6, 7, 8:
		args := []any{}
		for i := 0; i < 1+g.r.Intn(3); i++ {
			args = append(args, g.expr(g.pick([]string{"int", "bool", "string"}), 2))
		}
		return []any{N{"k": "print", "args": args}}
	case 9, 10:
		nb := 1 + g.r.Intn(3)
		brs := []any{}
		for i := 0; i < nb; i++ {
			brs = append(brs, N{"cond": g.boolExpr(2), "body": g.block(g.r.Intn(3))})
		}
		els := []any{}
		if g.r.Intn(2) == 0 {
			els = g.block(1 + g.r.Intn(2))
		}
		return []any{N{"k": "if", "branches": brs, "else": els}}
	case 11:
		ty := g.pick([]string{"int", "string", "bool", ""})
		var tag any = none
		if ty != "" {
			vs := g.varsOf(ty, false) // a switch tag without side effects: a variable or a literal
			if len(vs) > 0 {
				tag = vr(vs[g.r.Intn(len(vs))].name)
			} else {
				tag = g.expr(ty, 0)
			}
		} else {
			ty = "bool"
		}
		cases := []any{}
		for i := 0; i < g.r.Intn(4); i++ {
			cases = append(cases, N{"e": g.expr(ty, 1), "body": g.block(g.r.Intn(2) + 1)})
		}
		def := []any{}
		hasDef := g.r.Intn(2) == 0
		if hasDef {
			def = g.block(1)
		}
		at := len(cases)
		if hasDef && len(cases) > 0 && g.r.Intn(3) == 0 {
			at = g.r.Intn(len(cases))
		}
		return []any{N{"k": "switch", "tag": tag, "cases": cases, "default": def, "hasDefault": hasDef, "defaultAt": at}}
	case 12, 13:
		// three-part loop with a protected counter
		i := g.fresh("int")
		limit := 1 + g.r.Intn(3)
		body := g.scoped(func() []any {
			g.declare(&vinfo{name: i, ty: "int", ro: true})
			g.loops++
			defer func() { g.loops-- }()
			b := []any{}
			if g.r.Intn(3) == 0 {
				jump := g.pick([]string{"break", "continue"})
				b = append(b, N{"k": "if", "branches": []any{N{"cond": N{"k": "cmp", "op": "==", "l": vr(i), "r": lit(g.r.Intn(limit))}, "body": []any{N{"k": jump}}}}, "else": []any{}})
			}
			for k := 0; k < 1+g.r.Intn(2); k++ {
				b = append(b, g.stmts()...)
			}
			if g.r.Intn(5) == 0 {
				jump := g.pick([]string{"break", "continue"})
				b = append(b, N{"k": "if", "branches": []any{N{"cond": g.boolExpr(1), "body": []any{N{"k": jump}}}}, "else": []any{}})
			}
			return b
		})
		return []any{N{"k": "for", "form": "three",
			"init": N{"k": "define", "form": "short", "names": []any{i}, "ty": "", "values": []any{lit(0)}},
			"cond": N{"k": "cmp", "op": "<", "l": vr(i), "r": lit(limit)},
			"post": N{"k": "incdec", "name": i, "inc": true}, "body": body}}
	case 14:
		// condition-only loop with its own counter, incremented first thing in the body
		i := g.fresh("int")
		g.declare(&vinfo{name: i, ty: "int", ro: true})
		limit := 1 + g.r.Intn(3)
		body := g.scoped(func() []any {
			g.loops++
			defer func() { g.loops-- }()
			b := []any{N{"k": "incdec", "name": i, "inc": true}}
			if g.r.Intn(3) == 0 {
				b = append(b, N{"k": "if", "branches": []any{N{"cond": N{"k": "cmp", "op": "==", "l": vr(i), "r": lit(1 + g.r.Intn(limit))}, "body": []any{N{"k": g.pick([]string{"break", "continue"})}}}}, "else": []any{}})
			}
			return append(b, g.stmts()...)
		})
		form, cond := "cond", any(N{"k": "cmp", "op": "<", "l": vr(i), "r": lit(limit)})
		if g.r.Intn(3) == 0 { // for { ... if i >= limit { break } }
			form, cond = "inf", any(none)
			body = append(body, N{"k": "if", "branches": []any{N{"cond": N{"k": "cmp", "op": ">=", "l": vr(i), "r": lit(limit)}, "body": []any{N{"k": "break"}}}}, "else": []any{}})
		}
		return []any{
			N{"k": "define", "form": "short", "names": []any{i}, "ty": "", "values": []any{lit(0)}},
			N{"k": "for", "form": form, "init": none, "cond": cond, "post": none, "body": body}}
	case 15:
		// multi definition / swap
		vs := g.varsOf("int", true)
		if len(vs) >= 2 && g.r.Intn(2) == 0 {
			a, b := vs[g.r.Intn(len(vs))], vs[g.r.Intn(len(vs))]
			if a != b {
				return []any{N{"k": "assign", "names": []any{a.name, b.name}, "values": []any{vr(b.name), vr(a.name)}}}
			}
		}
		t1, t2 := g.pick([]string{"int", "bool", "string"}), g.pick([]string{"int", "bool", "string"})
		e1, e2 := g.expr(t1, 2), g.expr(t2, 2)
		n1 := g.fresh(t1)
		g.declare(&vinfo{name: n1, ty: t1, minLen: staticLen(e1)})
		n2 := g.fresh(t2)
		g.declare(&vinfo{name: n2, ty: t2, minLen: staticLen(e2)})
		return []any{N{"k": "define", "form": "short", "names": []any{n1, n2}, "ty": "", "values": []any{e1, e2}}}
	case 16, 17:
		if !g.has("funcs") || len(g.funcs) == 0 {
			return []any{N{"k": "print", "args": []any{g.strExpr(2)}}}
		}
		f := g.funcs[g.r.Intn(len(g.funcs))]
		call := g.callExpr(f, 2)
		if f.mutates {
			g.mutates = true
		}
		switch {
		case len(f.results) == 0 || g.r.Intn(4) == 0:
			return []any{N{"k": "expr", "e": call}}
		case len(f.results) == 1:
			if strings.HasPrefix(f.results[0], "[]") {
				return []any{N{"k": "print", "args": []any{N{"k": "len", "e": call}}}}
			}
			return []any{N{"k": "print", "args": []any{call}}}
		default:
			// multi-value definition or assignment
			names := []any{}
			allAssign := g.r.Intn(3) == 0
			targets := []*vinfo{}
			if allAssign {
				used := map[string]bool{}
				for _, ty := range f.results {
					ws := g.varsOf(ty, true)
					var pick *vinfo
					for _, w := range ws {
						if !used[w.name] {
							pick = w
							break
						}
					}
					if pick == nil {
						allAssign = false
						break
					}
					used[pick.name] = true
					targets = append(targets, pick)
				}
			}
			if allAssign {
				for _, t := range targets {
					names = append(names, t.name)
					t.minLen = 0
				}
				return []any{N{"k": "assign", "names": names, "values": []any{call}}}
			}
			out := []any{}
			prints := []any{}
			for _, ty := range f.results {
				n := g.fresh(ty)
				g.declare(&vinfo{name: n, ty: ty})
				names = append(names, n)
				if !strings.HasPrefix(ty, "[]") {
					prints = append(prints, vr(n))
				} else {
					prints = append(prints, N{"k": "len", "e": vr(n)})
				}
			}
			out = append(out, N{"k": "define", "form": "short", "names": names, "ty": "", "values": []any{call}})
			out = append(out, N{"k": "print", "args": prints})
			return out
		}
	case 18, 19:
		if !g.has("slices") {
			return []any{N{"k": "print", "args": []any{g.intExpr(2), g.strExpr(1)}}}
		}
		ty := g.pick([]string{"[]int", "[]string", "[]bool"})
		ws := g.varsOf(ty, false)
		if len(ws) == 0 {
			e := g.sliceExpr(ty, 2)
			name := g.fresh(ty)
			g.declare(&vinfo{name: name, ty: ty, minLen: staticLen(e)})
			return []any{N{"k": "define", "form": "short", "names": []any{name}, "ty": "", "values": []any{e}}}
		}
		w := ws[g.r.Intn(len(ws))]
		switch g.r.Intn(4) {
		case 0, 1:
			idx := g.r.Intn(w.minLen + 3)
			if g.r.Intn(8) == 0 {
				idx = 9 + g.r.Intn(4)
			}
			if idx+1 > w.minLen {
				w.minLen = idx + 1
			}
			return []any{N{"k": "setidx", "name": w.name, "i": lit(idx), "v": g.expr(ty[2:], 1)}}
		case 2:
			// range with index and value
			i, v := g.fresh("int"), g.fresh(ty[2:])
			body := g.scoped(func() []any {
				g.declare(&vinfo{name: i, ty: "int", ro: true})
				g.declare(&vinfo{name: v, ty: ty[2:], ro: true})
				b := []any{N{"k": "print", "args": []any{vr(i), vr(v)}}}
				if g.r.Intn(2) == 0 {
					b = append(b, g.stmts()...)
				}
				return b
			})
			// the ranged slice must not grow inside the loop: forbid writes by marking, restored below
			return []any{N{"k": "range", "i": i, "v": v, "x": vr(w.name), "body": body}}
		default:
			// copy into a destination that is not longer than the source
			src := g.sliceExpr(ty, 1)
			dn := g.fresh(ty)
			g.declare(&vinfo{name: dn, ty: ty})
			cn := g.fresh("int")
			g.declare(&vinfo{name: cn, ty: "int"})
			return []any{
				N{"k": "define", "form": "var", "names": []any{dn}, "ty": ty, "values": []any{}},
				N{"k": "define", "form": "short", "names": []any{cn}, "ty": "", "values": []any{N{"k": "copy", "dst": dn, "src": src}}},
				N{"k": "print", "args": []any{vr(cn), N{"k": "len", "e": vr(dn)}}}}
		}
	case 20:
		// range over a string
		ss := g.varsOf("string", false)
		if len(ss) == 0 {
			return []any{N{"k": "print", "args": []any{g.strExpr(2)}}}
		}
		s := ss[g.r.Intn(len(ss))]
		i, v := g.fresh("int"), g.fresh("string")
		body := g.scoped(func() []any {
			g.declare(&vinfo{name: i, ty: "int", ro: true})
			g.declare(&vinfo{name: v, ty: "string", ro: true})
			return []any{N{"k": "print", "args": []any{vr(i), vr(v)}}}
		})
		ro := s.ro
		_ = ro
		return []any{N{"k": "range", "i": i, "v": v, "x": vr(s.name), "body": body}}
	default:
		if g.inFunc && len(g.results) > 0 && g.r.Intn(3) == 0 && g.loops == 0 {
			// early return nested in an if
			return []any{N{"k": "if", "branches": []any{N{"cond": g.boolExpr(1), "body": []any{g.returnStmt()}}}, "else": []any{}}}
		}
		return []any{N{"k": "print", "args": []any{g.strExpr(2), g.intExpr(2)}}}
	}
}

func (g *gen) returnStmt() N {
	vals := []any{}
	for _, ty := range g.results {
		vals = append(vals, g.expr(ty, 2))
	}
	return N{"k": "return", "values": vals}
}

func (g *gen) noteUsed(name string) {
	if g.usedInFunc != nil {
		g.usedInFunc[name] = true
	}
}

// funcDef generates a function; it sees only the true globals defined so far.
func (g *gen) funcDef(globals []*vinfo) N {
	g.n++
	name := fmt.Sprintf("%s%d", g.pick([]string{"f", "g", "calc", "helper", "do"}), g.n)
	saved := g.scopes
	savedUsed := g.usedInFunc
	g.usedInFunc = map[string]bool{}
	g.scopes = [][]*vinfo{globals, {}}
	g.inFunc = true
	g.mutates = false
	np, nr := g.r.Intn(4), g.r.Intn(4)
	if g.r.Intn(2) == 0 {
		nr = g.r.Intn(2)
	}
	params := []any{}
	ptys := []string{}
	tys := g.types()
	for i := 0; i < np; i++ {
		ty := g.pick(tys)
		pn := g.fresh(ty)
		g.declare(&vinfo{name: pn, ty: ty})
		params = append(params, N{"name": pn, "ty": ty})
		ptys = append(ptys, ty)
	}
	results := []string{}
	for i := 0; i < nr; i++ {
		results = append(results, g.pick(tys))
	}
	g.results = results
	body := []any{}
	for k := 0; k < 1+g.r.Intn(4); k++ {
		body = append(body, g.stmts()...)
	}
	if nr > 0 {
		body = append(body, g.returnStmt())
	}
	g.scopes = saved
	g.usedInFunc = savedUsed
	g.inFunc = false
	g.results = nil
	ra := []any{}
	for _, r := range results {
		ra = append(ra, r)
	}
	g.funcs = append(g.funcs, fsig{name: name, params: ptys, results: results, mutates: g.mutates})
	return N{"k": "func", "name": name, "params": params, "results": ra, "body": body}
}

func genProgram(r *rand.Rand, kind string, avoid map[string]bool, small bool) []any {
	g := &gen{r: r, kind: kind, avoid: avoid, scopes: [][]*vinfo{{}}, budget: 40, small: small, usedInFunc: map[string]bool{}}
	body := []any{}
	n := 4 + r.Intn(9)
	for k := 0; k < n; k++ {
		if g.has("funcs") && r.Intn(4) == 0 && len(g.funcs) < 6 {
			body = append(body, g.funcDef(g.scopes[0]))
			continue
		}
		body = append(body, g.stmts()...)
	}
	if r.Intn(8) == 0 {
		body = append(body, N{"k": "panic", "e": N{"k": "str", "v": "boom", "raw": false}})
	}
	// final state dump: every global scalar still visible
	for _, v := range g.scopes[0] {
		body = append(body, g.printOf(v))
	}
	return body
}

// cmdGen: vh gen <kind> <n> <seed> <out.ndjson> [-avoid a,b] [-small]
func cmdGen(args []string) {
	kind := args[0]
	n, _ := strconv.Atoi(args[1])
	seed, _ := strconv.ParseInt(args[2], 10, 64)
	out := args[3]
	avoid := map[string]bool{}
	small := false
	for i := 4; i < len(args); i++ {
		switch args[i] {
		case "-avoid":
			for _, a := range strings.Split(args[i+1], ",") {
				if a != "" {
					avoid[a] = true
				}
			}
			i++
		case "-small":
			small = true
		}
	}
	if kind == "files" || kind == "cmds" {
		cmdGenWorld(kind, n, seed, out)
		return
	}
	cases := []N{}
	for i := 0; i < n; i++ {
		r := rand.New(rand.NewSource(seed*1000003 + int64(i)*7919 + int64(len(kind))))
		body := genProgram(r, kind, avoid, small)
		cases = append(cases, N{"id": fmt.Sprintf("gen/%s/s%d/%d", kind, seed, i), "prog": N{"body": body}})
	}
	writeCases(out, cases)
	fmt.Fprintf(os.Stderr, "generated %d %s programs\n", n, kind)
}
