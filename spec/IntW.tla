------------------------------- MODULE IntW -------------------------------
(* W-bit two's-complement integers for TLC, whose own integers are 32-bit.   *)
(* A value is [neg |-> BOOLEAN, mag |-> little-endian sequence of 15-bit     *)
(* limbs without trailing zero limbs] (zero is [neg |-> FALSE, mag |-> <<>>]). *)
EXTENDS Integers, Sequences
B == 32768

Zero == [neg |-> FALSE, mag |-> <<>>]
RECURSIVE Trim(_)
Trim(m) == IF m = <<>> THEN m ELSE IF m[Len(m)] = 0 THEN Trim(SubSeq(m, 1, Len(m) - 1)) ELSE m
Mk(neg, m) == LET t == Trim(m) IN [neg |-> (neg /\ t # <<>>), mag |-> t]
Limb(m, i) == IF i <= Len(m) THEN m[i] ELSE 0
Max(a, b) == IF a > b THEN a ELSE b

RECURSIVE CmpFrom(_, _, _)
CmpFrom(a, b, i) == IF i = 0 THEN 0
                    ELSE IF Limb(a, i) < Limb(b, i) THEN -1
                    ELSE IF Limb(a, i) > Limb(b, i) THEN 1 ELSE CmpFrom(a, b, i - 1)
CmpMag(a, b) == CmpFrom(a, b, Max(Len(a), Len(b)))

RECURSIVE AddFrom(_, _, _, _)
AddFrom(a, b, i, c) == IF i > Max(Len(a), Len(b)) THEN (IF c = 0 THEN <<>> ELSE <<c>>)
                       ELSE LET s == Limb(a, i) + Limb(b, i) + c IN <<s % B>> \o AddFrom(a, b, i + 1, s \div B)
AddMag(a, b) == AddFrom(a, b, 1, 0)

RECURSIVE SubFrom(_, _, _, _)      \* requires a >= b
SubFrom(a, b, i, br) == IF i > Len(a) THEN <<>>
                        ELSE LET d == Limb(a, i) - Limb(b, i) - br IN
                             IF d < 0 THEN <<d + B>> \o SubFrom(a, b, i + 1, 1) ELSE <<d>> \o SubFrom(a, b, i + 1, 0)
SubMag(a, b) == Trim(SubFrom(a, b, 1, 0))

RECURSIVE MulSmallFrom(_, _, _, _)  \* k < B
MulSmallFrom(a, k, i, c) == IF i > Len(a) THEN (IF c = 0 THEN <<>> ELSE <<c>>)
                            ELSE LET p == a[i] * k + c IN <<p % B>> \o MulSmallFrom(a, k, i + 1, p \div B)
MulSmall(a, k) == Trim(MulSmallFrom(a, k, 1, 0))
Shift(a, n) == IF a = <<>> THEN a ELSE [i \in 1..n |-> 0] \o a
RECURSIVE MulFrom(_, _, _)
MulFrom(a, b, j) == IF j > Len(b) THEN <<>> ELSE AddMag(Shift(MulSmall(a, b[j]), j - 1), MulFrom(a, b, j + 1))
MulMag(a, b) == Trim(MulFrom(a, b, 1))

\* short division by k < B: <<quotient, remainder>>
RECURSIVE DivSmallFrom(_, _, _, _)
DivSmallFrom(a, k, i, r) == IF i = 0 THEN <<<<>>, r>>
                            ELSE LET cur == r * B + a[i]
                                     rest == DivSmallFrom(a, k, i - 1, cur % k)
                                 IN <<rest[1] \o <<cur \div k>>, rest[2]>>
DivSmall(a, k) == LET r == DivSmallFrom(a, k, Len(a), 0) IN <<Trim(r[1]), r[2]>>

\* long division limb by limb; each quotient limb by binary search (depth <= 15)
RECURSIVE QDigit(_, _, _, _)       \* largest d in lo..hi with d*b <= r   (invariant: lo*b <= r)
QDigit(r, b, lo, hi) == IF lo = hi THEN lo
                        ELSE LET mid == (lo + hi + 1) \div 2 IN
                             IF CmpMag(MulSmall(b, mid), r) <= 0 THEN QDigit(r, b, mid, hi) ELSE QDigit(r, b, lo, mid - 1)
RECURSIVE DivLimbs(_, _, _)        \* processes limbs i..1 of a; returns <<quotient limbs (little endian), remainder>>
DivLimbs(a, b, i) ==
  IF i > Len(a) THEN <<<<>>, <<>>>>
  ELSE LET hi  == DivLimbs(a, b, i + 1)                 \* more significant part first
           cur == Trim(<<a[i]>> \o hi[2])               \* r * B + a[i]
           d   == QDigit(cur, b, 0, B - 1)
       IN <<<<d>> \o hi[1], SubMag(cur, MulSmall(b, d))>>
DivModMag(a, b) == LET r == DivLimbs(a, b, 1) IN <<Trim(r[1]), Trim(r[2])>>

\* 2^W as a magnitude
RECURSIVE Pow2(_)
Pow2(n) == IF n < 15 THEN <<2 ^ n>> ELSE <<0>> \o Pow2(n - 15)

\* wrap a signed value into W bits
Wrap(v, W) ==
  LET M == Pow2(W)
      H == Pow2(W - 1)
      r == DivModMag(v.mag, M)[2]
      u == IF v.neg /\ r # <<>> THEN SubMag(M, r) ELSE r        \* v mod 2^W in 0..2^W-1
  IN IF CmpMag(u, H) >= 0 THEN Mk(TRUE, SubMag(M, u)) ELSE Mk(FALSE, u)

AddS(a, b) == IF a.neg = b.neg THEN Mk(a.neg, AddMag(a.mag, b.mag))
              ELSE IF CmpMag(a.mag, b.mag) >= 0 THEN Mk(a.neg, SubMag(a.mag, b.mag))
              ELSE Mk(b.neg, SubMag(b.mag, a.mag))
Neg(a) == Mk(~a.neg, a.mag)

Add(a, b, W) == Wrap(AddS(a, b), W)
Sub(a, b, W) == Wrap(AddS(a, Neg(b)), W)
Mul(a, b, W) == Wrap(Mk(a.neg # b.neg, MulMag(a.mag, b.mag)), W)
IsZero(a) == a.mag = <<>>
Quo(a, b, W) == Wrap(Mk(a.neg # b.neg, DivModMag(a.mag, b.mag)[1]), W)     \* b # 0, truncates toward zero
Rem(a, b, W) == Wrap(Mk(a.neg, DivModMag(a.mag, b.mag)[2]), W)              \* sign of the dividend
Cmp(a, b) == IF a.neg # b.neg THEN (IF a.neg THEN -1 ELSE 1)
             ELSE IF a.neg THEN CmpMag(b.mag, a.mag) ELSE CmpMag(a.mag, b.mag)

\* decimal strings
Digits == "0123456789"
DigitVal(c) == CHOOSE d \in 0..9 : SubSeq(Digits, d + 1, d + 1) = c
RECURSIVE FromDecMag(_, _, _)
FromDecMag(s, i, acc) == IF i > Len(s) THEN acc
                         ELSE FromDecMag(s, i + 1, AddMag(MulSmall(acc, 10), Trim(<<DigitVal(SubSeq(s, i, i))>>)))
FromDec(s) == IF SubSeq(s, 1, 1) = "-" THEN Mk(TRUE, FromDecMag(s, 2, <<>>)) ELSE Mk(FALSE, FromDecMag(s, 1, <<>>))
RECURSIVE ToDecMag(_)
ToDecMag(m) == IF m = <<>> THEN ""
               ELSE LET qr == DivSmall(m, 10) IN ToDecMag(qr[1]) \o SubSeq(Digits, qr[2] + 1, qr[2] + 1)
ToDec(a) == IF a.mag = <<>> THEN "0" ELSE (IF a.neg THEN "-" ELSE "") \o ToDecMag(a.mag)

\* bridge for small native integers (|n| < 2^30)
RECURSIVE MagOf(_)
MagOf(n) == IF n = 0 THEN <<>> ELSE <<n % B>> \o MagOf(n \div B)
FromNat(n) == IF n < 0 THEN Mk(TRUE, MagOf(-n)) ELSE Mk(FALSE, MagOf(n))
=============================================================================
