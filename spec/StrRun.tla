------------------------------- MODULE StrRun -------------------------------
(* C15: the output of one call of the compiled bundled library (recorded by the harness: transpile, /bin/bash) must  *)
(* be what the reference GoStrings prescribes; the reference itself is calibrated against Go's package on every case. *)
EXTENDS GoStrings, Json, SequencesExt
Cases == ndJsonDeserialize("cases.ndjson")      \* [id, fn, s (seq of string args), n (int arg or 0), elems (seq), obs, go]
VARIABLE ci
Init == ci \in 1..Len(Cases)
Next == UNCHANGED ci
Spec == Init /\ [][Next]_ci
C == Cases[ci]
B(b) == IF b THEN "1" ELSE "0"
RECURSIVE Digits(_)
Digits(n) == IF n < 10 THEN SubSeq("0123456789", n + 1, n + 1) ELSE Digits(n \div 10) \o SubSeq("0123456789", (n % 10) + 1, (n % 10) + 1)
I(n) == IF n < 0 THEN "-" \o Digits(-n) ELSE Digits(n)
Q(s) == "[" \o s \o "]"
RECURSIVE Lines(_)
Lines(es) == IF es = <<>> THEN "" ELSE Q(es[1]) \o "\n" \o Lines(Tail(es))
Expected ==
  LET f == C.fn
      a == C.s
  IN CASE f = "Index" -> I(Index(a[1], a[2])) \o "\n"
       [] f = "Contains" -> B(Contains(a[1], a[2])) \o "\n"
       [] f = "HasPrefix" -> B(HasPrefix(a[1], a[2])) \o "\n"
       [] f = "HasSuffix" -> B(HasSuffix(a[1], a[2])) \o "\n"
       [] f = "Count" -> I(Count(a[1], a[2])) \o "\n"
       [] f = "Split" -> I(Len(Split(a[1], a[2]))) \o "\n" \o Lines(Split(a[1], a[2]))
       [] f = "Join" -> Q(Join(C.elems, a[1])) \o "\n"
       [] f = "Repeat" -> Q(Repeat(a[1], C.n)) \o "\n"
       [] f = "Replace" -> Q(Replace(a[1], a[2], a[3], C.n)) \o "\n"
       [] f = "ReplaceAll" -> Q(ReplaceAll(a[1], a[2], a[3])) \o "\n"
       [] f = "Cut" -> Q(Cut(a[1], a[2])[1]) \o Q(Cut(a[1], a[2])[2]) \o " " \o B(Cut(a[1], a[2])[3]) \o "\n"
       [] f = "CutPrefix" -> Q(CutPrefix(a[1], a[2])[1]) \o " " \o B(CutPrefix(a[1], a[2])[2]) \o "\n"
       [] f = "CutSuffix" -> Q(CutSuffix(a[1], a[2])[1]) \o " " \o B(CutSuffix(a[1], a[2])[2]) \o "\n"
       [] f = "TrimPrefix" -> Q(TrimPrefix(a[1], a[2])) \o "\n"
       [] f = "TrimSuffix" -> Q(TrimSuffix(a[1], a[2])) \o "\n"
       [] f = "TrimLeft" -> Q(TrimLeft(a[1], a[2])) \o "\n"
       [] f = "TrimRight" -> Q(TrimRight(a[1], a[2])) \o "\n"
       [] f = "Trim" -> Q(Trim(a[1], a[2])) \o "\n"
       [] f = "TrimSpace" -> Q(TrimSpace(a[1])) \o "\n"
Verdict == PrintT(ToJson([id |-> C.id, expected |-> Expected, calibrated |-> (Expected = C.go),
                          ok |-> (C.obs.accepted /\ ~C.obs.hang /\ C.obs.out = Expected /\ C.obs.code = 0 /\ C.obs.errEmpty)]))
=============================================================================
