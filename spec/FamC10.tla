------------------------------- MODULE FamC10 -------------------------------
(* Direction-A family for C10: base programs covering every construct that makes the back-ends allocate names      *)
(* (temporaries, return registers, argument registers, loop flags, slice storage, helper routines, mangled locals,    *)
(* multi-assignment buffers) x each user identifier x each name of a catalog of names the back-ends reserve for        *)
(* themselves or inherit from the shell, case-only variants, and rotations of the program's own names.  The renamed    *)
(* program is Rename(base, rho) of spec/Rename.tla; the real pipeline must behave as TshDyn prescribes or refuse.       *)
EXTENDS TshAst
R == INSTANCE Rename
CONSTANT Tier
Quick == Tier = "quick"
I(n) == NatLit(n)
V(n) == Var(n)
Lt(a, n) == CmpE("<", V(a), I(n))
\* base programs: [name, body, vars (identifiers that are variables/parameters), funcs, world?]
Bases == <<
 [name |-> "arith", vars |-> <<"total", "step", "flag">>, funcs |-> <<>>,
  body |-> <<Def1("total", I(7)), Def1("step", Bin("+", Bin("*", V("total"), I(3)), I(2))), Def1("flag", Lgc("&&", CmpE(">", V("step"), I(10)), CmpE("!=", V("total"), I(0)))),
             PrintS(<<V("total"), V("step"), V("flag"), Bin("-", V("step"), V("total"))>>)>>],
 [name |-> "func", vars |-> <<"left", "right", "sum", "val", "dbl", "p", "q">>, funcs |-> <<"add", "twice">>,
  body |-> <<Func("add", <<Param("left", "int"), Param("right", "int")>>, <<"int">>, <<Def1("sum", Bin("+", V("left"), V("right"))), RetS(<<V("sum")>>)>>),
             Func("twice", <<Param("val", "int")>>, <<"int", "int">>, <<Def1("dbl", CallE("add", <<V("val"), V("val")>>)), RetS(<<V("dbl"), V("val")>>)>>),
             Def(<<"p", "q">>, <<CallE("twice", <<I(4)>>)>>), PrintS(<<V("p"), V("q"), CallE("add", <<V("p"), V("q")>>)>>)>>],
 [name |-> "slice", vars |-> <<"items", "count", "idx", "elem", "dst", "moved">>, funcs |-> <<>>,
  body |-> <<Def1("items", SliceLit("int", <<I(1), I(2)>>)), SetIdx("items", I(3), I(9)), Def1("count", LenE(V("items"))),
             RangeS("idx", "elem", V("items"), <<PrintS(<<V("idx"), V("elem")>>)>>), Def1("dst", SliceLit("int", <<>>)), Def1("moved", CopyE("dst", V("items"))),
             PrintS(<<V("count"), V("moved"), IndexE(V("dst"), I(3))>>)>>],
 [name |-> "string", vars |-> <<"word", "part", "ch", "size", "pos", "letter">>, funcs |-> <<>>,
  body |-> <<Def1("word", StrL("hello")), Def1("part", Substr(V("word"), I(1), I(3))), Def1("ch", IndexE(V("word"), I(0))), Def1("size", LenE(V("word"))),
             RangeS("pos", "letter", V("word"), <<PrintS(<<V("pos"), V("letter")>>)>>), PrintS(<<V("part"), V("ch"), V("size"), Bin("+", V("part"), V("ch"))>>)>>],
 [name |-> "loops", vars |-> <<"acc", "outer", "inner", "n">>, funcs |-> <<>>,
  body |-> <<Def1("acc", I(0)), For3(Def1("outer", I(0)), Lt("outer", 2), Inc("outer"), <<For3(Def1("inner", I(0)), Lt("inner", 2), Inc("inner"),
               <<Compound("acc", "+", Bin("+", Bin("*", V("outer"), I(2)), V("inner")))>>)>>), Def1("n", I(0)), ForCond(Lt("n", 3), <<Inc("n")>>), PrintS(<<V("acc"), V("n")>>)>>],
 [name |-> "globalinfunc", vars |-> <<"counter", "by", "local">>, funcs |-> <<"bump">>,
  body |-> <<Def1("counter", I(0)), Func("bump", <<Param("by", "int")>>, <<>>, <<Def1("local", Bin("*", V("by"), I(2))), Asg1("counter", Bin("+", V("counter"), V("local")))>>),
             ExprS(CallE("bump", <<I(2)>>)), ExprS(CallE("bump", <<I(3)>>)), Print1(V("counter"))>>],
 [name |-> "multi", vars |-> <<"first", "second", "third">>, funcs |-> <<>>,
  body |-> <<Def(<<"first", "second">>, <<I(1), I(2)>>), Asg(<<"first", "second">>, <<V("second"), V("first")>>), Def1("third", Bin("+", V("first"), V("second"))), PrintS(<<V("first"), V("second"), V("third")>>)>>],
 [name |-> "cond", vars |-> <<"sel", "msg">>, funcs |-> <<>>,
  body |-> <<Def1("sel", I(2)), Switch(V("sel"), <<CaseB(I(1), <<Print1(StrL("one"))>>), CaseB(I(2), <<Print1(StrL("two"))>>)>>, <<Print1(StrL("other"))>>, TRUE),
             If(<<Branch(CmpE("==", V("sel"), I(2)), <<Def1("msg", StrL("yes")), Print1(V("msg"))>>)>>, <<Print1(StrL("no"))>>)>>],
 [name |-> "funcslice", vars |-> <<"target", "at", "box">>, funcs |-> <<"fill">>,
  body |-> <<Func("fill", <<Param("target", "[]string"), Param("at", "int")>>, <<"[]string">>, <<SetIdx("target", V("at"), StrL("v")), RetS(<<V("target")>>)>>),
             Def1("box", CallE("fill", <<SliceLit("string", <<StrL("a")>>), I(2)>>)), PrintS(<<LenE(V("box")), IndexE(V("box"), I(2)), IndexE(V("box"), I(0))>>)>>],
 [name |-> "nested", vars |-> <<"base", "arg", "res", "tmp">>, funcs |-> <<"inner", "outer">>,
  body |-> <<Func("inner", <<Param("arg", "int")>>, <<"int">>, <<Def1("tmp", Bin("+", V("arg"), I(1))), RetS(<<Bin("*", V("tmp"), I(2))>>)>>),
             Func("outer", <<Param("base", "int")>>, <<"int">>, <<Def1("res", CallE("inner", <<CallE("inner", <<V("base")>>)>>)), RetS(<<Bin("+", V("res"), V("base"))>>)>>),
             PrintS(<<CallE("outer", <<I(1)>>), CallE("inner", <<I(5)>>)>>)>>],
 [name |-> "callerlocal", vars |-> <<"seed", "acc", "n", "keep", "extra">>, funcs |-> <<"helper", "work">>,
  body |-> <<Func("helper", <<Param("seed", "int")>>, <<"int">>, <<Def1("acc", Bin("*", V("seed"), I(2))), RetS(<<V("acc")>>)>>),
             Func("work", <<Param("n", "int")>>, <<"int">>, <<Def1("keep", I(10)), Def1("extra", CallE("helper", <<V("n")>>)), RetS(<<Bin("+", V("keep"), V("extra"))>>)>>),
             PrintS(<<CallE("work", <<I(3)>>), CallE("work", <<I(4)>>)>>)>>],
 \* a variable that is only ever written, among several targets, with values whose evaluation has effects
 [name |-> "writeonly", vars |-> <<"kept", "spare", "issued">>, funcs |-> <<"ticket">>,
  body |-> <<Def1("issued", I(0)), Func("ticket", <<>>, <<"int">>, <<Inc("issued"), PrintS(<<StrL("ticket"), V("issued")>>), RetS(<<V("issued")>>)>>),
             Def(<<"kept", "spare">>, <<I(1), Bin("+", CallE("ticket", <<>>), I(1))>>), Asg(<<"kept", "spare">>, <<Bin("+", V("kept"), I(1)), Bin("*", CallE("ticket", <<>>), I(2))>>),
             Asg(<<"spare", "kept">>, <<LenE(Itoa(CallE("ticket", <<>>))), Bin("+", V("kept"), I(1))>>), PrintS(<<V("kept"), V("issued")>>)>>],
 \* twelve functions, each with its own local; the last ones call the first ones between a write and a read of their local (names that the
 \* back-ends build from a name and a function NUMBER must not run into each other: x1 in function 1 and x in function 11)
 [name |-> "manyfuncs", vars |-> <<"la", "lb", "lc", "lj", "lk", "ll">>, funcs |-> <<>>,
  body |-> <<Func("g1", <<Param("v", "int")>>, <<"int">>, <<Def1("la", Bin("+", V("v"), I(1))), RetS(<<V("la")>>)>>),
             Func("g2", <<Param("v", "int")>>, <<"int">>, <<Def1("lb", Bin("+", V("v"), I(2))), RetS(<<V("lb")>>)>>),
             Func("g3", <<Param("v", "int")>>, <<"int">>, <<Def1("lc", Bin("+", V("v"), I(3))), RetS(<<V("lc")>>)>>),
             Func("g4", <<>>, <<"int">>, <<RetS(<<I(4)>>)>>), Func("g5", <<>>, <<"int">>, <<RetS(<<I(5)>>)>>), Func("g6", <<>>, <<"int">>, <<RetS(<<I(6)>>)>>),
             Func("g7", <<>>, <<"int">>, <<RetS(<<I(7)>>)>>), Func("g8", <<>>, <<"int">>, <<RetS(<<I(8)>>)>>), Func("g9", <<>>, <<"int">>, <<RetS(<<I(9)>>)>>),
             Func("g10", <<Param("v", "int")>>, <<"int">>, <<Def1("lj", I(100)), Def1("got", CallE("g1", <<V("v")>>)), RetS(<<Bin("+", V("lj"), V("got"))>>)>>),
             Func("g11", <<Param("v", "int")>>, <<"int">>, <<Def1("lk", I(200)), Def1("got", CallE("g1", <<V("v")>>)), RetS(<<Bin("+", V("lk"), V("got"))>>)>>),
             Func("g12", <<Param("v", "int")>>, <<"int">>, <<Def1("ll", I(300)), Def1("got", CallE("g2", <<V("v")>>)), RetS(<<Bin("+", V("ll"), Bin("+", V("got"), CallE("g3", <<V("v")>>)))>>)>>),
             PrintS(<<CallE("g10", <<I(1)>>), CallE("g11", <<I(1)>>), CallE("g12", <<I(1)>>), Bin("+", Bin("+", CallE("g4", <<>>), CallE("g5", <<>>)), Bin("+", Bin("+", CallE("g6", <<>>), CallE("g7", <<>>)), Bin("+", CallE("g8", <<>>), CallE("g9", <<>>))))>>)>>],
 \* caller and callee use the SAME spelling for a local, a parameter and a loop variable; the caller's are live across the call
 [name |-> "samelocal", vars |-> <<"acc", "val", "i">>, funcs |-> <<"inner", "outer">>,
  body |-> <<Func("inner", <<Param("val", "int")>>, <<"int">>, <<Def1("acc", I(0)), For3(Def1("i", I(0)), CmpE("<", V("i"), V("val")), Inc("i"), <<Compound("acc", "+", I(2))>>), RetS(<<V("acc")>>)>>),
             Func("outer", <<Param("val", "int")>>, <<"int">>, <<Def1("acc", I(100)), For3(Def1("i", I(0)), CmpE("<", V("i"), I(2)), Inc("i"), <<Compound("acc", "+", CallE("inner", <<Bin("+", V("val"), V("i"))>>))>>),
                                                                RetS(<<Bin("+", V("acc"), V("val"))>>)>>),
             PrintS(<<CallE("outer", <<I(1)>>), CallE("inner", <<I(2)>>)>>)>>]
>>
WorldBases == <<
 [name |-> "files", vars |-> <<"name", "body", "ok">>, funcs |-> <<>>,
  body |-> <<Def1("name", StrL("f.txt")), WriteS(V("name"), StrL("x")), Def1("body", ReadE(V("name"))), Def1("ok", ExistsE(V("name"))), PrintS(<<V("body"), V("ok")>>)>>],
 [name |-> "app", vars |-> <<"out", "errs", "code">>, funcs |-> <<>>,
  body |-> <<Def(<<"out", "errs", "code">>, <<App(<<Stage("pa", <<StrL("x3")>>)>>)>>), PrintS(<<V("out"), V("code")>>)>>]
>>
AllBases == Bases \o WorldBases
VarNames == <<"_h0", "_h1", "_h2", "_h3", "_h4", "_h6", "_rv0", "_rv1", "_fa0", "_fa1", "_fv0", "_fv1", "_dvc", "_dv1", "_dv2", "_ret", "_i", "_l", "_c", "_n", "_v", "_len", "_ls", "_ll", "_ma0", "_ma1",
              "_sub", "_sh", "_e", "_a", "_te", "_h", "f1_sum", "f1_left", "f2_val", "f1__h0", "f1_local", "f1_target", "IFS", "PATH", "HOME", "PWD", "BASH", "RANDOM", "SECONDS", "LINENO", "REPLY", "OPTIND",
              "LF", "OS", "x", "X", "I", "_", "__", "a1", "temp", "errorlevel", "ERRORLEVEL", "tmp9",
              "lf", "_LEN", "_E", "_DVC", "_RV0", "_FA0", "_H1", "_SUB", "F1_SUM", "F2_VAL", "_I", "_V", "_L",   \* cmd.exe folds case
              "fi", "done", "in", "time", "then", "CD", "DATE", "RANDOM", "cmdcmdline">>
FuncNames == <<"_sah", "_sch", "_ssh", "_ech", "_slg", "_sls", "_stsh", "_stlh", "echo", "eval", "printf", "cat", "test", "read", "local", "exit", "set", "cd", "unset", "end", "main", "f", "F1", "_SAH", "_ECH", "_STLH", "_STSH", "_SLG", "EOF", "eof",
              "fi", "done", "then", "do", "esac", "elif", "while", "until", "select", "function", "time", "in", "coproc">>    \* reserved words of Bash
SetOf(s) == {s[i] : i \in 1..Len(s)}
Mk(id, base, rho, world) == [id |-> id, base |-> base.name, prog |-> (IF world THEN [body |-> R!Rename(base.body, rho), world |-> [fs |-> <<>>, stdin |-> <<>>]] ELSE [body |-> R!Rename(base.body, rho)]),
                             check |-> (IF world THEN <<"fs", "alog">> ELSE <<>>)]
IsWorld(b) == b.name \in {"files", "app"}
Empty == [x \in {} |-> ""]
Identity == {Mk("C10/" \o AllBases[b].name \o "/base/base", AllBases[b], [v |-> Empty, f |-> Empty], IsWorld(AllBases[b])) : b \in 1..Len(AllBases)}
\* one identifier renamed to a catalog name (skipped when the program already uses that name)
OneVarOf(b) == UNION {{Mk("C10/" \o AllBases[b].name \o "/" \o AllBases[b].vars[i] \o "/" \o VarNames[n], AllBases[b], [v |-> (AllBases[b].vars[i] :> VarNames[n]), f |-> Empty], IsWorld(AllBases[b]))
                       : n \in {m \in 1..Len(VarNames) : VarNames[m] \notin SetOf(AllBases[b].vars)}} : i \in 1..Len(AllBases[b].vars)}
OneVar == UNION {OneVarOf(b) : b \in 1..Len(AllBases)}
OneFuncOf(b) == UNION {{Mk("C10/" \o AllBases[b].name \o "/fn-" \o AllBases[b].funcs[i] \o "/" \o FuncNames[n], AllBases[b], [v |-> Empty, f |-> (AllBases[b].funcs[i] :> FuncNames[n])], IsWorld(AllBases[b]))
                        : n \in 1..Len(FuncNames)} : i \in 1..Len(AllBases[b].funcs)}
OneFunc == UNION {OneFuncOf(b) : b \in 1..Len(AllBases)}
\* names differing only in letter case, and rotation of the program's own names
CasePairs == {Mk("C10/" \o AllBases[b].name \o "/case/" \o nm[1] \o "-" \o nm[2], AllBases[b], [v |-> (AllBases[b].vars[1] :> nm[1]) @@ (AllBases[b].vars[2] :> nm[2]), f |-> Empty], IsWorld(AllBases[b]))
              : b \in 1..Len(AllBases), nm \in {<<"value", "Value">>, <<"x", "X">>, <<"_h0", "_H0">>, <<"path", "PATH">>, <<"aB", "Ab">>}}
\* every pair of variables of a program spelled alike up to letter case, and both functions of a program spelled alike up to letter case
PairNames == IF Quick THEN {<<"x", "X">>} ELSE {<<"x", "X">>, <<"aB", "Ab">>, <<"Item", "item">>}
AllCasePairs == UNION {{Mk("C10/" \o AllBases[b].name \o "/case/" \o AllBases[b].vars[ij[1]] \o "+" \o AllBases[b].vars[ij[2]] \o "/" \o nm[1] \o "-" \o nm[2], AllBases[b],
                           [v |-> (AllBases[b].vars[ij[1]] :> nm[1]) @@ (AllBases[b].vars[ij[2]] :> nm[2]), f |-> Empty], IsWorld(AllBases[b]))
                        : ij \in {x \in (1..Len(AllBases[b].vars)) \X (1..Len(AllBases[b].vars)) : x[1] < x[2]}, nm \in PairNames} : b \in 1..Len(AllBases)}
FuncCasePairs == {Mk("C10/" \o AllBases[b].name \o "/fncase/" \o nm[1] \o "-" \o nm[2], AllBases[b], [v |-> Empty, f |-> (AllBases[b].funcs[1] :> nm[1]) @@ (AllBases[b].funcs[2] :> nm[2])], IsWorld(AllBases[b]))
                  : b \in {k \in 1..Len(AllBases) : Len(AllBases[k].funcs) = 2}, nm \in {<<"work", "Work">>, <<"FN", "fn">>, <<"_x", "_X">>}}
\* names that merely CONTAIN what the back-ends use (a reserved name as suffix, prefix or infix), that start with a keyword or builtin name, that are long
\* and share a long prefix, or that differ in a trailing digit: behaviour must not depend on the shape of a name
ShapeNames == <<"path_h1", "col_h0", "low_h10", "x_rv0", "my_fa0", "a_fv0", "n_dv1", "q_ma0", "_h1x", "h1", "f1", "rv0", "x_len", "len_", "the_ret", "i_", "a__b", "x1_h22", "v_",
                "forward", "iffy", "lenx", "printer", "returned", "inputs", "copy2", "range_", "truex", "nilly", "funcy", "vary", "switcher", "caseA", "defaultX", "breaker", "continued",
                "importer", "elsewhere", "itoa_", "existsx", "readme", "writer", "panic2", "_acc", "_x", "__", "_1", "_tmp_", "A", "aA", "a_", "a1b2",
                "a_very_long_identifier_name_that_goes_on_and_on_1", "a_very_long_identifier_name_that_goes_on_and_on_2", "Z9", "z_9_", "ONE", "camelCaseName", "snake_case_name">>
ShapeBases == {"multi", "func", "loops", "slice", "string", "callerlocal", "arith", "samelocal", "writeonly"}
ShapeOf(b) == UNION {{Mk("C10/" \o AllBases[b].name \o "/shape/" \o AllBases[b].vars[i] \o "/" \o ShapeNames[n], AllBases[b], [v |-> (AllBases[b].vars[i] :> ShapeNames[n]), f |-> Empty], IsWorld(AllBases[b]))
                      : n \in 1..Len(ShapeNames)} : i \in 1..Len(AllBases[b].vars)}
Shape == UNION {ShapeOf(b) : b \in {k \in 1..Len(AllBases) : AllBases[k].name \in ShapeBases}}
\* two variables of one program renamed to names of the same shape (both operands of a swap, caller and callee locals, ...)
ShapePairs == {<<"path_h1", "path_h2">>, <<"a_very_long_identifier_name_that_goes_on_and_on_1", "a_very_long_identifier_name_that_goes_on_and_on_2">>, <<"x_rv0", "x_rv1">>, <<"forward", "fort">>, <<"h1", "h2">>, <<"v_", "v__">>}
ShapePair == UNION {{Mk("C10/" \o AllBases[b].name \o "/shape2/" \o AllBases[b].vars[ij[1]] \o "+" \o AllBases[b].vars[ij[2]] \o "/" \o nm[1], AllBases[b],
                        [v |-> (AllBases[b].vars[ij[1]] :> nm[1]) @@ (AllBases[b].vars[ij[2]] :> nm[2]), f |-> Empty], IsWorld(AllBases[b]))
                     : ij \in {x \in (1..Len(AllBases[b].vars)) \X (1..Len(AllBases[b].vars)) : x[1] < x[2]}, nm \in ShapePairs} : b \in {k \in 1..Len(AllBases) : AllBases[k].name \in ShapeBases}}
FuncShape == UNION {{Mk("C10/" \o AllBases[b].name \o "/fnshape/" \o AllBases[b].funcs[i] \o "/" \o nm, AllBases[b], [v |-> Empty, f |-> (AllBases[b].funcs[i] :> nm)], IsWorld(AllBases[b]))
                     : nm \in {"forward", "lenx", "printer", "do_h1", "x_rv0", "f1", "h1", "get_", "a__b", "returned", "a_very_long_function_name_that_goes_on_and_on_and_on_1"}} : b \in {k \in 1..Len(AllBases) : Len(AllBases[k].funcs) > 0}, i \in {1}}
Rot(vs) == [i \in 1..Len(vs) |-> vs[(i % Len(vs)) + 1]]
Rotate == {Mk("C10/" \o AllBases[b].name \o "/rotate/vars", AllBases[b], [v |-> [x \in SetOf(AllBases[b].vars) |-> Rot(AllBases[b].vars)[CHOOSE i \in 1..Len(AllBases[b].vars) : AllBases[b].vars[i] = x]], f |-> Empty], IsWorld(AllBases[b]))
           : b \in 1..Len(AllBases)}
\* names composed of other names of the same program with "_" (collisions of "<function>_<local>" style manglings): for a pair of functions (one calling the
\* other) and one local of each, the four identifiers are renamed to P, P_Q, Q_x, x in both orientations
Templates == {<<"row", "row_sum", "sum_acc", "acc">>, <<"a", "a_b", "b_c", "c">>, <<"f", "f_1", "1x"  , "x">>, <<"get", "get_", "_v", "v">>, <<"p", "p__q", "q_x", "_q_x">>}
LegalT(t) == \A i \in 1..4 : SubSeq(t[i], 1, 1) \notin {"0", "1", "2", "3", "4", "5", "6", "7", "8", "9"}
Quads == {<<"func", "add", "twice", "sum", "dbl">>, <<"func", "add", "twice", "left", "val">>, <<"nested", "inner", "outer", "tmp", "res">>, <<"nested", "inner", "outer", "arg", "base">>,
          <<"globalinfunc", "bump", "bump", "local", "by">>, <<"callerlocal", "work", "helper", "keep", "acc">>, <<"callerlocal", "helper", "work", "acc", "keep">>,
          <<"callerlocal", "work", "helper", "extra", "acc">>}
BaseNamed(n) == AllBases[CHOOSE b \in 1..Len(AllBases) : AllBases[b].name = n]
NumPairs == {Mk("C10/manyfuncs/numpair/" \o pr[1] \o "=" \o pr[2] \o "+" \o pr[3] \o "=" \o pr[4], BaseNamed("manyfuncs"), [v |-> (pr[1] :> pr[2]) @@ (pr[3] :> pr[4]), f |-> Empty], FALSE)
             : pr \in {<<"la", "x1", "lk", "x">>, <<"la", "x", "lk", "x1">>, <<"la", "x1", "lj", "x">>, <<"la", "x0", "lj", "x">>, <<"la", "x", "lj", "x0">>, <<"lb", "x1", "ll", "x">>, <<"lb", "y2", "ll", "y">>,
                          <<"lb", "y", "ll", "y2">>, <<"lc", "z1", "ll", "z">>, <<"la", "w_1", "lk", "w">>, <<"la", "w", "lk", "w_1">>, <<"la", "n_", "lk", "n_1">>, <<"la", "f11", "lk", "f1">>, <<"la", "_1", "lk", "_">>}}
Compose == {Mk("C10/" \o q[1] \o "/compose/" \o t[1] \o "-" \o t[2] \o "-" \o t[3] \o "-" \o t[4] \o "/" \o o \o "/" \o q[4], BaseNamed(q[1]),
               IF o = "ab" THEN [v |-> (q[4] :> t[3]) @@ (q[5] :> t[4]), f |-> (IF q[2] = q[3] THEN (q[2] :> t[1]) ELSE (q[2] :> t[1]) @@ (q[3] :> t[2]))]
               ELSE [v |-> (q[4] :> t[4]) @@ (q[5] :> t[3]), f |-> (IF q[2] = q[3] THEN (q[2] :> t[2]) ELSE (q[2] :> t[2]) @@ (q[3] :> t[1]))], FALSE)
            : q \in Quads, t \in {x \in Templates : LegalT(x)}, o \in {"ab", "ba"}}
All == NumPairs \cup Shape \cup ShapePair \cup FuncShape \cup Identity \cup OneVar \cup OneFunc \cup Compose \cup CasePairs \cup AllCasePairs \cup FuncCasePairs \cup Rotate
ASSUME ndJsonSerialize("fam.ndjson", SetToSeq(All))
=============================================================================
