"""spec/EmitAllocBatch.tla bound to the code (C16).  TLC explores the implementation-shaped model of the Batch converter's label allocation for
every control skeleton within its bounds (invariants: fresh labels, stacks agree, break / continue / branch jumps go to their own construct) and
prints every complete behaviour.  Here each behaviour is (1) validated against the name-agnostic protocol spec/Emit.tla - the allocator refines
the protocol -, (2) rendered as a TypeShell program, transpiled by the REAL Batch converter with the recording decorator, and the labels the real
converter defines / jumps to at each structural call are compared with the model's (direction A: specification behaviours replayed into the code).
A disagreement means the converter allocates differently from the model: that is recorded (the design-level result then says nothing about this
tree) but it is NOT a violation - the recorded traces themselves are validated against Emit like all others, and that verdict is what counts."""
import json
import os

from vlib import Infra, read_ndjson, write_ndjson

STRUCT = ("ForStart", "ForEnd", "Break", "Continue", "IfStart", "ElseIfStart", "ElseStart", "IfEnd", "FuncStart", "Return", "FuncEnd")
NONE = {"k": "none"}


def _int(n):
    return {"k": "int", "v": str(n)}


def _cond(n):
    return {"k": "cmp", "op": "<", "l": {"k": "var", "name": "t"}, "r": _int(n)}


def _print(s):
    return {"k": "print", "args": [{"k": "str", "v": s, "raw": False}]}


def render(events):
    """structural events -> abstract syntax (spec/TshAst.tla shapes)"""
    top = [{"k": "define", "form": "short", "names": ["t"], "ty": "", "values": [_int(0)]}]
    stack = [top]          # blocks being filled
    opened = []            # constructs being built
    funcs = []
    n = 0
    for e in events:
        m = e["m"]
        n += 1
        if m == "ForStart":
            node = {"k": "for", "form": "cond", "init": NONE, "cond": _cond(n), "post": NONE, "body": [{"k": "incdec", "name": "t", "inc": True}]}
            stack[-1].append(node)
            opened.append(node)
            stack.append(node["body"])
        elif m == "ForEnd":
            opened.pop()
            stack.pop()
        elif m == "Break":
            stack[-1].append({"k": "break"})
        elif m == "Continue":
            stack[-1].append({"k": "continue"})
        elif m == "IfStart":
            node = {"k": "if", "branches": [{"cond": _cond(n), "body": [_print("b%d" % n)]}], "else": []}
            stack[-1].append(node)
            opened.append(node)
            stack.append(node["branches"][0]["body"])
        elif m == "ElseIfStart":
            node = opened[-1]
            node["branches"].append({"cond": _cond(n + 1), "body": [_print("b%d" % n)]})
            stack[-1] = node["branches"][-1]["body"]
        elif m == "ElseStart":
            node = opened[-1]
            node["else"] = [_print("b%d" % n)]
            stack[-1] = node["else"]
        elif m == "IfEnd":
            opened.pop()
            stack.pop()
        elif m == "FuncStart":
            name = e["defs"][0]
            node = {"k": "func", "name": name, "params": [], "results": ["int"], "body": [_print("in " + name)]}
            funcs.append(name)
            stack[-1].append(node)
            opened.append(node)
            stack.append(node["body"])
        elif m == "Return":
            stack[-1].append({"k": "return", "values": [_int(n)]})
        elif m == "FuncEnd":
            opened.pop()
            stack.pop()
    for f in funcs:
        top.append({"k": "print", "args": [{"k": "call", "alias": "", "name": f, "args": []}]})
    top.append(_print("end"))
    return {"body": top}


def run(ctx):
    quick = ctx.tier == "quick"
    vals, st = ctx.tlc("EmitAllocBatch", constants={"MaxEvents": "8" if quick else "10", "MaxDepth": "3", "MaxFuncs": "2"}, timeout=3000)
    beh = [v["events"] for v in vals]
    if not beh:
        raise Infra("EmitAllocBatch produced no behaviour")
    ctx.exhaustive["EmitAllocBatch"] = True
    wd = ctx.sub("alloc")
    # (1) the allocator model refines the protocol: every behaviour is a trace Emit accepts
    p0 = os.path.join(wd, "model.ndjson")
    write_ndjson(p0, [{"id": "alloc/%d" % i, "events": [{"m": e["m"], "facts": {"defs": e["defs"], "gotos": e["gotos"], "calls": [], "open": 0, "close": 0, "minDepth": 0, "n": 1}} for e in b]}
                      for i, b in enumerate(beh)])
    verd, _ = ctx.tlc("Emit", workdir=ctx.sub("tlc-alloc-model"), files=[(p0, "cases.ndjson")], timeout=3000)
    rej = [v for v in verd if not v["ok"]]
    if rej:
        raise Infra("spec/EmitAllocBatch.tla does not refine spec/Emit.tla: behaviour %s is rejected (%s)" % (rej[0]["id"], rej[0]["why"]))
    # (2) replay into the real converter (thorough: all behaviours; quick: every 5th): the programs join the traced programs of C16
    pick = list(range(0, len(beh), 5 if quick else 1))
    ctx.alloc = (beh, pick, st)
    return [{"id": "alloc/%d" % i, "prog": render(beh[i])} for i in pick]


def compare(ctx, ran):
    """ran: {id: record of vh emit}; compares the real converter's labels with the model's, event by event"""
    beh, pick, st = ctx.alloc
    agree, differ, first = 0, 0, None
    for i in pick:
        c = ran.get("alloc/%d" % i)
        if c is None or not c.get("accepted") or c.get("batchErr"):
            raise Infra("a behaviour of EmitAllocBatch does not render to an accepted program: alloc/%d %s" % (i, (c or {}).get("err", "")))
        real = [(e["m"], sorted(e["facts"]["defs"]), sorted(e["facts"]["gotos"])) for e in c["events"] if e["m"] in STRUCT]
        model = [(e["m"], sorted(e["defs"]), sorted(e["gotos"])) for e in beh[i]]
        if real == model:
            agree += 1
        else:
            differ += 1
            if first is None:
                k = next((j for j in range(min(len(real), len(model))) if real[j] != model[j]), min(len(real), len(model)))
                first = {"id": "alloc/%d" % i, "source": c["src"], "at": k, "model": model[k:k + 1], "real": real[k:k + 1]}
    ctx.notes["alloc_model"] = {"behaviours": len(beh), "states": st.get("distinct"), "accepted_by_Emit": len(beh), "replayed_into_converter": len(pick),
                                "same_labels_as_converter": agree, "different": differ, "first_difference": first, "conforms": differ == 0}


def inductive(ctx):
    """spec/apalache/EmitAllocInd.tla: label freshness for programs of any length as an inductive invariant, discharged by Apalache (three runs)"""
    import shutil
    import subprocess
    import vlib
    if shutil.which("apalache-mc") is None:
        ctx.notes["alloc_inductive"] = {"run": False, "why": "apalache-mc not on PATH"}
        return
    wd = ctx.sub("apalache")
    shutil.copy(os.path.join(vlib.VERIF, "spec", "apalache", "EmitAllocInd.tla"), wd)
    steps = [("initial", ["--init=Init", "--inv=IndInv", "--length=0"]), ("inductive step", ["--init=IndInit", "--inv=IndInv", "--length=1"]),
             ("implies freshness", ["--init=IndInit", "--inv=Fresh", "--length=0"])]
    res = {}
    for name, args in steps:
        try:
            r = subprocess.run(["timeout", "600", "apalache-mc", "check", "--cinit=CInit"] + args + ["--out-dir=" + os.path.join(wd, "out"), "EmitAllocInd.tla"],
                               cwd=wd, stdout=subprocess.PIPE, stderr=subprocess.STDOUT, text=True)
        except OSError as e:
            ctx.notes["alloc_inductive"] = {"run": False, "why": str(e)}
            return
        ok = "EXITCODE: OK" in r.stdout
        if not ok and ("The outcome is: Error" in r.stdout or "Found" in r.stdout and "error(s)" in r.stdout):
            raise Infra("spec/apalache/EmitAllocInd.tla: obligation '%s' fails - IndInv is not inductive for the modelled allocation scheme" % name)
        res[name] = "ok" if ok else "not decided (exit %d)" % r.returncode
    ctx.notes["alloc_inductive"] = {"run": True, "tool": "apalache-mc 0.58", "obligations": res, "discharged": sum(1 for v in res.values() if v == "ok")}
