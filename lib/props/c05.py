"""C05 - Batch target preserves the same program semantics under cmd.exe's rules."""
import os
import re

import corpus
import progflow
from vlib import Infra, read_ndjson, write_ndjson

RULE = ("programs: the C01-C04 families restricted to 32-bit literals and a cmd-neutral string alphabet, plus seeded random programs (`vh gen all -small`). For each program: "
        "(1) TLC runs the reference semantics TshDyn with W=32 (expected stdout and status); (2) the REAL Batch converter emits the script, the harness parses it into units "
        "(batparse), and TLC executes it under spec/CmdExe.tla - parse-time %-expansion, run-time !-expansion, forward-then-wrap label search from the end of the current unit, "
        "numeric-versus-text IF comparison, call / exit /B frames, 32-bit set /A - and compares stdout and status with the reference; (3) the Bash run of the same program is a "
        "third witness. Scripts using commands outside the modelled fragment are counted as unsupported and not compared. Distinct = distinct source text executed to completion by the model.")
ASSUME = ["there is no cmd.exe in the sandbox: spec/CmdExe.tla (rules R1-R12 of DESIGN.md 6.3) is the statement of cmd.exe's documented rules",
          "harness/batparse.go splits the emitted text into commands and text segments faithfully (every line of the converter's inventory; anything else is flagged unsupported)"]

STR = re.compile(r'"((?:[^"\\]|\\.)*)"|`([^`]*)`')
NUM = re.compile(r'(?<![A-Za-z_0-9"])-?\d+')


def neutral(src):
    for m in STR.finditer(src):
        body = m.group(1) if m.group(1) is not None else m.group(2)
        if re.search(r'[!%"^&|<>()\\]', body or ""):
            return False
    bare = STR.sub('""', src)
    for n in NUM.findall(bare):
        if abs(int(n)) > 2147483647:
            return False
    return True


def run(ctx):
    quick = ctx.tier == "quick"
    cases = []
    for fam, stride in (("FamC01", 9 if quick else 1), ("FamC02", 3 if quick else 1), ("FamC03", 13 if quick else 2), ("FamC04", 2 if quick else 1)):
        cs = ctx.tlc_family(fam, constants={"Tier": '"quick"'}, timeout=3000)
        cs = [c for c in cs if "world" not in c["prog"] and "check" not in c]
        cs.sort(key=lambda c: c["id"])
        cases += cs[::stride]
    # label allocation: nesting/sequencing shapes, many functions (spec/FamC16.tla), builtins that cannot run are dropped as unsupported
    shapes = ctx.tlc_family("FamC16", constants={"Tier": '"quick"'})
    cases += [c for c in shapes if "/builtin/" not in c["id"]]
    cases += progflow.generate(ctx, "all", 60 if quick else 1500, extra=("-small",))
    # the repository's own test programs: their stated expectations calibrate the cmd.exe model
    repo = corpus.cases(ctx, ("C01", "C02", "C03"))
    expects = {c["id"]: c["testExpects"] for c in repo if c.get("testExpects") is not None}
    cases += repo
    # (1)+(3): Bash run and reference run with W = 32
    res = progflow.validate(ctx, cases, "ref", width=32)
    keep = []
    for cid, (c, v) in res.items():
        ctx.evaluations += 1
        if not c["obs"].get("accepted") or not neutral(c["src"]):
            ctx.dropped["not-cmd-neutral-or-rejected"] = ctx.dropped.get("not-cmd-neutral-or-rejected", 0) + 1
            continue
        if v["st"] not in ("done", "exit1"):
            ctx.dropped[v["st"]] = ctx.dropped.get(v["st"], 0) + 1
            continue
        keep.append((c, v))
    # (2): real Batch converter, parsed, executed by CmdExe
    wd = ctx.sub("bat")
    p0, p1 = os.path.join(wd, "c0.ndjson"), os.path.join(wd, "c1.ndjson")
    write_ndjson(p0, [{"id": c["id"], "prog": c["prog"]} for c, v in keep])
    ctx.run_vh("batch", p0, p1, os.path.join(wd, "scr"))
    bat = {c["id"]: c for c in read_ndjson(p1)}
    cmdcases = []
    for c, v in keep:
        b = bat[c["id"]]
        if not b.get("batAccepted"):
            s = "the Bash converter accepts the program, the Batch converter rejects it: " + b.get("batErr", "")
            ctx.report_failure(c["id"], {"property": "C05", "case": c["id"], "why": s, "source": c["src"]}, s)
            continue
        cmdcases.append({"id": c["id"], "script": b["script"], "ref": {"out": v["out"], "code": v["code"]}})
    p2 = os.path.join(wd, "cases.ndjson")
    write_ndjson(p2, cmdcases)
    verd, _ = ctx.tlc("CmdExe", workdir=ctx.sub("tlc-cmd"), files=[(p2, "cases.ndjson")], timeout=6000)
    by = {x["id"]: x for x in verd}
    agree_bash = 0
    for c, v in keep:
        r = by.get(c["id"])
        if r is None:
            continue
        b = bat[c["id"]]
        if r["st"] in ("unsupported", "diverge"):
            ctx.dropped["cmd-" + r["st"]] = ctx.dropped.get("cmd-" + r["st"], 0) + 1
            if r["st"] == "unsupported" and len(ctx.notes.setdefault("unsupported_lines", [])) < 10:
                ctx.notes["unsupported_lines"] += b.get("unsupported", [])[:2]
            continue
        ctx.traces_validated += 1
        ctx.distinct.add(c["src"])
        if c["obs"]["out"] == v["out"] and c["obs"]["code"] == v["code"]:
            agree_bash += 1
        if len(ctx.samples) < 4 and len(c["src"]) < 250 and ctx.traces_validated % 41 == 1:
            ctx.samples.append({"id": c["id"], "source": c["src"], "reference_stdout": v["out"], "cmd_model_stdout": r["out"], "bash_stdout": c["obs"]["out"]})
        if c["id"] in expects and r["st"] == "exit" and r["out"].strip() == expects[c["id"]].strip() and r["ok"]:
            ctx.notes["cmd_model_calibrated_on_repo_tests"] = ctx.notes.get("cmd_model_calibrated_on_repo_tests", 0) + 1
        if not r["ok"]:
            from vlib import first_diff
            s = "under cmd.exe's rules the Batch script ends with status %s (%s): stdout %s; status expected %d observed %s" % (
                r["st"], "script error" if r["st"] == "cmderror" else "normal end", first_diff(v["out"], r["out"]) or "equal", v["code"], r["code"])
            ctx.report_failure(c["id"], {"property": "C05", "case": c["id"], "why": s, "source": c["src"], "batch_script": b.get("bat"),
                                         "expected": {"stdout": v["out"], "status": v["code"]}, "cmd_model": {"stdout": r["out"], "status": r["code"], "end": r["st"]},
                                         "bash": {"stdout": c["obs"]["out"], "status": c["obs"]["code"]},
                                         "reproduce": "tsh -t batch; run the .bat under cmd.exe (or spec/CmdExe.tla)"}, s)
    return ctx.finish(rule=RULE, assumptions=ASSUME, extra={"agree_with_bash": agree_bash, "notes": ctx.notes})
